"""C11 bounded stand-in (engine B): MDL V2000 / V3000 and MRV files - write then read preserves the record; damaged records are
skipped without losing the following ones; index access = sequential access; the repository's test files and RDKit-written
molblocks are read.  Audit extension (parts 8): the same contracts under every non-default writer / reader keyword, for every way of handing a
file to a writer / reader and every public reading entry point, and for spec-equivalent re-spellings / hand-written records with the features
only other programs write (oracles/o11_foreign.py).  Contracts are attached to the real writers / readers (DESIGN §2 C11); never counted as proof."""
import io
import os
import shutil
import tempfile
import traceback

from vlib import env
from vlib.report import pmap

RULE = ('distinct non-trivial = distinct (writer->reader pair, canonical structure [+ form]) with >= 2 atoms for round trips; distinct '
        '(pair, metadata class, text) for titles/metadata; distinct (pair, damage kind, line kind) for damaged multi-record files; '
        'distinct (file, reader options) for test files; distinct (version, RDKit canonical SMILES) for RDKit-written molblocks; distinct (option, '
        'numbering, canonical structure / reaction) under non-default options; distinct (pair, record type) for file kinds / entry points; distinct '
        '(molecule | file | hand-written record) for records as other programs spell them')

ION = ['[Fe+4]', '[Ti+4]', '[Zr+4]', '[Pb+4]', '[C-4]', '[Si-4]', '[Fe+3]', '[Al+3]', '[N-3]', '[P-3]', '[O-2]', '[S-2]', '[Ca+2]',
       '[Mg+2]', '[Na+]', '[K+]', '[Cl-]', '[Br-]', '[NH4+]', '[OH-]', '[57Fe+4]', '[37Cl-]', '[6Li+]', '[13C-4]']
ISO = ['[13CH4]', '[14CH4]', '[2H]O[2H]', '[18OH2]', '[15NH3]', '[3H][3H]', '[13CH3][13CH3]', '[11CH3]O', '[235U]', '[125I]I', '[2H]Cl']
RAD = ['[CH3]', '[OH]', 'C[CH]C', '[Cl]', 'C[O]', '[13CH3]', 'C[CH2]', '[CH2]C=C']
COORD = ['N~[Cu+2]~N', '[Cl-]~[Pt+2](~[Cl-])(~N)~N', 'O~[Mg+2]', 'c1ccccc1~[Cr]', 'CC(=O)[O-]~[Zn+2]~[O-]C(C)=O', 'C1=CC=CC=C1~[Fe]',
         'O=C~[Ni](~C=O)(~C=O)~C=O', 'N#C~[Fe+2](~C#N)~C#N', 'CN(C)C~[B](F)(F)F']
STEREO = ['C[C@H](O)CC', 'C[C@@H](O)CC', 'C[C@](N)(O)CC', 'N[C@@H](C)C(=O)O', 'C/C=C/C', 'C/C=C\\C', 'C/C=C/C=C\\C', 'CC=[C@]=CC',
          'CC=[C@@]=CC', 'C/C=C=C=C/C', 'C/C=C=C=C\\C', 'C[C@H]1CC[C@@H](O)CC1', 'C[C@H](O)/C=C/[C@@H](N)C', 'OC(=O)[C@H](N)Cc1ccccc1',
          'C[C@H](O)C=[C@]=CC', 'F/C(Cl)=C(/Br)I', 'C[C@@H]1CCC[C@H](C)N1', 'O[C@H]1[C@H](O)[C@@H](O)[C@H](O)[C@@H](O)[C@@H]1O',
          'C(/C=C/Cl)(=C\\C)C', '[2H][C@H](O)C', 'C[C@]([H])(O)CC', '[H]/C(C)=C/C', 'C/C=C/[H]',
          # centres that are stereogenic only once their neighbours carry labels (pseudo-asymmetric / dependent): the reader has to retry them
          'C[C@H](O)[C@@H](O)[C@H](O)C', 'C[C@H](O)[C@H](O)[C@H](O)C', 'C[C@H](Cl)[C@H](O)[C@@H](Cl)C', 'C[C@H](O)[C@@H](F)[C@H](O)C',
          'C[C@H]1C[C@@H](C)C[C@H](O)C1', 'C[C@H](O)[C@@H](O)[C@H](O)[C@@H](O)[C@H](O)C', 'C[C@@H](N)[C@H](C)[C@@H](N)C']

# audit extension: input classes the lists above do not contain
STEREO2 = [  # tri- / tetra-substituted allenes (4 wedge candidates); a centre all of whose neighbours are centres; ring-attached and ring-linking
             # cumulenes; spiro centres (with heteroatoms); cis/trans in large rings; bridged / fused ring centres; 2- and 4-neighbour centres with
             # halogens; charged / radical / isotope-labelled neighbours of a centre; three-membered rings; branched dienes
    'CC(F)=[C@]=C(C)Cl', 'CC(F)=[C@@]=C(C)Cl', 'CC=[C@]=C(C)Cl', 'C[C@H](F)C(C)=[C@@]=CCl', '[C@H]([C@H](C)O)([C@H](C)N)[C@H](C)F',
    'C[C@@]([C@H](C)O)([C@H](C)N)[C@@H](C)F', 'C[C@H]1CC/C(=C\\C)CC1', 'C[C@H]1CCC(=C=C2CC[C@@H](C)CC2)CC1', 'C[C@H]1CC[C@@]2(CC1)CC[C@H](C)CC2',
    'C1C[C@]2(CCO1)CCOC2', 'C[C@H]1C[C@]2(C1)C[C@@H](C)C2', 'C1CCCC/C=C/CCCC1', 'C1CCCC/C=C\\CCCC1', 'C/C=C/C=C/C=C\\C',
    'C[C@H](O)[C@@H](O)/C=C/[C@H](O)[C@@H](O)C', 'O[C@H]1C[C@@H]2CC[C@H]1C2', 'C[C@]12CC[C@H]3[C@@H](CCc4cc(O)ccc34)[C@@H]1CC[C@@H]2O',
    'F[C@H](Cl)Br', 'F[C@](Cl)(Br)I', '[O-][C@H](F)Cl', 'C[C@H]([NH3+])C([O-])=O', '[13CH3][C@H](O)C', 'C[C@H](O)[CH2]', 'C[C@H]([O])CC',
    'N[C@H](C)[C@@H](C)N', 'C[C@H](O)[C@H](C)O', 'C[C@H]1O[C@@H]1C', 'C[C@H]1[C@@H](C)[C@H]1C', 'C(=C/C)\\C=C\\C', 'C/C(F)=C(\\C)F']
MISC2 = ['[O][O-]', '[CH2+][CH2]', 'C[N+]([O-])=O', 'C=[N+]=[N-]', '[H][H]', '[2H][2H]', '[H]O[H]', '[3H]C', '[2H]C([2H])([2H])O[2H]', '[15NH2][13CH2][14CH2][18OH]',
         '[13CH3][17OH]', '[33SH2]', '[18F-]', '[32PH3]', '[H+]', '[H-]', '[2H+]', '[He]', '[Fe]', '[U+4]', '[O-][Cl+3]([O-])([O-])[O-]']
# atom counts at the column-width boundaries of the fixed-column format (no layout: constitution only)
BIG = ['C' * 99 + 'O', 'C' * 100 + '[NH3+]', '[13CH3]' + 'C' * 997 + '[O-]', 'C' * 500 + '.' + '[Na+].[Cl-].' * 100 + '[CH3]', '[14CH3]' + 'C' * 1198 + '[O-]']


# ---------------------------------------------------------------------------------------------------------------- plumbing

def P():
    """the writer -> reader pairs under contract"""
    from chython.files import SDFRead, SDFWrite, ESDFWrite, RDFRead, RDFWrite, ERDFWrite, MRVRead, MRVWrite
    return {  # name: (writer, reader, format, molecules, reactions)
        'SDFWrite>SDFRead': (SDFWrite, SDFRead, 'sdf', True, False),
        'ESDFWrite>SDFRead': (ESDFWrite, SDFRead, 'sdf', True, False),
        'RDFWrite>RDFRead': (RDFWrite, RDFRead, 'rdf', True, True),
        'ERDFWrite>RDFRead': (ERDFWrite, RDFRead, 'rdf', True, True),
        'MRVWrite>MRVRead': (MRVWrite, MRVRead, 'mrv', True, True)}


def write(pair, objs, **wkw):
    W = P()[pair][0]
    f = io.StringIO()
    with W(f, **wkw) as w:
        for o in objs:
            w.write(o)
    return f.getvalue()


def reader(pair, text, **kw):
    _, R, fmt, *_ = P()[pair]
    kw.setdefault('calc_cis_trans', True)
    if fmt == 'mrv':
        return R(io.BytesIO(text.encode()), **kw)
    return R(io.StringIO(text), **kw)


def where(e):
    """innermost frame of the library: <ExcClass>@<file>:<function>"""
    tb = traceback.extract_tb(e.__traceback__)
    lib = [f for f in tb if '/chython/' in f.filename] or tb
    f = lib[-1]
    return f'{type(e).__name__}@{os.path.basename(f.filename)}:{f.name}'


def V(family, key, what, witness, native=None):
    return (family, key, what, witness, native)


# -------------------------------------------------------------------------------------------------------- round trip: molecules

def build(s, form, offset=None):
    """molecule of the claimed domain from SMILES.  form: 'kekule' (Kekule form, 2D coordinates from clean2d), 'kekule-rdkit2d'
    (Kekule form, coordinates from RDKit's depictor, which honours double-bond labels: brings cis geometry in chains),
    'aromatic' (thiele form, clean2d).  returns (molecule, has 2D coordinates, info)"""
    import random
    from chython import smiles
    from oracles import o11_records as O
    m = smiles(s)
    m.kekule()
    if form == 'aromatic':
        m.thiele()
    info = {}
    if form == 'kekule-rdkit2d':
        from rdkit import Chem
        from rdkit.Chem import AllChem
        rd = Chem.MolFromSmiles(s.split(' |')[0])
        if rd is None or [a.GetAtomicNum() for a in rd.GetAtoms()] != [a.atomic_number for _, a in m.atoms()]:
            return m, False, {'rdkit2d_unavailable': 1}
        AllChem.Compute2DCoords(rd)
        pos = rd.GetConformer().GetPositions()
        for (_, a), (x, y, _z) in zip(m.atoms(), pos):
            a.xy = (float(x) * .55, float(y) * .55)
        m.flush_cache()
        ok2d = True
    elif form == 'kekule-nolayout':    # all coordinates 0: no 2D coordinates present, configuration outside the claim
        ok2d = False
    else:
        random.seed(f'{env.SEED}:{s}')     # clean2d draws its atom order from the global generator
        try:
            m.clean2d()
            ok2d = True
        except Exception:   # the 2D layout engine gave up: no coordinates -> configuration is outside the claim for this input
            ok2d = False
    if ok2d:
        f, u = O.make_consistent(m)
        info = {'ct_relabelled_from_2d': f, 'ct_undefined_2d': u}
    if offset is not None:
        # atom numbers permuted and shifted: atom order != number order, numbers > 99 (> 999: V3000 / MRV only)
        from bounded import domains as D
        m, _ = D.renumber(m, random.Random(f'{env.SEED}:renumber:{s}'), offset=offset)
        info['renumbered'] = 1
    return m, ok2d, info


GAP_HITS = [0]      # per worker process: string differences inside C01's documented gap with all labels preserved (counted, not judged)


class LibError(Exception):
    """the library raised inside one of its anchored functions while the harness prepared a case: carries the violation"""


def degenerate(O, m, tag, wit):
    """O.degenerate_depiction, which evaluates the library's _wedge_map: an exception raised there for a valid labelled molecule is the
    writers' failure (they all start from _wedge_map), not the harness's"""
    try:
        return O.degenerate_depiction(m)
    except Exception as e:
        if not any('/chython/' in f.filename for f in traceback.extract_tb(e.__traceback__)):
            raise
        raise LibError(V('rt:wedge-map:exc', f'rt:wedge-map:exc:{where(e)}:{tag}', f'_wedge_map: {where(e)} on a valid labelled molecule ({tag})', wit, repr(e)))


def _norm_str(m):
    from bounded import domains as D
    try:
        return str(D.norm(m.copy()))
    except Exception:
        return str(m)


def cmp_mol(O, m, o, stereo, tag):
    """differences between written m and read o: list of (field, expected, got)"""
    out = []
    (ea, eb), (ga, gb) = O.snap(m), O.snap(o)
    if len(ea) != len(ga):
        return [('atom-count', len(ea), len(ga))]
    for i, nm in enumerate(('atom-number', 'element', 'isotope', 'charge', 'radical')):
        x, y = [a[i] for a in ea], [a[i] for a in ga]
        if x != y:
            j = next(j for j in range(len(x)) if x[j] != y[j])
            out.append((nm, f'atom #{j + 1}: {x[j]}', f'{y[j]}'))
    if eb != gb:
        d = sorted(set(eb) ^ set(gb))[:4]
        out.append(('bonds', [x for x in d if x in eb], [x for x in d if x in gb]))
    if stereo and not out:
        e = O.expected_after_read(m)
        es, gs = O.stereo_snap(e), O.stereo_snap(o)
        for k, nm in (('th', 'tetrahedral'), ('al', 'allene'), ('ct', 'cis-trans')):
            if es[k] != gs[k]:
                out.append((nm, es[k], gs[k]))
        if str(e) != str(o) and _norm_str(e) != _norm_str(o):
            # (a Kekule ring system prints differently for another bond insertion order, 'C1=CC=CC=C1' / 'C=1C=CC=CC=1': both sides are compared in
            # the aromaticity normal form, bounded/README lesson 1)
            # every atom, bond and per-centre configuration already agrees at this point: a differing canonical STRING is then C01's business.
            # Inside C01's documented gap (configuration on centres with constitutionally equivalent substituents) it is excused and counted.
            same_labels = all(es[k] == gs[k] for k in ('th', 'al', 'ct'))
            gap = False
            if same_labels:
                try:
                    from oracles.o01_gaps import gaps
                    gap = any(gaps(e))
                except Exception:
                    gap = False
            if gap:
                GAP_HITS[0] += 1
            else:
                out.append(('canonical', str(e), str(o)))
        bad = O.ct_geometry_mismatch(o, src=m)   # independent geometry: every label read agrees with the written coordinates
        if bad:
            out.append(('cis-trans-vs-coordinates', bad, {k: gs['ct'][k] for k in bad}))
    return out


def check_mol(a):
    """a: {'smiles','form','pair','title','meta'} -> (violations, info)"""
    from oracles import o11_records as O
    m, ok2d, _ = build(a['smiles'], a['form'], a.get('offset'))
    return check_mol_obj(O, m, ok2d, a)


def check_mol_obj(O, m, ok2d, a, pairs=None):
    vs, info = [], {'filtered_explicit_h': 0, 'no2d': 0 if ok2d else 1, 'stereo_checked': 0, 'degenerate_2d': 0}
    m.name = a.get('title') or 'record'
    m.meta.clear()
    m.meta.update(a.get('meta') or {'k': 'v'})
    claimed = a['form'].startswith('kekule') and ok2d
    tag = f'{a["smiles"]}|{a["form"]}' + (f'|+{a["offset"]}' if a.get('offset') is not None else '')
    if claimed and O.explicit_h_on_stereocentre(m):
        claimed = False
        info['filtered_explicit_h'] = 1
    if claimed and O.has_labels(m) and degenerate(O, m, tag, {'replay': 'check_mol', 'args': a}):
        claimed = False
        info['degenerate_2d'] = 1
    if claimed and O.has_labels(m):
        info['stereo_checked'] = 1
    for pair in (pairs or ([a['pair']] if a.get('pair') else P())):
        wit = {'replay': 'check_mol', 'args': {**a, 'pair': pair}}
        try:
            if max(m) > 999 and pair in ('SDFWrite>SDFRead', 'RDFWrite>RDFRead'):
                continue  # the V2000 writers document and enforce atom numbers <= 999
            text = write(pair, [m])
            got = list(reader(pair, text))
        except Exception as e:
            vs.append(V(f'rt:{pair}:exc', f'rt:{pair}:exc:{where(e)}:{tag}', f'{pair}: {where(e)} on a valid molecule {a["smiles"]}',
                        wit, repr(e)))
            continue
        if len(got) != 1:
            vs.append(V(f'rt:{pair}:count', f'rt:{pair}:count:{tag}', f'{pair}: one record written, {len(got)} read back ({a["smiles"]})', wit,
                        len(got)))
            continue
        o = got[0]
        for field, e, g in cmp_mol(O, m, o, claimed, a):
            vs.append(V(f'rt:{pair}:{field}', f'rt:{pair}:{field}:{tag}',
                        f'{pair}: {field} not preserved for {a["smiles"]} ({a["form"]}): written {e!r}, read {g!r}', wit, {'expected': e, 'got': g}))
        vs.extend(text_violations(O, m, o, pair, wit))
        if claimed and O.has_labels(m) and not vs and not O.stereo_snap(O.expected_after_read(m))['ct']:
            # the readers' DEFAULT options (no cis/trans calculation): atom configuration of a molecule without any double-bond
            # configuration does not depend on that option, so the same tetrahedral / allene labels have to come back
            try:
                od = list(reader(pair, text, calc_cis_trans=False))[0]
                es, gs = O.stereo_snap(m), O.stereo_snap(od)
                for k, nm in (('th', 'tetrahedral'), ('al', 'allene')):
                    if es[k] != gs[k]:
                        vs.append(V(f'rt:{pair}:default-options:{nm}', f'rt:{pair}:default-options:{nm}:{tag}',
                                    f'{pair} (reader with default options): {nm} not preserved for {a["smiles"]} ({a["form"]}): written {es[k]!r}, '
                                    f'read {gs[k]!r}', {**wit, 'reader_kw': {'calc_cis_trans': False}}, {'expected': es[k], 'got': gs[k]}))
            except Exception as e:
                vs.append(V(f'rt:{pair}:exc', f'rt:{pair}:exc-default:{where(e)}:{tag}', f'{pair} (default options): {where(e)} on a valid molecule '
                            f'{a["smiles"]}', wit, repr(e)))
        if P()[pair][2] == 'sdf' and not vs:
            # single-record entry point mdl_mol on the MOL block
            from chython.files import mdl_mol
            block = text[:text.index('M  END') + 7]
            try:
                o2 = mdl_mol(block, calc_cis_trans=True)
                d = cmp_mol(O, m, o2, claimed, a)
            except Exception as e:
                d = [('exc', None, where(e))]
            for field, e, g in d:
                vs.append(V(f'rt:mdl_mol:{field}', f'rt:{pair}:mdl_mol:{field}:{tag}',
                            f'{pair[:pair.index(">")]} -> mdl_mol: {field} not preserved for {a["smiles"]}: {e!r} / {g!r}', wit, {'expected': e, 'got': g}))
    return vs, info


def text_violations(O, m, o, pair, wit):
    """title / metadata differences, keyed by (format, diagnosis): one finding per root cause, smallest witness"""
    out, fmt = [], P()[pair][2]
    if O.norm_title(o.name) != O.norm_title(m.name):
        # independent predicate on the input: an MRV title holding one of the characters XML reserves inside an attribute value
        k = f'title:{fmt}:xml-special-character:changed' if fmt == 'mrv' and any(c in (m.name or '') for c in '"<&') else f'title:{fmt}:changed'
        out.append(V(k, k, f'{pair}: title not preserved: written {m.name!r}, read {o.name!r}', wit, o.name))
    e, g = O.norm_meta(m.meta), O.norm_meta(o.meta)
    if e != g:
        d = diagnose(e, g)
        out.append(V(f'meta:{fmt}:{d}', f'meta:{fmt}:{d}', f'{pair}: metadata not preserved ({d}): written {e!r}, read {g!r}', wit, {'expected': e, 'got': g}))
    return out


def w_mols(items):
    """worker: list of (smiles, form)"""
    env.setup()
    from oracles import o11_records as O
    n, keys, samples, vs, st = 0, [], [], [], {'filtered_explicit_h': 0, 'no2d': 0, 'stereo_checked': 0, 'unparsed': 0, 'degenerate_2d': 0}
    for s, form, *off in items:
        off = off[0] if off else None
        try:
            m, ok2d, binfo = build(s, form, off)
        except Exception:
            st['unparsed'] += 1   # not a molecule of the library: outside the domain (C03's business)
            continue
        for k, x in binfo.items():
            st[k] = st.get(k, 0) + x
        if binfo.get('rdkit2d_unavailable'):
            continue
        a = {'smiles': s, 'form': form, 'offset': off, 'title': f'rec {len(s)}', 'meta': {'source': s, 'note': 'line one\nline two'}}
        try:
            v, info = check_mol_obj(O, m, ok2d, a)
        except LibError as e:
            vs.append(e.args[0])
            continue
        vs.extend(v)
        for k in info:
            st[k] += info[k]
        n += len(P())
        if len(m) >= 2:
            c = str(m)
            keys.extend(f'{p}|{form}|{off}|{c}' for p in P())
        if len(samples) < 2:
            samples.append({'contract': 'write->read molecule, 5 pairs', 'smiles': s, 'form': form, 'stereo_compared': bool(info['stereo_checked'])})
    return n, keys, samples, vs, st


# -------------------------------------------------------------------------------------------------------- round trip: reactions

def build_rxn(a):
    import random
    from oracles import o11_records as O
    r = random.Random(a['seed'])
    mols, ok = [], True
    for s in a['smiles']:
        m, ok2d, _ = build(s, 'kekule')
        ok = ok and ok2d
        mols.append(m)
    rx = O.make_reaction(mols, r, *a['counts'], offset=a.get('offset', 0))
    rx.name = a.get('title') or 'reaction'
    rx.meta.update(a.get('meta') or {'k': 'v'})
    return rx, ok


def cmp_rxn(O, rx, o, claimed, a):
    from chython import ReactionContainer
    if not isinstance(o, ReactionContainer):
        return [('record-type', 'reaction', type(o).__name__)]
    out = []
    for role in ('reactants', 'reagents', 'products'):
        e, g = getattr(rx, role), getattr(o, role)
        if len(e) != len(g):
            out.append((f'role-count-{role}', len(e), len(g)))
    if out:
        return out
    for role in ('reactants', 'reagents', 'products'):
        for i, (em, gm) in enumerate(zip(getattr(rx, role), getattr(o, role))):
            st = claimed and not O.explicit_h_on_stereocentre(em) and not (O.has_labels(em) and O.degenerate_depiction(em))
            out.extend((f'{f}', f'{role}[{i}] {e}', g) for f, e, g in cmp_mol(O, em, gm, st, a))
    return out


def check_rxn(a):
    from oracles import o11_records as O
    vs = []
    rx, ok2d = build_rxn(a)
    tag = f'{".".join(a["smiles"])}|{a["counts"]}|{a["seed"]}'
    top = max(max(m) for m in rx.molecules())
    for pair, spec in P().items():
        if not spec[4] or a.get('pair') not in (None, pair):
            continue
        if top > 999 and pair == 'RDFWrite>RDFRead':
            continue
        wit = {'replay': 'check_rxn', 'args': {**a, 'pair': pair}}
        try:
            w = rx.copy()    # MRVWrite moves the molecules of a reaction without an arrow; keep the input intact
            text = write(pair, [w])
            got = list(reader(pair, text))
        except Exception as e:
            vs.append(V(f'rx:{pair}:exc', f'rx:{pair}:exc:{where(e)}:{tag}', f'{pair}: {where(e)} on a valid reaction {tag}', wit, repr(e)))
            continue
        if len(got) != 1:
            vs.append(V(f'rx:{pair}:count', f'rx:{pair}:count:{tag}', f'{pair}: one reaction written, {len(got)} read back ({tag})', wit, len(got)))
            continue
        vs.extend(text_violations(O, rx, got[0], pair, wit))
        for field, e, g in cmp_rxn(O, w, got[0], ok2d, a):
            vs.append(V(f'rx:{pair}:{field}', f'rx:{pair}:{field}:{tag}', f'{pair}: reaction {field} not preserved ({tag}): written {e!r}, read {g!r}', wit,
                        {'expected': e, 'got': g}))
        if spec[2] == 'rdf' and not vs:
            from chython.files import mdl_rxn
            block = text[text.index('$RXN'):]
            if '$DTYPE' in block:
                block = block[:block.index('$DTYPE')]
            try:
                d = cmp_rxn(O, w, mdl_rxn(block, calc_cis_trans=True), ok2d, a)
            except Exception as e:
                d = [('exc', None, where(e))]
            for field, e, g in d:
                vs.append(V(f'rx:mdl_rxn:{field}', f'rx:{pair}:mdl_rxn:{field}:{tag}', f'{pair[:pair.index(">")]} -> mdl_rxn: {field} not preserved ({tag}): {e!r} / {g!r}',
                            wit, {'expected': e, 'got': g}))
    return vs, rx


def w_rxns(items):
    env.setup()
    n, keys, samples, vs = 0, [], [], []
    for a in items:
        v, rx = check_rxn(a)
        vs.extend(v)
        n += 3
        keys.extend(f'{p}|rxn|{format(rx)}|{a["counts"]}' for p, s in P().items() if s[4])
        if len(samples) < 1:
            samples.append({'contract': 'write->read reaction, 3 pairs', 'reaction': format(rx), 'roles': a['counts']})
    return n, keys, samples, vs, {}


# -------------------------------------------------------------------------------------------------------- titles and metadata

def diagnose(e, g):
    """family of a metadata difference (keeps one known-finding key per root cause instead of one per text)"""
    if e and not g:
        return 'all-lost'
    if set(e) != set(g):
        return 'key-changed'
    for k in e:
        if e[k] != g[k]:
            el, gl = e[k].split('\n'), g[k].split('\n')
            if len(el) != len(gl):
                return 'value-lines-lost'
            for x, y in zip(el, gl):
                if x != y:
                    return 'value-line-prefix-lost' if x.endswith(y) else 'value-line-suffix-lost' if x.startswith(y) else 'value-changed'
    return 'changed'


def check_meta(a):
    """a: {'pair','obj': 'mol'|'rxn','meta','title','cls'}"""
    from chython import smiles, ReactionContainer
    from oracles import o11_records as O
    if a['obj'] == 'mol':
        obj = smiles('CC(=O)O')
    else:
        obj = ReactionContainer([smiles('CCO')], [smiles('CC=O')])
    obj.meta.update(a['meta'])
    obj.name = a['title']
    pair, vs = a['pair'], []
    wit = {'replay': 'check_meta', 'args': a}
    try:
        text = write(pair, [obj, obj])
        got = list(reader(pair, text))
    except Exception as e:
        f = 'title' if a['cls'].startswith('title') else 'meta'
        fmt = P()[pair][2]
        return [V(f'{f}:{fmt}:exc:{type(e).__name__}', f'{f}:{fmt}:exc:{type(e).__name__}',
                  f'{pair}: {where(e)} for printable {f} text ({a["cls"]}): title {a["title"]!r} meta {a["meta"]!r}', wit, repr(e))]
    if len(got) != 2:
        return [V(f'meta:{P()[pair][2]}:record-count', f'meta:{P()[pair][2]}:record-count', f'{pair}: 2 records written, {len(got)} read; title {a["title"]!r} meta {a["meta"]!r}', wit, len(got))]
    for o in got:
        vs.extend(text_violations(O, obj, o, pair, wit))
    return vs


MDL_LIKE_LINES = ('M  END', 'M  END of the parent structure', 'M  CHG  1   1   1', 'M  V30 END CTAB', 'Molecular weight 46.07', 'M', '  1  2  1  0')


def w_meta(items):
    env.setup()
    import random
    from oracles import o11_records as O
    n, keys, samples, vs = 0, [], [], []
    for cls, seed in items:
        if cls == 'fixed-mdl-like':    # seed-independent: value lines that look like connection-table lines (legal in a data field: only '>', '$$$$' and a
            # blank line are special there); first / middle / last line of the value, and as the only field or between two others
            text = MDL_LIKE_LINES[seed // 6]
            pos, many = seed % 3, (seed // 3) % 2
            lines = ['alpha', 'beta']
            lines.insert(pos, text)
            meta = {'first': 'one', 'field': '\n'.join(lines), 'last': 'two'} if many else {'field': '\n'.join(lines)}
            title = 'title'
        elif cls == 'fixed-punct':    # seed-independent: every punctuation character once in a key, in a title, inside a value
            import string
            ch, pos = string.punctuation[seed // 3], seed % 3
            meta, title = ({f'k{ch}y': 'value'}, 'title') if pos == 0 else ({'key': 'value'}, f't{ch}z') if pos == 1 else ({'key': f'v{ch}w\nx{ch}'}, 'title')
            cls = 'title-fixed-punct' if pos == 1 else cls
        else:
            r = random.Random(f'{env.SEED}:meta:{cls}:{seed}')
            meta, title = O.meta_case(r, cls)
        for pair, spec in P().items():
            for obj in ('mol', 'rxn'):
                if obj == 'rxn' and not spec[4]:
                    continue
                vs.extend(check_meta({'pair': pair, 'obj': obj, 'meta': meta, 'title': title, 'cls': cls}))
                n += 1
                keys.append(f'{pair}|{obj}|{cls}|{title}|{sorted(meta.items())}')
        if len(samples) < 1:
            samples.append({'contract': 'title/metadata write->read', 'class': cls, 'title': title, 'meta': meta})
    return n, keys, samples, vs, {}


# ------------------------------------------------------------------------------------------- multi-record files, damaged records

SMALL = ['CCO', 'CC(=O)O', 'C[C@H](O)CC', 'c1ccccc1', 'C/C=C/C', '[NH4+].[Cl-]', 'CC(C)=O', 'OC1CC1', '[13CH4]', 'C[CH2]', 'N#CC', 'CS(C)=O',
         '[Fe+4]', 'N~[Cu+2]~N', 'CC[N+](C)(C)C', 'OC(=O)[C@H](N)C']


# seed-independent multi-record files: every family of crash a damaged record can produce has to be found for every seed
FIXED_MOLS = ['CCO', '[13CH4].[Fe+4].C[CH2]', 'C[C@H](O)CC', 'N~[Cu+2]~N', 'c1ccccc1', '[C-4].[2H]O[2H]']
FIXED_RXNS = [(['CCO', 'CC=O'], (1, 1, 0)), (['[13CH4]', '[Fe+4]', 'C[CH2]', 'C[C@H](O)CC'], (2, 1, 1)), (['CC(=O)O', 'CO', 'CC(=O)OC'], (2, 1, 0)),
              (['C/C=C/C', '[C-4]'], (1, 0, 1)), (['N~[Cu+2]~N', 'N', '[Cu+2]'], (1, 2, 0))]


def multi_objects(a):
    """the records of a multi-record file: a['n'] small molecules or reactions, seeded"""
    import random
    from chython import smiles
    from oracles import o11_records as O
    r = random.Random(f'{a["seed"]}')
    objs = []
    for i in range(a['n']):
        random.seed(f'{a["seed"]}:{i}')     # clean2d draws from the global generator
        if a['obj'] == 'mol':
            m = smiles(FIXED_MOLS[i % len(FIXED_MOLS)] if a.get('fixed') else r.choice(SMALL))
            m.kekule()
            if a.get('coords', True):
                m.clean2d()
        else:
            if a.get('fixed'):
                sm, cnt = FIXED_RXNS[i % len(FIXED_RXNS)]
                ms = [smiles(x) for x in sm]
            else:
                ms = [smiles(r.choice(SMALL)) for _ in range(3)]
                ms = ms + ms
                cnt = r.choice([(1, 1, 0), (1, 1, 1), (2, 1, 0), (1, 2, 0)])
            for x in ms:
                x.kekule()
                x.clean2d()
            m = O.make_reaction(ms, r, *cnt)
        m.name = f'record {i}'
        m.meta['idx'] = str(i)
        m.meta['text'] = f'two lines\nof record {i}'
        objs.append(m)
    return objs


def rec_sig(O, o):
    from chython import ReactionContainer
    if isinstance(o, ReactionContainer):
        return ('rxn', tuple((role, tuple(repr(O.snap(m)) for m in getattr(o, role))) for role in ('reactants', 'reagents', 'products')),
                O.norm_title(o.name), repr(sorted(O.norm_meta(o.meta).items())))
    return ('mol', repr(O.snap(o)), O.norm_title(o.name), repr(sorted(O.norm_meta(o.meta).items())))


def judge(sigs, got, k):
    """all undamaged records present, in order; the damaged one skipped or returned in its place"""
    rest = sigs[:k] + sigs[k + 1:]
    if got == rest:
        return None
    if len(got) == len(sigs) and got[:k] + got[k + 1:] == rest:
        return None
    lost = [i for i, s in enumerate(sigs) if i != k and s not in got]
    return lost


def read_all(pair, text):
    from oracles import o11_records as O
    return [rec_sig(O, o) for o in reader(pair, text)]


def check_damaged(a):
    """a: {'pair','text','sigs' (optional),'k','n','objspec'} - reads the damaged file; returns violations"""
    from oracles import o11_records as O
    pair, k = a['pair'], a['k']
    sigs = a.get('_sigs')
    if sigs is None:
        sigs = read_all(pair, write(pair, multi_objects(a['objspec'])))
    wit = {'replay': 'check_damaged', 'args': {x: y for x, y in a.items() if not x.startswith('_')}}
    try:
        got = read_all(pair, a['text'])
    except Exception as e:
        fam = f'mdl-exc:{where(e)}'
        return [V(fam, fam, f'{pair.split(">")[1]}: {type(e).__name__} escapes iteration over a file whose record {k} of {a["n"]} is damaged '
                            f'({a["kind"]} {a["detail"]}); following records are lost', wit, repr(e))]
    a['_returned'] = len(got) == len(sigs)
    lost = judge(sigs, got, k)
    if lost is not None:
        fam = f'mdl-lost:{pair.split(">")[1]}:{a["kind"]}'
        return [V(fam, fam, f'{pair}: damaging record {k} ({a["kind"]} {a["detail"]}) loses / alters undamaged records {lost} '
                            f'({len(got)} of {a["n"]} returned)', wit, {'returned': len(got), 'lost_or_changed': lost})]
    return []


def mrv_damages(line, r):
    """well-formedness-preserving damage of one <MDocument> line of a written MRV file"""
    import re
    atoms = list(re.finditer(r'<atom [^>]*/>', line))
    bonds = list(re.finditer(r'<bond [^>]*?(/>|>.*?</bond>)', line))
    for kind, ms in (('atom', atoms), ('bond', bonds)):
        if ms:
            for x in {ms[0], ms[-1], r.choice(ms)}:
                yield f'delete-{kind}', x.start(), line[:x.start()] + line[x.end():]
    for pat, repl in ((r'elementType="[A-Za-z]+"', 'elementType="Xx"'), (r'elementType="[A-Za-z]+"', 'elementType=""'),
                      (r' elementType="[A-Za-z]+"', ''), (r' x2="[-0-9.]+"', ''), (r'x2="[-0-9.]+"', 'x2="abc"'), (r'y2="[-0-9.]+"', 'y2=""'),
                      (r'mrvMap="\d+"', 'mrvMap="x"'), (r'mrvMap="\d+"', 'mrvMap="-1"'), (r'formalCharge="[-0-9]+"', 'formalCharge="+"'),
                      (r'formalCharge="[-0-9]+"', 'formalCharge="9"'), (r'isotope="\d+"', 'isotope="999"'), (r'isotope="\d+"', 'isotope="x"'),
                      (r'hydrogenCount="\d+"', 'hydrogenCount="x"'), (r'hydrogenCount="\d+"', 'hydrogenCount="9"'),
                      (r'order="[^"]+"', 'order="7"'), (r'order="[^"]+"', 'order=""'), (r' order="[^"]+"', ''),
                      (r'atomRefs2="a\d+ a\d+"', 'atomRefs2="a1"'), (r'atomRefs2="a(\d+) a\d+"', r'atomRefs2="a\1 a\1"'),
                      (r'atomRefs2="a\d+ a\d+"', 'atomRefs2="a998 a999"'), (r' atomRefs2="a\d+ a\d+"', ''), (r' id="a\d+"', ''),
                      (r'id="a\d+"', 'id="a1"'), (r'<bondStereo>[WH]</bondStereo>', '<bondStereo>Q</bondStereo>'),
                      (r'<bondStereo>[WH]</bondStereo>', '<bondStereo/>'), (r'<atomArray>.*</atomArray>', '<atomArray/>'),
                      (r'<atomArray>.*</atomArray>', ''), (r'<bondArray>.*?</bondArray>', ''), (r'<bondArray>.*?</bondArray>', '<bondArray/>'),
                      (r'<molecule[^>]*>', '<molecule><molecule/>'), (r'<scalar>.*?</scalar>', '<scalar/>'), (r'<scalar>.*?</scalar>', ''),
                      (r'<property title="[^"]*">', '<property>'), (r'<reactantList>.*?</reactantList>', ''), (r'<productList>.*?</productList>', '<productList/>'),
                      (r'<MChemicalStruct>.*</MChemicalStruct>', '<MChemicalStruct/>'), (r'<MChemicalStruct>.*</MChemicalStruct>', '<MChemicalStruct><foo/></MChemicalStruct>'),
                      (r'<arrow [^>]*/>', '')):
        ms = list(re.finditer(pat, line))
        if ms:
            for x in {ms[0], ms[-1]}:
                new = line[:x.start()] + x.expand(repl) + line[x.end():]
                if new != line:
                    yield f'{pat}->{repl}', x.start(), new


def w_multi(items):
    """worker: list of {'pair','objspec','ks','columns'}: every damage of record k at every position k"""
    env.setup()
    import random
    from oracles import o11_records as O
    n, keys, samples, vs, st = 0, [], [], [], {'damaged_returned': 0, 'damaged_skipped': 0}
    for a in items:
        pair, spec = a['pair'], a['objspec']
        fmt = P()[pair][2]
        r = random.Random('fixed' if spec.get('fixed') else f'{env.SEED}:{pair}:{spec["seed"]}')
        objs = multi_objects(spec)
        try:
            text = write(pair, objs)
            sigs = read_all(pair, text)
        except Exception as e:
            vs.append(V(f'multi:{pair}:exc', f'multi:{pair}:exc:{where(e)}', f'{pair}: {where(e)} on an undamaged {spec["n"]}-record file', {'replay': 'none', 'objspec': spec},
                        repr(e)))
            continue
        if len(sigs) != spec['n']:
            vs.append(V(f'multi:{pair}:count', f'multi:{pair}:count:{spec}', f'{pair}: {spec["n"]} records written, {len(sigs)} read', {'objspec': spec}, len(sigs)))
            continue
        if fmt == 'mrv':
            lines = text.split('\n')
            recs = [i for i, x in enumerate(lines) if x.startswith('<MDocument>')]
            assert len(recs) == spec['n']
        else:
            head, recs = (O.split_sdf if fmt == 'sdf' else O.split_rdf)(text)
            assert len(recs) == spec['n'] and O.join(head, recs) == text
        for k in a['ks']:
            if fmt == 'mrv':
                gen = ((kind, det, '\n'.join(lines[:recs[k]] + [new] + lines[recs[k] + 1:])) for kind, det, new in mrv_damages(lines[recs[k]], r))
            else:
                gen = ((kind, det, O.join(head, recs[:k] + [new] + recs[k + 1:])) for kind, det, new in O.damages(recs[k], fmt, r, a['columns']))
            for kind, det, dtext in gen:
                b = {'pair': pair, 'text': dtext, 'k': k, 'n': spec['n'], 'objspec': spec, 'kind': kind, 'detail': det, '_sigs': sigs}
                v = check_damaged(b)
                vs.extend(v)
                n += 1
                if '_returned' in b:
                    st['damaged_returned' if b['_returned'] else 'damaged_skipped'] += 1
                lk = O._kind(recs[k][(1 if fmt == 'rdf' else 0) + det[0]]) if fmt != 'mrv' and kind in ('char', 'insert', 'remove') else \
                    (kind if fmt == 'mrv' else '')
                keys.append(f'{pair}|{spec["obj"]}|{kind}|{lk}')
        if len(samples) < 1:
            samples.append({'contract': 'damaged record skipped, others kept in order', 'pair': pair, 'records': spec['n'], 'positions': a['ks'], 'evaluations': n})
    # keep the smallest witness per family already here (texts are big)
    best = {}
    for v in vs:
        if v[0] not in best or len(repr(v[3])) < len(repr(best[v[0]][3])):
            best[v[0]] = v
    return n, list(set(keys)), samples, list(best.values()), st


# ------------------------------------------------------------------------------------------------------------- index access

def check_index(a):
    """a: {'pair','objspec'|'path','damage': None|(k, kind-index)} sequential reading == reader[i] in any order, slices, len"""
    from oracles import o11_records as O
    pair = a['pair']
    _, R, fmt, *_ = P()[pair]
    d = tempfile.mkdtemp(prefix='b11-')
    vs = []
    wit = {'replay': 'check_index', 'args': a}
    cache = None
    try:
        path = os.path.join(d, 'f.' + fmt)
        if 'path' in a:
            shutil.copy(a['path'], path)
            text = open(path).read()
        else:
            objs = multi_objects(a['objspec'])
            try:
                text = write(pair, objs)
            except Exception as e:
                return [V(f'multi:{pair}:exc', f'multi:{pair}:exc:{where(e)}', f'{pair}: {where(e)} while writing {a["objspec"]}', wit, repr(e))], 0
            with open(path, 'w') as f:
                f.write(text)
        kw = a.get('kw') or {'calc_cis_trans': True}
        seq = []
        with R(path, **kw) as rd:   # sequential, per record: a damaged record gives None
            while True:
                try:
                    seq.append(rec_sig(O, rd.read_structure(current=False)))
                except ValueError:
                    seq.append(None)
                except EOFError:
                    break
                except Exception as e:
                    if 'path' in a:
                        return [], 0   # a crash on a repository file is check_testfile's finding
                    return [V(f'mdl-exc:{where(e)}', f'mdl-exc:{where(e)}', f'{pair.split(">")[1]}: {where(e)} while reading {a.get("objspec")} '
                                                                            f'record by record', wit, repr(e))], 0
        try:
            rd = R(path, indexable=True, **kw)
            cache = rd._cache_path
            rd.reset_index()
            n = len(rd)
        except Exception as e:
            return [V(f'index:{fmt}:open', f'index:{fmt}:open:{where(e)}', f'{pair.split(">")[1]}(indexable=True): {where(e)}', wit, repr(e))], 0
        tag = a.get('path') or a.get('objspec')
        if n != len(seq):
            vs.append(V(f'index:{fmt}:len', f'index:{fmt}:len', f'{pair.split(">")[1]}: len(reader) = {n}, sequential reading gives {len(seq)} records ({tag})', wit, n))
        import random
        order = list(range(min(n, len(seq))))
        random.Random(a.get('seed', 0)).shuffle(order)
        order = order + [-1, 0] if order else order
        for i in order:
            try:
                g = rec_sig(O, rd[i])
            except ValueError:
                g = None
            except Exception as e:
                vs.append(V(f'index:{fmt}:exc', f'index:{fmt}:exc:{where(e)}', f'{pair.split(">")[1]}: reader[{i}] raises {where(e)} on a {n}-record file ({tag}); '
                                                                                 f'sequential reading returns the record', wit, repr(e)))
                break
            if g != seq[i]:
                vs.append(V(f'index:{fmt}:item', f'index:{fmt}:item', f'{pair.split(">")[1]}: reader[{i}] differs from the record read sequentially ({tag})', wit,
                            {'index': i, 'got': str(g)[:300], 'sequential': str(seq[i])[:300]}))
                break
        if not vs and n:
            good = [s for s in seq if s is not None]
            for sl in (slice(None), slice(1, None), slice(None, None, 2), slice(n, 0, -1), slice(n // 2, n // 2)):
                try:
                    g = [rec_sig(O, x) for x in rd[sl]]
                except Exception as e:
                    vs.append(V(f'index:{fmt}:exc', f'index:{fmt}:exc:{where(e)}', f'{pair.split(">")[1]}: reader[{sl}] raises {where(e)} ({tag})', wit, repr(e)))
                    break
                e = [s for s in seq[sl] if s is not None]
                if g != e:
                    vs.append(V(f'index:{fmt}:slice', f'index:{fmt}:slice', f'{pair.split(">")[1]}: reader[{sl}] returns {len(g)} records, sequential reading {len(e)} ({tag})',
                                wit, {'slice': str(sl), 'got': len(g), 'expected': len(e)}))
                    break
        rd.close()
        return vs, len(order)
    finally:
        shutil.rmtree(d, ignore_errors=True)
        if cache and os.path.exists(cache):
            os.remove(cache)


def w_index(items):
    env.setup()
    n, keys, samples, vs = 0, [], [], []
    for a in items:
        v, c = check_index(a)
        vs.extend(v)
        n += c + 5
        keys.append(f'index|{a["pair"]}|{a.get("path") or a.get("objspec")}|{a.get("tag", "")}')
        if len(samples) < 1:
            samples.append({'contract': 'reader[i] == i-th record of sequential reading', 'pair': a['pair'], 'file': a.get('path') or str(a.get('objspec'))})
    return n, keys, samples, vs, {}


# ------------------------------------------------------------------------------------------------ repository test files

def check_testfile(a):
    """every record of a repository test file is read or skipped; no exception escapes"""
    path, kw = a['path'], a['kw']
    ext = path.rsplit('.', 1)[1]
    from chython.files import SDFRead, RDFRead, MRVRead
    R = {'sdf': SDFRead, 'rdf': RDFRead, 'mrv': MRVRead}[ext]
    wit = {'replay': 'check_testfile', 'args': a}
    try:
        with R(path, **kw) as f:
            got = list(f)
            told = f.tell()
    except Exception as e:
        return [V(f'testfile:exc:{where(e)}', f'testfile:{os.path.basename(path)}:{where(e)}', f'{R.__name__}({os.path.basename(path)}, {kw}) raises {where(e)}', wit, repr(e))], 0
    vs = []
    raw = open(path).read()
    expect = raw.count('$$$$') if ext == 'sdf' else sum(1 for x in raw.split('\n') if x.startswith(('$RFMT', '$MFMT'))) if ext == 'rdf' else raw.count('<MChemicalStruct')
    if not got or told != expect:
        vs.append(V('testfile:records', f'testfile:{os.path.basename(path)}:records', f'{os.path.basename(path)}: {expect} records in the file, reader processed {told}, '
                                                                                      f'returned {len(got)}', wit, {'expected': expect, 'tell': told, 'returned': len(got)}))
    return vs, len(got)


def w_testfiles(items):
    env.setup()
    n, keys, samples, vs, st = 0, [], [], [], {'testfile_records': 0}
    for a in items:
        v, c = check_testfile(a)
        vs.extend(v)
        n += max(c, 1)
        st['testfile_records'] += c
        keys.append(f'testfile|{os.path.basename(a["path"])}|{sorted(a["kw"].items())}')
        if len(samples) < 1:
            samples.append({'contract': 'repository test file read without crash', 'file': a['path'], 'options': a['kw'], 'records': c})
    return n, keys, samples, vs, st


# ------------------------------------------------------------------------------------------------ RDKit-written molblocks

def check_rdkit_block(a):
    """a: {'smiles','v3000'}: molblock written by RDKit is read with the same atoms / bonds / charges / isotopes / radicals and,
    for wedged blocks, the same configuration as the library's own reading of the SMILES"""
    from rdkit import Chem
    from rdkit.Chem import AllChem
    from chython.files import mdl_mol, SDFRead
    from bounded import domains as D
    from oracles import o20_gap as G
    rd = Chem.MolFromSmiles(a['smiles'])
    if rd is None:
        return None, {}
    Chem.Kekulize(rd, clearAromaticFlags=True)
    AllChem.Compute2DCoords(rd)
    block = Chem.MolToMolBlock(rd, forceV3000=a['v3000'], kekulize=False)
    if a.get('mchg_only'):
        # other writers leave the charge column of the atom block 0 and give charges only as M  CHG (which supersedes the column)
        ls = block.split('\n')
        na = int(ls[3][:3])
        if not any(x.startswith('M  CHG') for x in ls):
            return None, {}
        for i in range(4, 4 + na):
            ls[i] = ls[i][:36] + '  0' + ls[i][39:]
        block = '\n'.join(ls)
    wit = {'replay': 'check_rdkit_block', 'args': a}
    tag = f'{"V3000" if a["v3000"] else "V2000-MCHG-only" if a.get("mchg_only") else "V2000"}:{a["smiles"]}'
    vs = []
    ms = []
    try:
        ms.append(('mdl_mol', mdl_mol(block, calc_cis_trans=True)))
        got = list(SDFRead(io.StringIO(block + '>  <k>\nv\n\n$$$$\n' + block + '$$$$\n'), calc_cis_trans=True))
        if len(got) != 2:
            return [V('rdkit-block:count', f'rdkit-block:count:{tag}', f'SDFRead returns {len(got)} of 2 RDKit-written records ({tag})', wit, len(got))], {}
        ms.append(('SDFRead', got[1]))
    except Exception as e:
        return [V('rdkit-block:exc', f'rdkit-block:exc:{where(e)}:{tag}', f'{where(e)} on an RDKit-written molblock ({tag})', wit, repr(e))], {}
    # what the record says, according to RDKit's own reader (no sanitisation: the record, not a chemistry model)
    rb = Chem.MolFromMolBlock(block, sanitize=False, removeHs=False)
    if rb is None or rb.GetNumAtoms() != rd.GetNumAtoms():
        raise RuntimeError(f'RDKit does not read back its own molblock for {a["smiles"]}')
    rd_smiles = Chem.MolToSmiles(rd)
    rd = rb
    exp_atoms = [(x.GetAtomicNum(), x.GetIsotope() or None, x.GetFormalCharge(), x.GetNumRadicalElectrons() > 0) for x in rd.GetAtoms()]
    omap = {Chem.BondType.SINGLE: 1, Chem.BondType.DOUBLE: 2, Chem.BondType.TRIPLE: 3, Chem.BondType.AROMATIC: 4}
    exp_bonds = sorted((min(b.GetBeginAtomIdx(), b.GetEndAtomIdx()) + 1, max(b.GetBeginAtomIdx(), b.GetEndAtomIdx()) + 1, omap[b.GetBondType()])
                       for b in rd.GetBonds())
    info = {}
    for via, m in ms:
        got_atoms = [(x.atomic_number, x.isotope, x.charge, bool(x.is_radical)) for _, x in m.atoms()]
        pos = {n: i for i, n in enumerate(m, 1)}
        got_bonds = sorted((min(pos[x], pos[y]), max(pos[x], pos[y]), int(b.order)) for x, y, b in m.bonds())
        if got_atoms != exp_atoms:
            j = next((j for j in range(min(len(exp_atoms), len(got_atoms))) if exp_atoms[j] != got_atoms[j]), -1)
            vs.append(V(f'rdkit-block:atoms', f'rdkit-block:atoms:{tag}', f'{via}: atoms of an RDKit-written molblock differ ({tag}) at #{j + 1}: '
                                                                          f'RDKit {exp_atoms[j] if j >= 0 else len(exp_atoms)}, read {got_atoms[j] if j >= 0 else len(got_atoms)}', wit,
                        {'rdkit': exp_atoms, 'read': got_atoms}))
        elif got_bonds != exp_bonds:
            vs.append(V(f'rdkit-block:bonds', f'rdkit-block:bonds:{tag}', f'{via}: bonds of an RDKit-written molblock differ ({tag})', wit,
                        {'rdkit': exp_bonds, 'read': got_bonds}))
    if not vs:
        # configuration: the library's reading of the same SMILES (both normalised)
        try:
            ref = D.parse(rd_smiles)     # RDKit's canonical isomeric SMILES: the configuration RDKit means (and depicted)
        except Exception:
            return vs, info
        if G.has_stereo(ref):
            info['stereo_blocks'] = 1
            g = D.norm(ms[0][1].copy())
            if str(g) != str(ref):
                from oracles import o11_records as O
                if O.explicit_h_on_stereocentre(ref):
                    info['filtered_explicit_h'] = 1
                elif G.in_gap(ref, cage=True):
                    info['gap_hits'] = 1
                else:
                    vs.append(V('rdkit-block:configuration', f'rdkit-block:configuration:{tag}',
                                f'configuration of an RDKit-written wedged molblock differs from the reading of its SMILES ({tag}): {str(g)} vs {str(ref)}', wit,
                                {'read': str(g), 'smiles_reading': str(ref)}))
    return vs, info


def w_rdkit(items):
    env.setup()
    from rdkit import RDLogger
    RDLogger.DisableLog('rdApp.*')
    from rdkit import Chem
    n, keys, samples, vs, st = 0, [], [], [], {'gap_hits': 0, 'stereo_blocks': 0, 'rdkit_rejected': 0, 'filtered_explicit_h': 0}
    for s in items:
        for v3, mchg in ((False, False), (True, False), (False, True)):
            v, info = check_rdkit_block({'smiles': s, 'v3000': v3, 'mchg_only': mchg})
            if v is None:
                st['rdkit_rejected'] += not mchg
                continue
            vs.extend(v)
            for k, x in info.items():
                st[k] += x
            n += 2
            keys.append(f'rdkit|{v3}|{mchg}|{Chem.CanonSmiles(s)}')
        if len(samples) < 1:
            samples.append({'contract': 'RDKit-written molblock (V2000, V3000) read with the same atoms/bonds/configuration', 'smiles': s})
    return n, keys, samples, vs, st


# --------------------------------------------------------------------------- audit extension 1: options of writers and readers

OPTS = {  # name: (writer keywords, reader keywords, atom numbers: 'same' | 'positional', configuration kept, MDL readers only)
    'writer mapping=False': ({'mapping': False}, {}, 'positional', True, False),
    'reader remap=True': ({}, {'remap': True}, 'positional', True, False),
    'reader ignore=False': ({}, {'ignore': False}, 'same', True, False),
    'reader remap=True ignore=False': ({}, {'remap': True, 'ignore': False}, 'positional', True, False),
    'reader ignore_stereo=True': ({}, {'ignore_stereo': True}, 'same', False, False),
    'reader ignore_bad_isotopes=True': ({}, {'ignore_bad_isotopes': True}, 'same', True, False),
    'reader buffer_size=record length': ({}, {'buffer_size': None}, 'same', True, True),    # the number of lines of the written file
}


def renumbered(m, mp):
    c = m.copy()
    c.remap(mp)
    return c


def _claimed(O, m, form, ok2d, tag='', wit=None):
    return form.startswith('kekule') and ok2d and not O.explicit_h_on_stereocentre(m) and not (O.has_labels(m) and degenerate(O, m, tag, wit))


def check_opt_mol(a):
    """a: {'smiles','form','offset','opt'[, 'pair']}: the round-trip contract under one non-default writer / reader option.
    'positional': the option asks for atom numbers 1..N in file order (writer without mapping column / reader remap), everything
    else - order, elements, isotopes, charges, radicals, bonds, configuration - is compared after renumbering the written molecule so."""
    from oracles import o11_records as O
    from chython.files import mdl_mol
    m, ok2d, _ = build(a['smiles'], a['form'], a.get('offset'))
    wkw, rkw, numbering, keep, mdl_only = OPTS[a['opt']]
    m.name = 'record'
    m.meta.clear()
    m.meta['k'] = 'v'
    claimed = _claimed(O, m, a['form'], ok2d, a['smiles'], {'replay': 'check_opt_mol', 'args': a})
    exp = m
    if numbering == 'positional':
        exp = renumbered(m, {n: i for i, n in enumerate(m, 1)})
        exp.name = m.name
        exp.meta.update(m.meta)
    tag = f'{a["smiles"]}|{a["form"]}' + (f'|+{a["offset"]}' if a.get('offset') is not None else '')
    vs, n = [], 0
    for pair, spec in P().items():
        if a.get('pair') not in (None, pair) or mdl_only and spec[2] == 'mrv':
            continue
        if max(m) > 999 and pair in ('SDFWrite>SDFRead', 'RDFWrite>RDFRead'):
            continue
        fam = f'opt:{a["opt"]}:{pair}'
        wit = {'replay': 'check_opt_mol', 'args': {**a, 'pair': pair}}
        n += 1
        try:
            text = write(pair, [m], **wkw)
            if 'buffer_size' in rkw:
                rkw = {'buffer_size': text.count('\n')}
            got = list(reader(pair, text, **rkw))
        except Exception as e:
            vs.append(V(f'{fam}:exc', f'{fam}:exc:{where(e)}:{tag}', f'{pair} ({a["opt"]}): {where(e)} on a valid molecule {a["smiles"]}', wit, repr(e)))
            continue
        if len(got) != 1:
            vs.append(V(f'{fam}:count', f'{fam}:count:{tag}', f'{pair} ({a["opt"]}): one record written, {len(got)} read back ({a["smiles"]})', wit, len(got)))
            continue
        todo = [(pair, got[0])]
        if spec[2] == 'sdf':
            try:
                todo.append(('mdl_mol', mdl_mol(text[:text.index('M  END') + 7], calc_cis_trans=True, **{k: v for k, v in rkw.items() if k != 'buffer_size'})))
            except Exception as e:
                vs.append(V(f'{fam}:mdl_mol:exc', f'{fam}:mdl_mol:exc:{where(e)}:{tag}', f'{pair[:pair.index(">")]} -> mdl_mol ({a["opt"]}): {where(e)} on {a["smiles"]}', wit, repr(e)))
        for via, o in todo:
            f2 = fam if via == pair else f'{fam}:mdl_mol'
            if not keep and O.has_labels(o):
                vs.append(V(f'{f2}:labels', f'{f2}:labels:{tag}', f'{via} ({a["opt"]}): configuration labels read although the option asks to ignore them ({a["smiles"]})',
                            wit, O.stereo_snap(o)))
            d = cmp_mol(O, exp, o, claimed and keep, a)
            if d and rkw.get('remap') and list(m) != list(exp) and not cmp_mol(O, m, o, claimed and keep, a):
                # independent predicate: option remap given, written numbers are not 1..N in file order, and the record comes back exactly as without the option
                k = f'opt:remap-ignored:{via.split(">")[-1]}:molecule-record'
                vs.append(V(k, k, f'{via} ({a["opt"]}): the option is ignored for a molecule record: atom numbers {list(m)} of {a["smiles"]} are read back unchanged, '
                               f'not as 1..{len(m)} ("remap: Remap atom numbers started from one")', wit, list(o)))
                d = []
            for field, e, g in d:
                vs.append(V(f'{f2}:{field}', f'{f2}:{field}:{tag}', f'{via} ({a["opt"]}): {field} not preserved for {a["smiles"]} ({a["form"]}): written {e!r}, read {g!r}',
                            wit, {'expected': e, 'got': g}))
        vs.extend(text_violations(O, m, got[0], pair, wit))
    return vs, n, str(m)


def _induced(O, em, gm, st, a):
    """differences between a written molecule and the read one modulo the renumbering by position"""
    if len(em) != len(gm):
        return [('atom-count', len(em), len(gm))]
    if len(set(gm)) != len(gm):
        return [('atom-number', 'unique numbers', list(gm))]
    return cmp_mol(O, renumbered(em, dict(zip(em, gm))), gm, st, a)


def check_opt_rxn(a):
    """a: check_rxn's arguments + 'opt'.  'positional' for a reaction: every molecule equal modulo renumbering by position; for the
    reader option remap additionally the atom-to-atom mapping is preserved (written number -> read number is one injective function
    over the whole reaction) and the numbers start from one, as the option documents"""
    from oracles import o11_records as O
    from chython import ReactionContainer
    from chython.files import mdl_rxn
    rx, ok2d = build_rxn(a)
    wkw, rkw, numbering, keep, mdl_only = OPTS[a['opt']]
    tag = f'{".".join(a["smiles"])}|{a["counts"]}|{a["seed"]}'
    top = max(max(m) for m in rx.molecules())
    vs, n = [], 0
    for pair, spec in P().items():
        if not spec[4] or a.get('pair') not in (None, pair) or mdl_only and spec[2] == 'mrv' or top > 999 and pair == 'RDFWrite>RDFRead':
            continue
        fam = f'opt:{a["opt"]}:rx:{pair}'
        wit = {'replay': 'check_opt_rxn', 'args': {**a, 'pair': pair}}
        n += 1
        try:
            w = rx.copy()
            text = write(pair, [w], **wkw)
            if 'buffer_size' in rkw:
                rkw = {'buffer_size': text.count('\n')}
            got = list(reader(pair, text, **rkw))
        except Exception as e:
            vs.append(V(f'{fam}:exc', f'{fam}:exc:{where(e)}:{tag}', f'{pair} ({a["opt"]}): {where(e)} on a valid reaction {tag}', wit, repr(e)))
            continue
        if len(got) != 1:
            vs.append(V(f'{fam}:count', f'{fam}:count:{tag}', f'{pair} ({a["opt"]}): one reaction written, {len(got)} read back ({tag})', wit, len(got)))
            continue
        todo = [(pair, got[0])]
        if spec[2] == 'rdf':
            block = text[text.index('$RXN'):]
            block = block[:block.index('$DTYPE')] if '$DTYPE' in block else block
            try:
                todo.append(('mdl_rxn', mdl_rxn(block, calc_cis_trans=True, **{k: v for k, v in rkw.items() if k != 'buffer_size'})))
            except Exception as e:
                vs.append(V(f'{fam}:mdl_rxn:exc', f'{fam}:mdl_rxn:exc:{where(e)}:{tag}', f'{pair[:pair.index(">")]} -> mdl_rxn ({a["opt"]}): {where(e)} on {tag}', wit, repr(e)))
        vs.extend(text_violations(O, rx, got[0], pair, wit))
        for via, o in todo:
            f2 = fam if via == pair else f'{fam}:mdl_rxn'
            if numbering == 'same':
                d = cmp_rxn(O, w, o, ok2d and keep, a)
            elif not isinstance(o, ReactionContainer):
                d = [('record-type', 'reaction', type(o).__name__)]
            else:
                d = [(f'role-count-{role}', len(getattr(w, role)), len(getattr(o, role))) for role in ('reactants', 'reagents', 'products')
                     if len(getattr(w, role)) != len(getattr(o, role))]
                fwd, bwd = {}, {}
                for role in () if d else ('reactants', 'reagents', 'products'):
                    for i, (em, gm) in enumerate(zip(getattr(w, role), getattr(o, role))):
                        st = ok2d and keep and not O.explicit_h_on_stereocentre(em) and not (O.has_labels(em) and O.degenerate_depiction(em))
                        d.extend((f, f'{role}[{i}] {e}', g) for f, e, g in _induced(O, em, gm, st, a))
                        if rkw.get('remap') and len(em) == len(gm):
                            for x, y in zip(em, gm):
                                f_, b_ = fwd.setdefault(x, y), bwd.setdefault(y, x)
                                if f_ != y or b_ != x:
                                    d.append(('atom-to-atom-mapping', f'{role}[{i}] atom {x} <-> {f_}', f'{y} (also given to atom {b_})'))
                if rkw.get('remap') and not d and min(bwd) != 1:
                    d.append(('numbers-start-from-one', 1, min(bwd)))
            if not keep and isinstance(o, ReactionContainer) and any(O.has_labels(x) for x in o.molecules()):
                d.append(('labels', 'none (ignore_stereo)', [O.stereo_snap(x) for x in o.molecules()]))
            for field, e, g in d[:6]:
                vs.append(V(f'{f2}:{field}', f'{f2}:{field}:{tag}', f'{via} ({a["opt"]}): reaction {field} not preserved ({tag}): written {e!r}, read {g!r}', wit,
                            {'expected': e, 'got': g}))
    return vs, n, format(rx)


def w_opts(items):
    """worker: list of ('mol', smiles, form, offset, opt) | ('rxn', check_rxn arguments, opt)"""
    env.setup()
    n, keys, samples, vs = 0, [], [], []
    for kind, *x in items:
        if kind == 'mol':
            s, form, off, opt = x
            try:
                build(s, form, off)
            except Exception:
                continue       # not a molecule of the library
            try:
                v, c, cs = check_opt_mol({'smiles': s, 'form': form, 'offset': off, 'opt': opt})
            except LibError as e:
                vs.append(e.args[0])
                continue
        else:
            a, opt = x
            v, c, cs = check_opt_rxn({**a, 'opt': opt})
        vs.extend(v)
        n += c
        keys.append(f'opt|{kind}|{opt}|{x[1] if kind == "mol" else a["counts"]}|{cs}')
        if len(samples) < 1:
            samples.append({'contract': 'write->read under a non-default writer / reader option', 'option': opt, 'object': cs})
    return n, keys, samples, vs, {}


# ------------------------------------------------------ audit extension 2: file kinds and reading entry points (call sequences)

def api_objects(obj):
    """5 fixed records whose titles / metadata key sets DIFFER: record 1 has no metadata, record 2 a key of its own, record 3 no title"""
    objs = multi_objects({'obj': obj, 'n': 5, 'seed': 'fixed', 'fixed': True})
    objs[1].meta.clear()
    objs[2].meta.clear()
    objs[2].meta['other'] = 'only here'
    objs[3].name = ''
    return objs


def _mol_sig(O, m):
    return repr(O.snap(m)), O.norm_title(m.name)


def check_api(a):
    """a: {'pair','obj'}: every way of handing a file to the writer / reader and every public reading entry point gives the records
    that plain iteration over an in-memory file gives (and those carry the written titles / metadata, record by record)"""
    import fileinput
    from pathlib import Path
    from oracles import o11_records as O
    from chython import ReactionContainer
    from chython.files import mdl_mol, mdl_rxn
    pair = a['pair']
    W, R, fmt, *_ = P()[pair]
    mrv = fmt == 'mrv'
    wit = {'replay': 'check_api', 'args': a}
    objs = api_objects(a['obj'])
    vs, n = [], [0]

    def bad(what, text, native=None):
        vs.append(V(f'api:{pair}:{what}', f'api:{pair}:{a["obj"]}:{what}', f'{pair} ({a["obj"]} records): {text}', wit, native))

    def attempt(what, fn):
        """run one access path; a library exception is a violation keyed by its place"""
        n[0] += 1
        try:
            return fn()
        except Exception as e:
            if not any('/chython/' in f.filename for f in traceback.extract_tb(e.__traceback__)):
                raise       # an error of this harness, not of the library
            vs.append(V(f'api:{pair}:{what}:exc', f'api:{pair}:{a["obj"]}:{what}:exc:{where(e)}', f'{pair} ({a["obj"]} records), {what}: {where(e)}', wit, repr(e)))
            return None

    text = write(pair, [x.copy() for x in objs])
    got = list(reader(pair, text))
    if len(got) != len(objs):
        bad('count', f'{len(objs)} records written, {len(got)} read')
        return vs, n[0]
    for o, g in zip(objs, got):
        vs.extend(text_violations(O, o, g, pair, wit))
    seq = [rec_sig(O, x) for x in got]
    d = tempfile.mkdtemp(prefix='b11-api-')
    caches = []
    try:
        def sigs_of(path):
            with open(path) as f:
                return read_all(pair, f.read())

        # ---- writers: str path, Path, open handle, append
        def w_to(target, items, **kw):
            with W(target, **kw) as w:
                for x in items:
                    w.write(x.copy())
        p = os.path.join(d, 'w1.' + fmt)
        if attempt('writer(str path)', lambda: w_to(p, objs) or True) and sigs_of(p) != seq:
            bad('writer(str path)', 'records differ from the ones written to an in-memory file')
        p2 = os.path.join(d, 'w2.' + fmt)
        if attempt('writer(Path)', lambda: w_to(Path(p2), objs) or True) and sigs_of(p2) != seq:
            bad('writer(Path)', 'records differ from the ones written to an in-memory file')
        p3 = os.path.join(d, 'w3.' + fmt)
        with open(p3, 'w') as fh:
            r3 = attempt('writer(open file)', lambda: w_to(fh, objs) or True)
        if r3 and sigs_of(p3) != seq:
            bad('writer(open file)', 'records differ from the ones written to an in-memory file')
        if not mrv:
            p4 = os.path.join(d, 'w4.' + fmt)
            if attempt('writer(append=True) second session', lambda: (w_to(p4, objs[:2]), w_to(p4, objs[2:], append=True))) and sigs_of(p4) != seq:
                bad('writer(append=True) second session', '2 records written, 3 appended by a second writer: reading does not give the 5 records')
            p5 = os.path.join(d, 'w5.' + fmt)
            if attempt('writer(append=True) new file', lambda: w_to(p5, objs, append=True) or True) and sigs_of(p5) != seq:
                bad('writer(append=True) new file', 'records differ from the ones written without append')
            buf = io.StringIO()
            if attempt('writer(buffer, append=True)', lambda: w_to(buf, objs, append=True) or True) and read_all(pair, buf.getvalue()) != seq:
                bad('writer(buffer, append=True)', 'records differ from the ones written without append')
        # ---- readers: str path, Path, open handle, FileInput / BytesIO
        kw = {'calc_cis_trans': True}
        path = os.path.join(d, 'f.' + fmt)
        with open(path, 'w') as f:
            f.write(text)

        def all_of(src, close=None):
            try:
                return [rec_sig(O, x) for x in R(src, **kw)]
            finally:
                if close:
                    close.close()
        kinds = [('str path', lambda: all_of(path)), ('Path', lambda: all_of(Path(path)))]
        if mrv:
            fh = open(path, 'rb')
            kinds += [('open binary file', lambda: all_of(fh, fh)), ('BytesIO', lambda: all_of(io.BytesIO(text.encode())))]
        else:
            fh = open(path)
            fi = fileinput.input(files=[path])
            kinds += [('open text file', lambda: all_of(fh, fh)), ('FileInput', lambda: all_of(fi, fi))]
        for kind, fn in kinds:
            g = attempt(f'reader({kind})', fn)
            if g is not None and g != seq:
                bad(f'reader({kind})', f'{len(g)} records, not the {len(seq)} of plain iteration over an in-memory file')
        # ---- read(amount), next()

        def amounts():
            with R(path, **kw) as rd:
                x = rd.read(2)
                t = rd.tell()
                y = rd.read()
                return [rec_sig(O, z) for z in x], t, [rec_sig(O, z) for z in y], rd.tell()
        g = attempt('read(amount)', amounts)
        if g is not None and (g[0] != seq[:2] or g[2] != seq[2:] or g[3] != len(seq)):
            bad('read(amount)', f'read(2) then read() give {len(g[0])} + {len(g[2])} records (tell {g[1]}, {g[3]}), not the first 2 and the remaining {len(seq) - 2}')

        def nexts():
            with R(path, **kw) as rd:
                return [rec_sig(O, next(rd)) for _ in range(3)]
        g = attempt('next(reader)', nexts)
        if g is not None and g != seq[:3]:
            bad('next(reader)', 'three next() calls do not give the first three records')
        # ---- read_structure / read_metadata / read_block / read_mol / read_rxn record by record

        def stepwise():
            out = []
            with R(path, **kw) as rd:
                for i in range(len(seq)):
                    s = rd.read_structure(current=False)
                    s2 = rd.read_structure()
                    md = rd.read_metadata()
                    e = {'sig': rec_sig(O, s), 'again': rec_sig(O, s2), 'meta': O.norm_meta(md), 'own_meta': O.norm_meta(s.meta), 'tell': rd.tell()}
                    if not mrv:
                        blk = rd.read_block()
                        e['block'] = read_all(pair, blk + '$$$$\n' if fmt == 'sdf' else ('$RFMT\n' if isinstance(s, ReactionContainer) else '$MFMT\n') + blk)
                        if isinstance(s, ReactionContainer):
                            rx = mdl_rxn(rd.read_rxn(), calc_cis_trans=True)
                            e['parts'] = ([[_mol_sig(O, x)[0] for x in getattr(rx, r)] for r in ('reactants', 'products', 'reagents')], O.norm_title(rx.name))
                            e['parts_expected'] = ([[_mol_sig(O, x)[0] for x in getattr(s, r)] for r in ('reactants', 'products', 'reagents')], O.norm_title(s.name))
                            order = list(s.reactants) + list(s.products) + list(s.reagents)
                            e['mols'] = [_mol_sig(O, mdl_mol(rd.read_mol(j), calc_cis_trans=True))[0] for j in range(len(order))]
                            e['mols_expected'] = [_mol_sig(O, x)[0] for x in order]
                        else:
                            e['mols'] = [_mol_sig(O, mdl_mol(rd.read_mol() if fmt == 'sdf' else rd.read_mol(0), calc_cis_trans=True))]
                            e['mols_expected'] = [_mol_sig(O, s)]
                    out.append(e)
                try:
                    rd.read_structure(current=False)
                    out.append('no EOFError after the last record')
                except EOFError:
                    pass
            return out
        g = attempt('record-by-record reading', stepwise)
        for i, e in enumerate(g or []):
            if isinstance(e, str):
                bad('read_structure after the last record', e)
            elif e['sig'] != seq[i]:
                bad('read_structure(current=False)', f'call {i + 1} does not give record {i}')
            elif e['again'] != seq[i]:
                bad('read_structure()', f'after reading record {i} the current record is a different one')
            elif e['meta'] != e['own_meta']:
                bad('read_metadata()', f'record {i}: {e["meta"]!r} differs from the metadata of the structure just read {e["own_meta"]!r}', e['meta'])
            elif e['tell'] != i + 1:
                bad('tell()', f'{e["tell"]} after {i + 1} records')
            elif not mrv and e['block'] != [seq[i]]:
                bad('read_block()', f'the text of record {i}, read on its own, gives {len(e["block"])} record(s) different from record {i}')
            elif not mrv and e.get('parts') != e.get('parts_expected'):
                bad('read_rxn() -> mdl_rxn', f'record {i}: the reaction block gives a different reaction')
            elif not mrv and e['mols'] != e['mols_expected']:
                bad('read_mol() -> mdl_mol', f'record {i}: the molecule blocks (file order: reactants, products, reagents) give different molecules')
        # ---- index: first open builds the index, second open takes it from the cache; seek / tell
        if not mrv:
            def indexed():
                out = {}
                rd = R(path, indexable=True, **kw)
                caches.append(rd._cache_path)
                out['len'] = len(rd)
                out['items'] = [rec_sig(O, rd[i]) for i in (3, 0, 4)]
                rd.seek(2)
                out['tell'] = rd.tell()
                out['seek'] = rec_sig(O, rd.read_structure())
                out['seek_meta'] = O.norm_meta(rd.read_metadata())
                rd.close()
                rd = R(path, indexable=True, **kw)      # index from the cache file
                out['cached'] = [rec_sig(O, rd[-1])] + [rec_sig(O, x) for x in rd[1:4]]
                rd.close()
                return out
            n[0] += 1
            try:
                g = indexed()
            except Exception as e:
                g = None
                vs.append(V(f'index:{fmt}:exc', f'index:{fmt}:exc:{where(e)}', f'{pair.split(">")[1]}(indexable=True): {where(e)} on a 5-record file written by '
                                                                                 f'{pair.split(">")[0]}; sequential reading returns the records', wit, repr(e)))
            if g is not None:
                if g['len'] != len(seq):
                    bad('len(indexable reader)', f'{g["len"]} != {len(seq)}')
                elif g['items'] != [seq[3], seq[0], seq[4]]:
                    bad('reader[i]', 'reader[3], reader[0], reader[4] are not records 3, 0, 4')
                elif g['tell'] != 2 or g['seek'] != seq[2] or g['seek_meta'] != O.norm_meta(got[2].meta):
                    bad('seek(2)', f'tell() = {g["tell"]}; read_structure() / read_metadata() after seek(2) do not give record 2')
                elif g['cached'] != [seq[4]] + seq[1:4]:
                    bad('index from cache', 'a second indexable reader (index loaded from the cache file) returns other records for [-1] and [1:4]')
        # ---- write3d: conformer coordinates (molecule files): the record's constitution is the same
        if fmt == 'sdf' and a['obj'] == 'mol':
            m = objs[2].copy()
            m._conformers = [{k: (at.x, at.y, 0.25 * i - 0.5) for i, (k, at) in enumerate(m.atoms())}]

            def conf():
                f = io.StringIO()
                with W(f) as w:
                    w.write(m, write3d=0)
                return list(reader(pair, f.getvalue()))
            g = attempt('write(molecule, write3d=0)', conf)
            if g is not None and (len(g) != 1 or cmp_mol(O, m, g[0], False, a) or text_violations(O, m, g[0], pair, wit)):
                bad('write(molecule, write3d=0)', f'record written with conformer coordinates is not read back with the same atoms / bonds / title / metadata')
    finally:
        shutil.rmtree(d, ignore_errors=True)
        for c in caches:
            if os.path.exists(c):
                os.remove(c)
    return vs, n[0]


def w_api(items):
    env.setup()
    n, keys, samples, vs = 0, [], [], []
    for a in items:
        v, c = check_api(a)
        vs.extend(v)
        n += c
        keys.append(f'api|{a["pair"]}|{a["obj"]}')
        if len(samples) < 1:
            samples.append({'contract': 'file kinds / entry points give the records of plain iteration', 'pair': a['pair'], 'records': a['obj'], 'access paths': c})
    return n, keys, samples, vs, {}


# --------------------------------------------------- audit extension 3: records as other programs spell them (re-spellings, hand-written)

def check_foreign(a):
    """a: {'kind': 'respell', 'smiles', 'form'} - every spec-equivalent re-spelling (oracles/o11_foreign.py) of the record the library
    wrote for the molecule is read as the molecule; {'kind': 'files', 'pair', 'obj'} - container-level re-spellings of a 5-record
    file; {'kind': 'hand', 'name'} - hand-written records with star atoms / ENDPTS and MRV_IMPLICIT_H S-groups"""
    from oracles import o11_records as O, o11_foreign as F
    from chython.files import mdl_mol, SDFRead, RDFRead, MRVRead
    vs, n = [], 0
    wit = {'replay': 'check_foreign', 'args': a}

    def V2(variant, via, field, text, native=None):
        if via in ('mdl_mol', 'mdl_rxn') and variant.startswith(('v3:continuation', 'v3:sgroup')):
            variant = 'v3:continuation-line'      # one root-cause family: (string entry point, record holding a '-' continued line)
        vs.append(V(f'foreign:{variant}:{via}:{field}', f'foreign:{variant}:{via}:{field}', text, wit, native))

    if a['kind'] == 'respell':
        m, ok2d, _ = build(a['smiles'], a['form'])
        m.name = 'record'
        m.meta.clear()
        m.meta['k'] = 'v'
        claimed = _claimed(O, m, a['form'], ok2d, a['smiles'], wit)
        for pair, gen in (('SDFWrite>SDFRead', F.v2_variants), ('ESDFWrite>SDFRead', F.v3_variants)):
            if max(m) > 999 and pair == 'SDFWrite>SDFRead':
                continue
            text = write(pair, [m])
            cut = text.index('M  END') + 7
            block, tail = text[:cut], text[cut:]
            for name, new in gen(block):
                st = claimed and 'either' not in name
                for via, fn in (('SDFRead', lambda: list(SDFRead(io.StringIO(new + tail), calc_cis_trans=True))), ('mdl_mol', lambda: [mdl_mol(new, calc_cis_trans=True)])):
                    n += 1
                    try:
                        got = fn()
                    except Exception as e:
                        V2(name, via, f'exc:{where(e)}', f'{via}: {where(e)} on a valid record ({name}; {a["smiles"]})', repr(e))
                        continue
                    if len(got) != 1:
                        V2(name, via, 'count', f'{via}: a valid record ({name}; {a["smiles"]}) is skipped', len(got))
                        continue
                    for field, e, g in cmp_mol(O, m, got[0], st, a):
                        V2(name, via, field, f'{via}: {field} of a valid record ({name}; {a["smiles"]}) read as {g!r}, the record says {e!r}', {'expected': e, 'got': g})
                    if via == 'SDFRead':
                        vs.extend(text_violations(O, m, got[0], pair, wit))
        text = write('MRVWrite>MRVRead', [m])
        for name, new in (('mrv:compact-atom-array', F.mrv_compact(text)), ('mrv:xml-declaration+namespace', F.mrv_namespaced(text))):
            if new is None:
                continue
            n += 1
            try:
                got = list(MRVRead(io.BytesIO(new.encode()), calc_cis_trans=True))
            except Exception as e:
                V2(name, 'MRVRead', f'exc:{where(e)}', f'MRVRead: {where(e)} on a valid record ({name}; {a["smiles"]})', repr(e))
                continue
            if len(got) != 1:
                V2(name, 'MRVRead', 'count', f'MRVRead: a valid record ({name}; {a["smiles"]}) is skipped', len(got))
                continue
            for field, e, g in cmp_mol(O, m, got[0], claimed, a):
                V2(name, 'MRVRead', field, f'MRVRead: {field} of a valid record ({name}; {a["smiles"]}) read as {g!r}, the record says {e!r}', {'expected': e, 'got': g})
            vs.extend(text_violations(O, m, got[0], 'MRVWrite>MRVRead', wit))
    elif a['kind'] == 'files':
        pair = a['pair']
        fmt = P()[pair][2]
        objs = api_objects(a['obj'])
        text = write(pair, [x.copy() for x in objs])
        seq = read_all(pair, text)
        gens = list({'sdf': F.sdf_variants, 'rdf': F.rdf_variants}[fmt](text)) if fmt != 'mrv' else \
            [('mrv:compact-atom-array', F.mrv_compact(text)), ('mrv:xml-declaration+namespace', F.mrv_namespaced(text))]
        for name, new in gens:
            if new is None:
                continue
            n += 1
            name = f'{name}:{pair.split(">")[0]}:{a["obj"]}'
            try:
                got = read_all(pair, new)
            except Exception as e:
                V2(name, pair.split('>')[1], f'exc:{where(e)}', f'{pair.split(">")[1]}: {where(e)} on a valid file ({name})', repr(e))
                continue
            if got != seq:
                lost = [i for i, s_ in enumerate(seq) if s_ not in got]
                V2(name, pair.split('>')[1], 'records', f'{pair.split(">")[1]}: valid file ({name}): {len(got)} records read, records {lost} of {len(seq)} missing or changed',
                   {'returned': len(got), 'lost_or_changed': lost})
        if fmt == 'rdf' and a['obj'] == 'rxn':      # a bare RXN file handed to RDFRead (the reader's own '# RXN file' branch)
            for i, o in enumerate(objs):
                one = write(pair, [o.copy()])
                rf = F.rxn_file(one)
                n += 1
                name = f'rdf:bare-rxn-file:{pair.split(">")[0]}'
                try:
                    got = read_all(pair, rf)
                except Exception as e:
                    V2(name, 'RDFRead', f'exc:{where(e)}', f'RDFRead: {where(e)} on a bare RXN file (record {i})', repr(e))
                    continue
                ref = read_all(pair, one)
                if len(got) != 1 or got[0][:3] != ref[0][:3]:
                    V2(name, 'RDFRead', 'records', f'RDFRead: bare RXN file (record {i}): {len(got)} record(s), not the reaction of the file', len(got))
    else:
        text, atoms, bonds, hs = F.HAND[a['name']]
        for via, fn in (('SDFRead', lambda: list(SDFRead(io.StringIO(text + '$$$$\n')))), ('mdl_mol', lambda: [mdl_mol(text)]),
                        ('RDFRead', lambda: list(RDFRead(io.StringIO('$RDFILE 1\n$DATM    01/01/26 00:00\n$MFMT\n' + text))))):
            n += 1
            try:
                got = fn()
            except Exception as e:
                V2(a['name'], via, f'exc:{where(e)}', f'{via}: {where(e)} on a valid hand-written record ({a["name"]})', repr(e))
                continue
            if len(got) != 1:
                V2(a['name'], via, 'count', f'{via}: valid hand-written record ({a["name"]}) is skipped', len(got))
                continue
            o = got[0]
            ga = [(k, x.atomic_symbol, x.isotope, x.charge, bool(x.is_radical)) for k, x in o.atoms()]
            gb = {(min(x, y), max(x, y), int(b.order)) for x, y, b in o.bonds()}
            gh = {k: o.atom(k).implicit_hydrogens for k in hs if k in o._atoms}
            if ga != atoms:
                V2(a['name'], via, 'atoms', f'{via}: atoms of a hand-written record ({a["name"]}) read as {ga!r}, the record says {atoms!r}', ga)
            elif gb != bonds:
                V2(a['name'], via, 'bonds', f'{via}: bonds of a hand-written record ({a["name"]}): missing {sorted(bonds - gb)!r}, unexpected {sorted(gb - bonds)!r}', sorted(gb))
            elif gh != hs:
                V2(a['name'], via, 'hydrogens', f'{via}: hydrogen counts stated by the S-groups of ({a["name"]}) are {hs!r}, read {gh!r}', gh)
    return vs, n


def w_foreign(items):
    env.setup()
    n, keys, samples, vs = 0, [], [], []
    for a in items:
        if a['kind'] == 'respell':
            try:
                build(a['smiles'], a['form'])
            except Exception:
                continue
        try:
            v, c = check_foreign(a)
        except LibError as e:
            vs.append(e.args[0])
            continue
        vs.extend(v)
        n += c
        keys.append(f'foreign|{sorted(a.items())}')
        if len(samples) < 1:
            samples.append({'contract': 'record as another program spells it is read as what it says', **a, 'variants': c})
    best = {}
    for v in vs:
        if v[0] not in best or len(repr(v[3])) < len(repr(best[v[0]][3])):
            best[v[0]] = v
    return n, keys, samples, list(best.values()), {}


# ------------------------------------------------------------------------------------------------------------------ driver

def chunks(xs, k):
    xs = list(xs)
    return [xs[i:i + k] for i in range(0, len(xs), k)]


def decorated_smiles(r, corpus, k):
    """corpus molecules decorated (as further components / substituent-free additions) with ions of charge -4..+4, isotopes,
    radicals, coordinate-bond complexes; > 8 charged atoms per record included"""
    out = list(ION) + list(ISO) + list(RAD) + list(COORD) + list(STEREO)
    for i in range(k):
        s = r.choice(corpus)
        extra = [r.choice(ION + ISO + RAD + COORD) for _ in range(r.choice([1, 2, 3, 10, 12]))]
        out.append('.'.join([s] + extra))
    return out


def bounded(run):
    from bounded import domains as D
    from oracles import o11_records as O
    quick = run.tier == 'quick'
    n_corpus = 150 if quick else 1500
    r = D.rnd('c11')
    corpus = D.corpus_sample(n_corpus, 'c11')
    stats = {}
    tasks = []   # (worker, items)

    # 1. molecules: corpus (Kekule with 2D coordinates -> everything incl. configuration; aromatic form -> constitution, order 4)
    mols = [(s, 'kekule') for s in corpus] + [(s, 'aromatic') for s in corpus[:n_corpus // 3]]
    mols += [(s, 'kekule-rdkit2d') for s in corpus + STEREO if any(c in s for c in '@/\\')]
    mols += [(s, 'kekule', r.choice([0, 90, 400, 1500])) for s in corpus[::3] + STEREO]
    deco = decorated_smiles(r, corpus, 40 if quick else 400)
    mols += [(s, 'kekule') for s in deco] + [(s, 'aromatic') for s in COORD]
    mols += [(s, f) for s in STEREO2 for f in ('kekule', 'kekule-rdkit2d')] + [(s, 'kekule', o) for s, o in zip(STEREO2, [90, 400, 1500] * 10)]
    mols += [(s, 'kekule') for s in MISC2] + [(s, 'kekule-nolayout') for s in BIG + STEREO[:6]]
    # decorated atlas <= 6 nodes -> SMILES text of each decorated graph (the atlas molecules are rebuilt in the worker from text)
    atl = []
    for g, el, od, m in D.decorated_atlas(6, trials=3 if quick else 6, tag='c11-atlas', elements=('C', 'C', 'N', 'O', 'S', 'P', 'Cl')):
        atl.append(str(m))
    atl = sorted(set(atl))
    mols += [(s, 'kekule') for s in atl]
    for c in chunks(mols, 12):
        tasks.append((w_mols, c))
    run.bound(f'molecules: seeded corpus sample {n_corpus} (Kekule form + 2D coordinates from clean2d; first {n_corpus // 3} also in aromatic form; the '
              f'stereo-bearing ones also with RDKit-depicted coordinates (cis geometry in chains); every 3rd also renumbered: permuted numbers shifted by '
              f'0/90/400/1500), {len(atl)} valence-valid decorated atlas graphs <= 6 nodes, {len(deco)} decorated records (charges -4..+4, isotopes, radicals, coordinate '
              f'bonds, allenes/cumulenes, up to 12 extra charged components), x 5 writer->reader pairs + mdl_mol')

    # 2. reactions
    n_rx = 60 if quick else 1000
    pool = corpus + STEREO + ION[:8] + RAD[:3] + COORD[:3]
    rx = []
    for i in range(n_rx):
        cnt = r.choice([(1, 1, 0), (2, 1, 0), (1, 2, 1), (3, 3, 3), (0, 1, 1), (1, 0, 0), (0, 0, 2), (2, 2, 1), (1, 1, 3), (0, 2, 0), (3, 1, 0)])
        rx.append({'smiles': [r.choice(pool) for _ in range(sum(cnt))], 'counts': cnt, 'seed': i, 'offset': r.choice([0, 0, 90, 400, 1200]),
                   'title': f'rx {i}', 'meta': {'id': str(i), 'cond': 'a\nb'}})
    for c in chunks(rx, 4):
        tasks.append((w_rxns, c))
    run.bound(f'reactions: {n_rx} generated from corpus/decorated molecules, 0-3 molecules per role, atom-number offsets 0/90/400/1200 '
              f'(numbers > 99, > 999 for V3000/MRV), x 3 writer->reader pairs + mdl_rxn')

    # 3. titles / metadata
    n_meta = 12 if quick else 200
    mt = [(cls, i) for cls in O.META_CLASSES + ('title-punct',) for i in range(n_meta)] + [('fixed-punct', i) for i in range(3 * 32)] + [('fixed-mdl-like', i) for i in range(6 * len(MDL_LIKE_LINES))]
    for c in chunks(mt, 8):
        tasks.append((w_meta, c))
    run.bound(f'titles/metadata: {len(MDL_LIKE_LINES)} value lines that look like connection-table lines (M  END, M  CHG ..., leading M) x 3 positions x single / several fields; '
              f'{len(O.META_CLASSES) + 1} classes of printable ASCII text x {n_meta} seeded cases x 5 pairs x {{molecule, reaction}}; '
              f'value lines never start with a tag character of the MDL formats ($, >, M); '
              f'seed-independent: each of the 32 ASCII punctuation characters once in a key, in a title, inside a value')

    # 4. damaged multi-record files
    n_files = 1 if quick else 6
    for pair, spec in P().items():
        for obj in ('mol', 'rxn'):
            if obj == 'rxn' and not spec[4]:
                continue
            for fi in range(n_files):
                n = 5 + (fi + len(pair)) % 4
                os_ = {'obj': obj, 'n': n, 'seed': f'{env.SEED}:{pair}:{obj}:{fi}'}
                for k in range(n):
                    cols = 'some' if quick or obj == 'rxn' else 'all'
                    tasks.append((w_multi, [{'pair': pair, 'objspec': os_, 'ks': [k], 'columns': cols}]))
    for pair, spec in P().items():
        for obj in ('mol', 'rxn'):
            if obj == 'rxn' and not spec[4]:
                continue
            os_ = {'obj': obj, 'n': 5, 'seed': 'fixed', 'fixed': True}
            for k in (1, 2, 4):
                tasks.append((w_multi, [{'pair': pair, 'objspec': os_, 'ks': [k], 'columns': 'fixed' if k == 1 else 'first'}]))
    run.bound('damaged files, seed-independent part: one fixed 5-record file per pair and record type (isotope / charge +-4 / radical / wedge / coordinate-bond '
              'records; reactions with reagents); record 1 damaged in every way at every line and column (long reaction records: first 8 lines and the '
              'first line of each syntactic kind), records 2 and 4 on the first line of each kind')
    run.bound(f'damaged files: {n_files} seeded file(s) of 5-8 records per pair and record type; ONE record damaged at every position: truncated / beheaded at '
              f'every line, each line deleted / duplicated / swapped with the next, one character replaced by each of "X", " ", "9", "-" at every column '
              f'and a blank inserted / a character removed at every third column of {"one line of each syntactic kind" if quick else "every line (molecule files)"}; '
              f'MRV: 40 well-formedness-preserving edits (elements/attributes removed or invalid). Record delimiters ($$$$, $RFMT/$MFMT) are not damaged')

    # 5. index access
    idx = []
    for pair, spec in P().items():
        if spec[2] == 'mrv':
            continue
        for obj in ('mol', 'rxn'):
            if obj == 'rxn' and not spec[4]:
                continue
            for fi in range(2 if quick else 8):
                idx.append({'pair': pair, 'objspec': {'obj': obj, 'n': 5 + fi % 4, 'seed': f'{env.SEED}:idx:{pair}:{obj}:{fi}'}, 'seed': fi})
    for c in chunks(idx, 2):
        tasks.append((w_index, c))
    run.bound(f'index access: {len(idx)} written files (5-8 records) + the repository test files: len, reader[i] in shuffled order, negative index, 5 slices')

    # 6. repository test files
    tdir = env.repo_path('test')
    tf = []
    for fn in sorted(os.listdir(tdir)):
        if fn.rsplit('.', 1)[-1] in ('sdf', 'rdf', 'mrv'):
            for kw in ({}, {'calc_cis_trans': True}, {'remap': True, 'ignore': False}, {'ignore_stereo': True, 'ignore_bad_isotopes': True}):
                tf.append({'path': os.path.join(tdir, fn), 'kw': kw})
            if not fn.endswith('mrv'):
                pair = 'SDFWrite>SDFRead' if fn.endswith('sdf') else 'RDFWrite>RDFRead'
                tasks.append((w_index, [{'pair': pair, 'path': os.path.join(tdir, fn), 'tag': 'testfile'}]))
    for c in chunks(tf, 4):
        tasks.append((w_testfiles, c))
    run.bound(f'repository test files: {len(tf) // 4} files x 4 reader option sets')

    # 7. RDKit-written molblocks
    rk = corpus + decorated_smiles(D.rnd('c11-rdkit'), corpus, 30 if quick else 300)
    rk += ['[Ti+4].[Zr+4].C.[Pb+4].[C-4].[Si-4].[Fe+4].[Ti+4].[Zr+4].[C-4].O.[Si-4].[Pb+4]', '.'.join(['[Na+]', '[Cl-]'] * 9), '.'.join(['[Fe+4]'] * 17),
           'C[N+](C)(C)C.' * 9 + '[O-2].[O-2].[O-2].[O-2].[OH-]', '.'.join(['[13CH4]'] * 9 + ['[2H]O[2H]'] * 3), '.'.join(['[CH3]'] * 10)]
    rk = [s for s in rk if '~' not in s]
    for c in chunks(rk, 12):
        tasks.append((w_rdkit, c))
    run.bound(f'foreign records: {len(rk)} corpus / decorated molecules written by RDKit (MolToMolBlock V2000 and forceV3000, Kekule form, RDKit 2D '
              f'coordinates and wedges; V2000 additionally with the charge column blanked so that charges come from M  CHG only; records with 9-17 charged '
              f'atoms, isotopes, radicals), read by mdl_mol and SDFRead; reference = RDKit\'s own reading of the block')

    # 8. audit extension: non-default options; file kinds and entry points; records as other programs spell them
    opt_mols = STEREO[:8] + STEREO[23:26] + STEREO2[:4] + STEREO2[6:9] + ION[:6] + ION[20:] + ISO[:4] + RAD[:3] + COORD[:3] + ['[2H]C([2H])([2H])O[2H]', 'c1ccccc1', 'CC(=O)O']
    opt_mols += corpus[:6 if quick else 150]
    ot = []
    for i, s in enumerate(opt_mols):
        for j, opt in enumerate(OPTS):
            ot.append(('mol', s, 'kekule', None if (i + j) % 3 else [90, 400, 1500][(i + j) // 3 % 3], opt))
    rx_opt = [{'smiles': sm, 'counts': cnt, 'seed': i, 'offset': off, 'title': f'rx {i}', 'meta': {'id': str(i)}}
              for i, ((sm, cnt), off) in enumerate(zip(FIXED_RXNS + [(['C[C@H](O)CC', 'C/C=C/C', 'CC=[C@]=CC', 'OC(=O)[C@H](N)C'], (1, 2, 1)), (['CCO'], (0, 1, 0)),
                                                                 (['[NH4+]', '[Cl-]'], (0, 0, 2))], [0, 90, 400, 1200, 0, 7, 90, 0]))]
    rx_opt += rx[:4 if quick else 120]
    for a in rx_opt:
        for opt in OPTS:
            ot.append(('rxn', a, opt))
    for c in chunks(ot, 10):
        tasks.append((w_opts, c))
    run.bound(f'options: {len(opt_mols)} molecules (fixed: configuration incl. dependent centres / allenes / ring cumulenes, charges +-4, isotopes, radicals, '
              f'coordinate bonds; + seeded corpus) and {len(rx_opt)} reactions (fixed: with / without reagents, product-only, reagent-only, numbers shifted by 0/7/90/400/1200; '
              f'+ seeded) x {len(OPTS)} options ({", ".join(OPTS)}) x 5 / 3 pairs + mdl_mol / mdl_rxn with the same keywords; a third of the molecules with permuted shifted numbers')
    for pair, spec in P().items():
        for obj in ('mol', 'rxn'):
            if obj == 'rxn' and not spec[4]:
                continue
            tasks.append((w_api, [{'pair': pair, 'obj': obj}]))
            tasks.append((w_foreign, [{'kind': 'files', 'pair': pair, 'obj': obj}]))
    run.bound('file kinds / entry points: one fixed 5-record file per pair and record type (records with different metadata key sets, one without metadata, one '
              'without title): writers given str path / Path / open file / append=True (second session, new file, buffer); readers given str path / Path / open file / '
              'FileInput (MRV: binary file, BytesIO); read(amount), next(), read_structure(current) / read_metadata / read_block / read_mol / read_rxn + mdl_mol / mdl_rxn '
              'record by record, EOFError at the end; indexable reader built fresh and from its cache file, seek / tell; write3d=0 (constitution only)')
    from oracles import o11_foreign as F
    fm = STEREO[:6] + STEREO[23:25] + STEREO2[:2] + ION + ISO + RAD + COORD + MISC2[:12] + ['[2H]C([2H])([2H])O[2H]', '[Na+].[Cl-].[13CH4].[CH3].[Fe+4].[O-2].[2H]O[2H]',
                                                                                        '.'.join(['[Na+]', '[Cl-]', '[13CH4]', '[CH3]'] * 5)]
    fm += corpus[:8 if quick else 200]
    ft = [{'kind': 'respell', 'smiles': s, 'form': 'kekule'} for s in fm] + [{'kind': 'hand', 'name': k} for k in F.HAND]
    for c in chunks(ft, 8):
        tasks.append((w_foreign, c))
    run.bound(f'records as other programs spell them: {len(fm)} molecules (fixed + seeded corpus) written by the library and re-spelled without changing their content '
              f'(V2000: properties merged 8 / 3 per line with blank charge column, D symbol, mass-difference column, bond type 9, either marks, chiral flag + short bond '
              f'lines; V3000: "-" continuation at a token boundary / inside a token / twice, D symbol, bond types 9 and 10, CFG=2, skippable properties; MRV: compact '
              f'atom-array attribute lists, XML declaration + namespace), read by SDFRead and mdl_mol / MRVRead; container level on one 5-record file per pair and record '
              f'type (SDF: last record without $$$$, "> <k>" headers; RDF: $RIREG/$MIREG record lines, no $RDFILE header, $DATUM value on the next line, '
              f'bare RXN file); {len(F.HAND)} hand-written records (V3000 star atoms + ENDPTS: last / first / middle / 5 endpoints / with atom-atom mapping; MRV_IMPLICIT_H '
              f'S-groups V2000 and V3000) read by SDFRead, mdl_mol, RDFRead against hand-written expectations')
    run.assume('oracles/o11_foreign.py: the re-spellings are content-preserving by the CTfile / RDfile / Marvin documents; the expectations of the hand-written records '
               '(multi-centre bond = one coordinate bond, order 8, from the attached atom to every endpoint - the reading the library documents in its log lines)',
               'writer mapping=False / reader remap=True ask for new atom numbers: compared after renumbering the written molecule by file position; for reactions '
               'under remap the written -> read number map has to be one injective function over the whole reaction (the atom-to-atom mapping) starting from 1',
               'component titles of a reaction are not compared (V3000 reaction files have no slot for them)')

    run.assume('RDKit (MolFromSmiles, MolToMolBlock, Compute2DCoords, wedging) is a trusted external writer of valid MDL records',
               'the 2D layout of clean2d() is a valid depiction (distinct atom positions); molecules for which clean2d() fails are compared without configuration',
               'the expected label of a stereogenic double bond the written molecule leaves unlabelled is the one its 2D coordinates define '
               '(readers are opened with calc_cis_trans=True; MDL/MRV files written by these writers carry no "unspecified" mark); those labels are '
               'computed by calculate_cis_trans_from_2d on a copy of the written molecule',
               'a file carries double-bond configuration through coordinates only: a cis/trans label that contradicts the layout (clean2d ignores labels) is '
               'flipped before writing so that the written object is self-consistent (counted: ct_relabelled_from_2d); consistency and every label read back '
               'are judged by an independent plane-geometry test on the 4-decimal coordinates',
               'a wedge judged against collinear atoms (T-shaped centre with the wedge on the stem, allene substituent on the axis; signed volume 0 up '
               'to rounding noise on the 4-decimal coordinates) does not determine a configuration: such molecules are compared without configuration and '
               'counted (degenerate_2d)',
               'per-centre signs are compared after translation to the numbering-canonical neighbour order (stored signs refer to bond insertion order)',
               'metadata and titles are compared modulo the readers\' per-line strip and the dropping of blank lines; chython_* log keys ignored',
               'domain filter (property text): molecules with an explicit hydrogen on a labelled stereocentre are compared without configuration and counted',
               'a damaged record keeps its delimiter; MRV damage keeps the XML well-formed (a file that is not XML cannot be split into records)',
               'constitutional-symmetry oracle oracles.iso.orbits for the documented canonical-string gaps (RDKit-written part only)')

    only = getattr(run, 'only', None)      # development: bin/check C11 --only B,mols,rxns,meta,multi,index,testfiles,rdkit,opts,api,foreign
    only = set(only or ()) - {'P', 'T', 'F', 'H', 'B', 'X'}      # engine letters select parts of the check, not task kinds
    if only:
        tasks = [t for t in tasks if t[0].__name__[2:] in only]
    results = pmap(_dispatch, tasks)
    fam = {}
    for (fn, _), (n, keys, samples, vs, st) in zip(tasks, results):
        for k in keys:
            run.case(0, key=k)
        run.case(n)
        for s in samples[:1]:
            if sum(1 for x in run.samples if x.get('contract') == s.get('contract')) < 1:
                run.case(0, sample=s)
        for k, x in (st or {}).items():
            stats[k] = stats.get(k, 0) + x
        for v in vs:
            fam.setdefault(v[0], []).append(v)
    run.notes['c11_counts'] = stats
    run.notes['gap_hits'] = stats.get('gap_hits', 0)
    # per family: family-keyed findings once with the smallest witness; input-keyed ones: the 3 smallest inputs
    for f in sorted(fam):
        vs = sorted(fam[f], key=lambda v: (len(repr(v[3])), v[1]))
        seen = set()
        for v in vs:
            if v[1] in seen:
                continue
            seen.add(v[1])
            if len(seen) > 3:
                break
            run.violation(v[1], v[2] + (f' [{len(vs)} cases in family {f}]' if len(vs) > 1 else ''), witness=v[3], native=v[4])


def _dispatch(t):
    fn, items = t
    GAP_HITS[0] = 0
    n, keys, samples, vs, st = fn(items)
    if GAP_HITS[0]:
        st = dict(st or {})
        st['canonical_string_differs_inside_C01_gap_with_all_labels_preserved'] = GAP_HITS[0]
    return n, keys, samples, vs, st


REPLAY = {'check_mol': lambda a: check_mol(a)[0], 'check_rxn': lambda a: check_rxn(a)[0], 'check_meta': check_meta,
          'check_damaged': check_damaged, 'check_index': lambda a: check_index(a)[0], 'check_testfile': lambda a: check_testfile(a)[0],
          'check_rdkit_block': lambda a: check_rdkit_block(a)[0], 'check_opt_mol': lambda a: check_opt_mol(a)[0], 'check_opt_rxn': lambda a: check_opt_rxn(a)[0],
          'check_api': lambda a: check_api(a)[0], 'check_foreign': lambda a: check_foreign(a)[0]}


def replay(rec):
    """re-run the witness natively on the current tree; True = the property now holds for it"""
    env.setup()
    w = rec.get('witness') or {}
    fn = REPLAY.get(w.get('replay'))
    if fn is None:
        return False
    a = w['args']
    if isinstance(a.get('counts'), list):
        a['counts'] = tuple(a['counts'])
    try:
        vs = fn(a)
    except LibError as e:
        vs = [e.args[0]]
    for v in vs or []:
        print('  still:', v[2][:300])
    return not vs
