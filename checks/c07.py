"""C07 - see DESIGN.md §2 C07.  Deductive parts (contracts/) are added to this module as they are built; the bounded stand-in is checks/b07.py."""
from vlib import env
from checks.common import anchored, bounded_part, want, contract_sources, make_replay, t_oblig
from pysym.harness import run_cases

LEVEL = 'exploration'
# (contract module, case-name filter) run by engine P.  contracts.query: the statement's "pattern atom / bond matches its image" is the public `==`
# of the query-atom classes, QueryBond and Bond; the reference enumerator of the bounded part (oracles/o07_ref.py) judges matches by that same `==`,
# so the contracts that prove every `__eq__` equal to the documented predicate for all attribute values (shared with C08) are part of this check
DEDUCTIVE = [('contracts.isoops', None), ('contracts.query', None)]
FINISH = dict(rule='deductive: one obligation per path / table key; B: see run.bound entries of checks/b07.py',
              explanation='P: every query-atom class __eq__, QueryBond.__eq__ and Bond.__eq__ equal the documented predicate for all attribute values (the match relation the statement and the reference enumerator use); F: no memoised value read by this property\'s observables survives an edit it depends on (one obligation per covered mutator x cached key); P: comparison operators defined from mapping existence for all size pairs; B: mapping multisets against an exhaustive reference enumerator',
              trusted_base=['CPython', 'z3', 'pysym', 'oracles/o07_ref.py'])
replay = make_replay('C07')


def deductive(run):
    for mod, flt in DEDUCTIVE:
        run_cases(run, mod, select=(lambda c, flt=flt: flt is None or any(x in c.name for x in flt)))


def main(run):
    env.setup()
    if want(run, 'P') or want(run, 'T'):
      with anchored(run, 'C07/P'):
        deductive(run)
    if want(run, 'F'):
      with anchored(run, 'C07/F'):
        # the observables of this property are (or read) memoised values: no covered mutator leaves one of them stale (engine F restricted to the keys these observables read)
        from checks.fpart import run_F
        run_F(run, entry_points=['get_mapping', '_get_mapping', 'get_automorphism_mapping', 'is_substructure', 'is_equal', '_cython_compiled_structure', '_compiled_query', 'connected_components'])
    bounded_part(run, 'C07')
    return FINISH
