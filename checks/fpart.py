"""Engine F part shared by the properties that rest on cache coherence (C13 in full; C06, C17, C19 restricted to the cached keys their own
observables read).  See checks/c13.py and frames/engine.py."""
import ast

from vlib import env
from checks.common import t_oblig

NOT_COVERED_BY_F = {
    'calculate_cis_trans_from_2d': 'flush is guarded by `flag and clean_cache`; the correlation flag <-> writes needs path-sensitive reasoning',
    'implicify_hydrogens': 'writes happen in two loops (over to_remove and over fixed) before a flush guarded by to_remove',
    'neutralize': 'works on copies and chooses among them; writes to self are guarded by data-dependent conditions',
    'standardize_charges': 'pops atoms_order by hand between charge edits (in-place recomputation reasoning)',
    '__standardize / standardize / canonicalize': 'keep flags are data dependent (rule tables)',
}


def keys_read_by(model, entry_points):
    """cache keys the given methods / cached properties read, transitively (derived from the AST)"""
    out = set()
    for name in entry_points:
        f = model.lookup(name)
        if f is None:
            continue
        if f.key:
            out.add(f.key)
        out |= set(model.reads(f)[1])
    return out


def run_F(run, entry_points=None):
    """entry_points None: every cached key (C13); else only the keys read by those observables"""
    from contracts import cache
    want_key = None
    model, a = cache.analyzer()
    if entry_points is not None:
        ks = keys_read_by(model, entry_points)
        if not ks:
            from vlib.env import Unanchored
            raise Unanchored(f'none of {sorted(entry_points)} reads a cached key in this tree')
        want_key = ks.__contains__
        run.notes['F_keys_for_this_property'] = sorted(ks)
    else:
        want_key = lambda k: True
    for name, fs in sorted(model.funcs.items()):
        f = fs[0]
        if f.key:
            run.under_contract(f.file.replace(env.REPO + '/', ''), f'{f.cls.__name__}.{f.name} [cache key {f.key}]', ast.unparse(f.node))
    seen_fail = set()
    for label, meth, consts, pre in cache.MUTATORS:
        if label in NOT_COVERED_BY_F:
            continue
        f = model.lookup(meth)
        run.under_contract(f.file.replace(env.REPO + '/', ''), f'{f.cls.__name__}.{meth}', ast.unparse(f.node))
        n0 = len(a.obligations)
        fails = a.run_mutator(meth, consts=consts, pre_stale_all=pre, label=label)
        failed_keys = {x.key for x in fails if x.kind == 'exit-stale'}
        for k in sorted(a.all_keys):
            if not want_key(k):
                continue
            ok = k not in failed_keys
            kk = None
            if not ok:
                fl = next(x for x in fails if x.kind == 'exit-stale' and x.key == k)
                kk = run.violation(f'{label}:exit-stale:{k}', f'engine F: after {label} the cached value {k} may be out of date: {fl.detail} ({fl.where})',
                                   witness={'mutator': label, 'key': k, 'where': fl.where, 'read_set': sorted(a.rs[k][0])}, obligation=f'{label}:exit-coherent:{k}',
                                   solver_output=repr(fl), found_input=False)
            run.oblig(f'{label}:exit-coherent:{k}', ok, 'F', 'frames', 0.0, known=(kk == 'known'))
        for x in fails:
            if x.kind != 'exit-stale' and want_key(x.key):
                kk = run.violation(f'{label}:{x.kind}:{x.key}', f'engine F: inside {label} {x.detail} ({x.where})',
                                   witness={'mutator': label, 'key': x.key, 'where': x.where}, obligation=f'{label}:{x.kind}:{x.key}', solver_output=repr(x),
                                   found_input=False)
                run.oblig(f'{label}:{x.kind}:{x.key}', False, 'F', 'frames', 0.0, known=(kk == 'known'))
        for name, ok in a.obligations[n0:]:
            if ':exit-coherent' not in name and (entry_points is None or ok):
                run.oblig(name, ok, 'F', 'frames', 0.0)
    for fn_ in ('flush_cache', 'copy'):
        kk = a.kept_keys(fn_)
        for flag, allowed in (('keep_sssr', cache.DECLARED['sssr']), ('keep_components', cache.DECLARED['connected_components'])):
            for k in sorted(kk[flag]):
                if not want_key(k):
                    continue
                d = a.rs.get(k, (None,))[0]
                ok = d is not None and d <= allowed
                t_oblig(run, f'{fn_}({flag}=True)-keeps-only-keys-with-narrow-read-set[{k}]', ok, key=f'kept-key:{fn_}:{flag}:{k}',
                        what=f'{fn_}({flag}=True) keeps cache key {k} whose read-set {sorted(d) if d else "?"} is not inside {sorted(allowed)}: '
                             f'it survives writes it depends on', witness={'key': k, 'derived': sorted(d) if d else None}, engine='F')
    for k, decl in cache.DECLARED.items():
        if not want_key(k):
            continue
        d = a.rs[k][0]
        t_oblig(run, f'declared-read-set[{k}]', d <= decl, key=f'read-set:{k}',
                what=f'cache key {k} (kept by flush_cache/copy keep flags) reads {sorted(d - decl)} outside its declared read-set {sorted(decl)}',
                witness={'derived': sorted(d), 'declared': sorted(decl)}, engine='F')
    run.notes['not_covered_by_F'] = NOT_COVERED_BY_F
    run.notes['assumed_frame_facts'] = {'order_only': list(cache.ORDER_ONLY), 'labels_preserved': list(cache.LABELS_PRESERVED),
                                        'store_override': {k: {a_: sorted(b) for a_, b in v.items()} for k, v in cache.STORE_OVERRIDE.items()},
                                        'ring_family_kept': {k: list(v) for k, v in cache.TOPO_KEEPS.items()}, 'guards': [list(g) for g in cache.GUARDS]}

    return model, a
