"""C15 bounded stand-in (engine B): reactions - role-preserving I/O, order-free identity, exact condensed graph.

Contracts (from the property statement):
 A order     - format(r, spec) / str(r) / == / hash are the same for every order of the molecules inside each role
 B roundtrip - smiles(str(r)) restores the roles: per role the multiset of canonical molecule strings, component counts (f: block)
               and radical atoms (^1: block) (C01's documented stereo gaps filtered by oracles.o01_gaps, counted as gap hits)
 C identical sides => no reaction centre, nothing dynamic, CGR string without dynamic tokens
 D ground truth: product side made from the reactants by recorded edits (bond deleted / added / order changed, charge, radical,
               atom lost, atom gained; atom numbers kept) => center_atoms == exactly the edited atoms
 E exactness - every atom / bond of ~r carries (charge, p_charge, radical, p_radical) / (order, p_order) and is_dynamic exactly as an
               independent difference of the two mapped sides says (oracles/o15_diff.py); r1 ^ p1 agrees with ~r
 F renumbering - str(~r) is the same after one random permutation of the atom numbers applied to every molecule, and after
               re-ordering the molecules inside the roles
 G tokens    - distinct dynamic labels (order, p_order) / (charge, p_charge, radical, p_radical) give distinct CGR strings
"""
import itertools

from vlib import env
from vlib.report import pmap

RULE = ('non-trivial = reaction with >= 2 molecules in some role (order contract), any reaction (round trip), product side that '
        'differs from the reactant side (centre / exactness / renumbering); keys are (contract, canonical reaction string)')

SPECIALS = ['[Na+].[Cl-]', 'CC(=O)[O-].[K+]', '[NH4+].[Cl-]', 'C[N+](C)(C)C.[Br-]', '[Li+].CC[O-]', '[CH3] |^1:0|', 'C[CH]C |^1:1|',
            'CC[O] |^1:2|', '[OH] |^1:0|', 'CC(C)[CH2] |^1:3|', 'O', 'Cl', 'CO', 'CC(=O)O', 'C', 'N', '[H][H]', 'O=C=O',
            'C[C@H](N)C(=O)O', 'C/C=C/C', 'F[C@](Cl)(Br)I', 'C[C@H]1CC[C@@H](C)CC1', '[Na+].[Na+].[O-]S([O-])(=O)=O', 'c1ccccc1', 'CC(C)=O']

_POOL = None
_CGR_STR = True     # set by bounded(): False when str(cgr) raises for a trivial CGR (reported once; string contracts are then skipped)


def _pool():
    """parsed corpus molecules (<= 30 atoms) + special molecules; built once per worker process"""
    global _POOL
    if _POOL is None:
        from bounded import domains as D
        from chython import smiles
        pool = []
        for s in D.corpus_sample(500, 'c15-pool'):
            try:
                m = D.parse(s)
            except Exception:
                continue
            if len(m) <= 30:
                pool.append(m)
        special = []
        for s in SPECIALS:
            m = smiles(s)
            D.norm(m)
            special.append(m)
        _POOL = (pool, special)
    return _POOL


def _pick(r):
    pool, special = _pool()
    m = (r.choice(special) if r.random() < .3 else r.choice(pool)).copy()
    if r.random() < .12:      # radical at a random sp3 carbon of any molecule (exercises the ^1: block with non-trivial indices)
        cs = [n for n, a in m.atoms() if a.atomic_symbol == 'C' and a.hybridization == 1 and (a.implicit_hydrogens or 0) >= 1
              and not a.is_radical and not a.charge]
        if cs:
            m.kekule()        # edits are only defined on Kekule forms (docstrings of the mutators): edit there, then re-aromatise
            with m:
                m.atom(r.choice(cs)).is_radical = True
            m.thiele()
    return m


def _renumber_seq(ms, r, start=1):
    """distinct atom numbers over all molecules (random order inside each molecule)"""
    out, k = [], start
    for m in ms:
        nums = list(m)
        tgt = list(range(k, k + len(nums)))
        r.shuffle(tgt)
        c = m.copy()
        c.remap(dict(zip(nums, tgt)))
        k += len(nums) + r.randrange(0, 3)
        out.append(c)
    return out


class _Out:
    def __init__(self):
        self.n = 0
        self.keys = []
        self.samples = []
        self.viol = []
        self.gaps = 0
        self.notes = {}

    def case(self, n=1, key=None, sample=None):
        self.n += n
        if key is not None:
            self.keys.append(key)
        if sample is not None and all(x.get('contract') != sample.get('contract') for x in self.samples):
            self.samples.append(sample)

    def v(self, key, what, witness=None, native=None):
        self.viol.append((key, what, witness, native))

    def note(self, k, n=1):
        self.notes[k] = self.notes.get(k, 0) + n

    def pack(self):
        return self.n, self.keys, self.samples, self.viol, self.gaps, self.notes


def _role_strings(rx):
    return [sorted(str(m) for m in role) for role in (rx.reactants, rx.reagents, rx.products)]


def _witness(rx):
    return {'reaction_with_numbers': format(rx, 'm'), 'roles': [[format(m, 'm') for m in role] for role in (rx.reactants, rx.reagents, rx.products)]}


# ---- A + B -------------------------------------------------------------------------------------------------------------------------
def _order_and_roundtrip(i, r, out):
    from chython import ReactionContainer, smiles
    from bounded import domains as D
    from oracles import o01_gaps
    sizes = r.choice([(1, 0, 1), (2, 0, 1), (2, 1, 2), (0, 0, 2), (3, 0, 0), (1, 2, 1), (2, 0, 3), (3, 3, 3), (0, 2, 0), (1, 0, 0), (3, 1, 2),
                      (1, 3, 1), (2, 2, 2), (0, 1, 1)])
    ms = [_pick(r) for _ in range(sum(sizes))]
    if len(ms) > 1 and r.random() < .35:           # duplicates inside / across roles
        ms[r.randrange(len(ms))] = ms[r.randrange(len(ms))].copy()
    ms = _renumber_seq(ms, r)
    nr, ng, np_ = sizes
    R, G, P = ms[:nr], ms[nr:nr + ng], ms[nr + ng:]
    rx = ReactionContainer(R, P, G)
    s0 = str(rx)
    multi = max(sizes) >= 2
    # A: every order inside every role (<= 216 combinations; all of them up to 36, seeded 36 above)
    combos = list(itertools.product(itertools.permutations(R), itertools.permutations(G), itertools.permutations(P)))
    if len(combos) > 36:
        combos = [combos[0]] + r.sample(combos[1:], 35)
    specs = ('', 'm', 'h', 'A', '!s', 'a', '!x', '!z', '!b')
    ref = {sp: format(rx, sp) for sp in specs}
    for R2, G2, P2 in combos:
        r2 = ReactionContainer(R2, P2, G2)
        out.case(1, key=('order', s0) if multi else None,
                 sample={'contract': 'order inside roles', 'reaction': s0, 'roles': list(sizes)} if multi else None)
        bad = [sp for sp in specs if format(r2, sp) != ref[sp]]
        if str(r2) != s0 or bad or not (r2 == rx) or hash(r2) != hash(rx):
            out.v(f'order:{s0}', f'reaction string depends on the order of molecules inside a role (specs {bad or ["str/==/hash"]}): {s0} vs {r2}',
                  witness={**_witness(rx), 'permuted_roles': [[format(m, 'm') for m in role] for role in (R2, G2, P2)]},
                  native={'original': s0, 'permuted': str(r2), 'specs': bad})
            break
    # B: round trip
    gap = any(any(o01_gaps.gaps(m)) for m in ms)
    try:
        back = smiles(s0)
    except Exception as e:
        out.case(1, key=('roundtrip', s0))
        out.v(f'roundtrip-raises:{s0}', f'smiles(str(r)) raises {type(e).__name__}: {e}', witness=_witness(rx), native=repr(e))
        return
    from chython import ReactionContainer as RC
    if not isinstance(back, RC):
        out.v(f'roundtrip:{s0}', f'smiles(str(r)) is not a reaction: {type(back).__name__}', witness=_witness(rx), native=str(back))
        return
    try:
        for m in back.molecules():
            D.norm(m)
    except Exception as e:   # the original molecules were normalised without error: the re-read ones are not the same molecules
        out.case(1, key=('roundtrip', s0))
        out.v(f'roundtrip:{s0}', f'molecules re-read from str(r) cannot be normalised ({type(e).__name__}: {e}): {s0} -> {back}', witness=_witness(rx),
              native={'str_back': str(back), 'error': repr(e)})
        return
    back.flush_cache(keep_molecule_cache=True)
    out.case(1, key=('roundtrip', s0), sample={'contract': 'round trip', 'reaction': s0})
    exp, got = _role_strings(rx), _role_strings(back)
    cc_exp = [sorted(m.connected_components_count for m in role) for role in (rx.reactants, rx.reagents, rx.products)]
    cc_got = [sorted(m.connected_components_count for m in role) for role in (back.reactants, back.reagents, back.products)]
    rad_exp = [sorted(sum(a.is_radical for _, a in m.atoms()) for m in role) for role in (rx.reactants, rx.reagents, rx.products)]
    rad_got = [sorted(sum(a.is_radical for _, a in m.atoms()) for m in role) for role in (back.reactants, back.reagents, back.products)]
    if exp != got or cc_exp != cc_got or rad_exp != rad_got or str(back) != s0:
        if gap and cc_exp == cc_got and rad_exp == rad_got and [len(x) for x in exp] == [len(x) for x in got]:
            out.gaps += 1     # only canonical strings of gap molecules may differ
        else:
            out.v(f'roundtrip:{s0}', f'smiles(str(r)) does not restore the roles / molecules of {s0}: got {back}', witness=_witness(rx),
                  native={'expected_roles': exp, 'got_roles': got, 'components': [cc_exp, cc_got], 'radicals': [rad_exp, rad_got], 'str_back': str(back)})


# ---- C .. F ------------------------------------------------------------------------------------------------------------------------
def _edits(u, r, k, next_num):
    """choose k recorded edits on the union molecule u (no two edits share an atom); returns [(kind, atoms, args)]"""
    atoms, bonds = u._atoms, u._bonds
    cand = []
    for n, m, b in u.bonds():
        if not b.in_ring and b.order in (1, 2, 3):
            cand.append(('del_bond', (n, m), b.order))
            if b.order == 1 and atoms[n].hybridization == 1 and atoms[m].hybridization == 1 and (atoms[n].implicit_hydrogens or 0) >= 1 \
                    and (atoms[m].implicit_hydrogens or 0) >= 1:
                cand.append(('order', (n, m), (1, 2)))
            elif b.order in (2, 3):
                cand.append(('order', (n, m), (b.order, b.order - 1)))
    hs = [n for n, a in atoms.items() if (a.implicit_hydrogens or 0) >= 1 and a.hybridization != 4]
    for _ in range(6):
        if len(hs) >= 2:
            a, b = r.sample(hs, 2)
            if b not in bonds[a]:
                cand.append(('add_bond', (a, b), 1))
    for n, a in atoms.items():
        if a.charge == 0 and not a.is_radical and a.hybridization != 4:
            if a.atomic_symbol == 'N':
                cand.append(('charge', (n,), 1))
            elif a.atomic_symbol in ('O', 'S') and (a.implicit_hydrogens or 0) >= 1:
                cand.append(('charge', (n,), -1))
            elif a.atomic_symbol == 'C' and (a.implicit_hydrogens or 0) >= 1 and a.hybridization == 1:
                cand.append(('radical', (n,), True))
        elif a.charge and not a.is_radical and len(bonds[n]) <= 1:
            cand.append(('charge', (n,), 0))
        elif a.is_radical and not a.charge:
            cand.append(('radical', (n,), False))
        if len(bonds[n]) == 1 and len(atoms) > 2 and next(iter(bonds[n].values())).order in (1, 2, 3):
            cand.append(('del_atom', (n, next(iter(bonds[n]))), None))
    for n in r.sample(hs, min(3, len(hs))):
        cand.append(('add_atom', (n,), r.choice(['O', 'C', 'Cl', 'N'])))
    r.shuffle(cand)
    # favour variety: one candidate per kind first
    byk = {}
    for c in cand:
        byk.setdefault(c[0], []).append(c)
    kinds = list(byk)
    r.shuffle(kinds)
    chosen, used = [], set()
    for kind in kinds * 3:
        if len(chosen) >= k:
            break
        for c in byk[kind]:
            if used.isdisjoint(c[1]):
                if c[0] == 'add_atom':
                    c = (c[0], (c[1][0], next_num), c[2])
                    next_num += 1
                chosen.append(c)
                used.update(c[1])
                byk[kind].remove(c) if c in byk[kind] else None
                break
    return chosen


def _apply(p, edits):
    with p:
        for kind, at, arg in edits:
            if kind == 'del_bond':
                p.delete_bond(*at)
            elif kind == 'add_bond':
                p.add_bond(at[0], at[1], arg)
            elif kind == 'order':
                p.delete_bond(*at)
                p.add_bond(at[0], at[1], arg[1])
            elif kind == 'charge':
                p.atom(at[0]).charge = arg
            elif kind == 'radical':
                p.atom(at[0]).is_radical = arg
            elif kind == 'del_atom':
                p.delete_atom(at[0])
            elif kind == 'add_atom':
                p.add_atom(arg, at[1])
                p.add_bond(at[0], at[1], 1)


def _s(cgr):
    try:
        return str(cgr)
    except Exception as e:
        return f'<str raises {type(e).__name__}: {e}>'


def _check_cgr(cgr, left, right, tag, s0, wit, out, expected_centre=None):
    """E (+ D when expected_centre is given) for one condensed graph"""
    from oracles import o15_diff as O
    ea, eb, ec = O.diff(left, right)
    ga, gb, dyn_a, dyn_b, asym = O.cgr_view(cgr)
    centre = set(cgr.center_atoms)
    bad = []
    if asym:
        bad.append(('adjacency-not-symmetric', asym[:4]))
    if set(ga) != set(ea):
        bad.append(('atom-set', sorted(set(ga) ^ set(ea))))
    if set(gb) != set(eb):
        bad.append(('bond-set', sorted(map(sorted, set(gb) ^ set(eb)))))
    for n in set(ga) & set(ea):
        if ga[n] != ea[n]:
            bad.append(('atom-labels', n, ga[n], ea[n]))
        if (n in dyn_a) != (ea[n][0] != ea[n][1] or ea[n][2] != ea[n][3]):
            bad.append(('atom-is_dynamic', n, n in dyn_a, ea[n]))
    for e in set(gb) & set(eb):
        if gb[e] != eb[e]:
            bad.append(('bond-orders', sorted(e), gb[e], eb[e]))
        if (e in dyn_b) != (eb[e][0] != eb[e][1]):
            bad.append(('bond-is_dynamic', sorted(e), e in dyn_b, eb[e]))
    if centre != ec:
        bad.append(('center_atoms-vs-diff', sorted(centre), sorted(ec)))
    if len(cgr.center_atoms) != len(centre):
        bad.append(('center_atoms-duplicates', list(cgr.center_atoms)))
    if expected_centre is not None and centre != expected_centre:
        bad.append(('center_atoms-vs-recorded-edits', sorted(centre), sorted(expected_centre)))
    out.case(len(ea) + len(eb) + 1)
    if bad:
        out.v(f'{tag}:{s0}', f'condensed graph of {s0} differs from the independent difference of its sides: {bad[:3]}', witness=wit,
              native={'differences': bad[:12], 'cgr': _s(cgr)})
    return not bad


def _cgr_contracts(i, r, out):
    from chython import ReactionContainer
    from chython.containers import MoleculeContainer
    from oracles import o15_diff as O
    from functools import reduce
    from operator import or_
    nr = r.choice((1, 1, 2, 2, 3))
    ms = _renumber_seq([_pick(r) for _ in range(nr + 1)], r)
    R, G = ms[:nr], (ms[nr:] if r.random() < .4 else [])
    # C: identical sides
    same = ReactionContainer(R, [m.copy() for m in R], G)
    cg = ~same
    sid = str(same)
    out.case(1, key=('identical-sides', sid))
    token = _CGR_STR and any(t in str(cg) for t in ('>', '[.', '.]'))
    if cg.center_atoms != () or any(a.is_dynamic for _, a in cg.atoms()) or any(b.is_dynamic for *_, b in cg.bonds()) or token:
        out.v(f'self-centre:{sid}', f'identical sides but center_atoms = {cg.center_atoms} / dynamic labels present in {cg}', witness=_witness(same),
              native={'center_atoms': list(cg.center_atoms), 'cgr': _s(cg)})
    m0 = R[0]
    c0 = m0 ^ m0.copy()
    if c0.center_atoms != () or (_CGR_STR and str(c0) != str(~ReactionContainer([m0], [m0.copy()]))):
        out.v(f'self-centre-xor:{m0}', f'm ^ m.copy() has centre {c0.center_atoms} or differs from ~(m>>m)', witness={'molecule': format(m0, 'm')},
              native={'center_atoms': list(c0.center_atoms), 'cgr': str(c0)})

    # D/E/F: recorded edits
    u = reduce(or_, R) if len(R) > 1 else R[0].copy()
    top = max(max(m) for m in ms) + 1
    k = r.choice((1, 1, 2, 2, 3))
    edits = _edits(u, r, k, top)
    if not edits:
        out.note('no-edit-candidates')
        return
    p = u.copy()
    try:
        _apply(p, edits)
    except Exception as e:
        out.note(f'edit-rejected:{type(e).__name__}')
        return
    prods = p.split() if p.connected_components_count > 1 else [p]
    dropped = False
    if len(prods) > 1 and r.random() < .3:
        prods.pop(r.randrange(len(prods)))
        dropped = True
    r.shuffle(prods)
    rx = ReactionContainer(R, prods, G)
    s0 = str(rx)
    wit = {**_witness(rx), 'edits': [(kd, list(at), arg) for kd, at, arg in edits], 'fragment_dropped': dropped}
    touched = set()
    for kd, at, arg in edits:
        touched.update(at)
    try:
        cgr = ~rx
    except Exception as e:
        out.v(f'compose-raises:{s0}', f'~r raises {type(e).__name__}: {e}', witness=wit, native=repr(e))
        return
    left, right = O.side_view(list(G) + list(R)), O.side_view(prods)
    out.keys.append(('cgr', s0))
    if all(x.get('contract') != 'centre = recorded edits' for x in out.samples):
        out.samples.append({'contract': 'centre = recorded edits', 'reaction': s0, 'edits': wit['edits'], 'center_atoms': sorted(cgr.center_atoms)})
    ok = _check_cgr(cgr, left, right, 'cgr', s0, wit, out, expected_centre=None if dropped else touched)
    # molecule-level operator on the two unions
    lu = reduce(or_, list(G) + list(R)) if len(G) + len(R) > 1 else R[0]
    ru = reduce(or_, prods) if len(prods) > 1 else prods[0]
    x = lu ^ ru
    out.case(1)
    from oracles.o15_diff import cgr_view
    if cgr_view(x)[:4] != cgr_view(cgr)[:4] or set(x.center_atoms) != set(cgr.center_atoms) or (_CGR_STR and str(x) != str(cgr)):
        out.v(f'xor-vs-invert:{s0}', f'(reactants ^ products) = {_s(x)} but ~r = {_s(cgr)}', witness=wit, native={'xor': _s(x), 'invert': _s(cgr)})
    if not ok or not _CGR_STR:
        return
    # F: consistent renumbering of both sides + order inside roles
    s_cgr = str(cgr)
    nums = sorted(set().union(*(set(m) for m in rx.molecules())))
    for t in range(3):
        tgt = nums[:]
        r.shuffle(tgt)
        if t == 2:
            tgt = [x + 1000 for x in tgt]
        mp = dict(zip(nums, tgt))
        def rn(m):
            c = m.copy()
            c.remap({n: mp[n] for n in c})
            return c
        R2, G2, P2 = [rn(m) for m in R], [rn(m) for m in G], [rn(m) for m in prods]
        r.shuffle(R2)
        r.shuffle(P2)
        rx2 = ReactionContainer(R2, P2, G2)
        c2 = ~rx2
        out.case(1, key=('renumber', s0))
        if str(c2) != s_cgr or {mp[n] for n in cgr.center_atoms} != set(c2.center_atoms) or str(rx2) != s0:
            from oracles import o01_gaps
            if any(any(o01_gaps.gaps(m)) for m in rx.molecules()) and {mp[n] for n in cgr.center_atoms} == set(c2.center_atoms):
                out.gaps += 1
                continue
            out.v(f'renumber:{s0}', f'str(~r) changes under a consistent renumbering of both sides: {s_cgr} vs {c2}',
                  witness={**wit, 'permutation': mp}, native={'original': s_cgr, 'renumbered': str(c2), 'reaction_renumbered': str(rx2)})
            break


def _reaction(i):
    from bounded import domains as D
    out = _Out()
    r = D.rnd(f'c15:{i}')
    _order_and_roundtrip(i, r, out)
    _cgr_contracts(i, r, out)
    return out.pack()


# ---- G: dynamic tokens ---------------------------------------------------------------------------------------------------------------
def _tokens(run):
    from chython.containers import MoleculeContainer
    from chython.periodictable import C, N
    from chython.algorithms import smiles as S

    def two(order):
        m = MoleculeContainer()
        m.add_atom(C(), 1, _skip_calculation=True)
        m.add_atom(C(), 2, _skip_calculation=True)
        if order is not None:
            m.add_bond(1, 2, order, _skip_calculation=True)
        return m
    orders = (None, 1, 2, 3, 4, 8)
    seen = {}
    for o, p in itertools.product(orders, repeat=2):
        if o is None and p is None:
            continue
        c = two(o) ^ two(p)
        s = str(c) if _CGR_STR else None
        b = c._bonds[1].get(2)
        run.case(1, key=('token-order', o, p))
        if b is None or (b.order, b.p_order) != (o, p) or b.is_dynamic != (o != p):
            run.violation(f'tokens:order:{o}>{p}', f'C-C with order {o} -> {p}: composed bond is {b!r}', witness={'order': o, 'p_order': p}, native=repr(b))
        if s is not None and s in seen:
            run.violation(f'tokens:order:{o}>{p}', f'dynamic bonds {seen[s]} and {(o, p)} give the same CGR string {s}',
                          witness={'labels': [seen[s], (o, p)]}, native=s)
        seen[s] = (o, p)
    seen = {}
    for c1, c2, r1, r2 in itertools.product(range(-4, 5), range(-4, 5), (False, True), (False, True)):
        a, b = MoleculeContainer(), MoleculeContainer()
        a.add_atom(N(charge=c1, is_radical=r1), 1, _skip_calculation=True)
        b.add_atom(N(charge=c2, is_radical=r2), 1, _skip_calculation=True)
        c = a ^ b
        s = str(c) if _CGR_STR else None
        at = c._atoms[1]
        run.case(1, key=('token-atom', c1, c2, r1, r2))
        if (at.charge, at.p_charge, at.is_radical, at.p_is_radical) != (c1, c2, r1, r2) or at.is_dynamic != (c1 != c2 or r1 != r2):
            run.violation(f'tokens:atom:{c1}>{c2}:{r1}>{r2}', f'N atom ({c1},{r1}) -> ({c2},{r2}): composed atom carries '
                          f'{(at.charge, at.p_charge, at.is_radical, at.p_is_radical)}, is_dynamic={at.is_dynamic}',
                          witness={'charge': c1, 'p_charge': c2, 'radical': r1, 'p_radical': r2})
        if s is not None and s in seen:
            run.violation(f'tokens:atom:{c1}>{c2}:{r1}>{r2}', f'dynamic atoms {seen[s]} and {(c1, c2, r1, r2)} give the same CGR string {s}',
                          witness={'labels': [seen[s], (c1, c2, r1, r2)]}, native=s)
        seen[s] = (c1, c2, r1, r2)
    # the tables themselves: injective, dynamic tokens disjoint from the static ones
    for name in ('dyn_order_str', 'dyn_charge_str', 'dyn_radical_str'):
        t = getattr(S, name)
        vals = [v for v in t.values() if v != '']
        run.case(len(t))
        if len(set(vals)) != len(vals):
            run.violation(f'tokens:table:{name}', f'{name} maps two labels to one token', witness={k.__repr__(): v for k, v in t.items()})


def bounded(run):
    quick = run.tier == 'quick'
    n = 300 if quick else 3000
    run.assume('atoms present on one side only are spectators: not dynamic, bonds among them unchanged, bonds to atoms present on both sides '
               'broken / formed (reading documented in MoleculeContainer.compose); the independent difference is oracles/o15_diff.py',
               'C01 gap predicates (oracles/o01_gaps.py, fixed in DESIGN §2 C01) decide which molecules may legitimately change their '
               'canonical string on re-reading / renumbering: counted as gap hits, never judged',
               'molecules are compared after kekule(); thiele() (bounded-check lessons)')
    run.bound(f'{n} seeded reactions from <= 500 corpus molecules with <= 30 atoms + {len(SPECIALS)} special molecules (multi-component salts, '
              f'radicals, small reagents, stereo labelled); 0-3 molecules per role incl. empty roles and duplicates; all orders inside roles '
              f'(<= 36 combinations) x 9 format specs; 1-3 recorded edits per mapped reaction out of 8 kinds; 3 consistent renumberings; '
              f'dynamic tokens: all 35 (order, p_order) pairs on C-C, all 324 (charge, p_charge, radical, p_radical) on N')
    global _CGR_STR
    from chython import smiles
    probe = smiles('[CH3:1][CH2:2][OH:3]>>[CH3:1][CH:2]=[O:3]')
    try:
        _CGR_STR = isinstance(str(~probe), str) and isinstance(hash(~probe), int)
    except Exception as e:
        _CGR_STR = False
        run.case(1, key=('cgr-str', str(probe)))
        run.violation(f'cgr-str-raises:{type(e).__name__}', f'str(~r) / hash(~r) raise {type(e).__name__}: {e} for the condensed graph of {probe} '
                      f'(and of every other reaction): the canonical CGR string of C15 does not exist; renumbering and token contracts skipped',
                      witness={'reaction': format(probe, 'm')}, native=repr(e))
    _tokens(run)
    gaps, notes = 0, {}
    shown = {}
    for nc, keys, samples, viol, g, nt in pmap(_reaction, range(n), chunksize=4):
        run.cases += nc
        for kx in keys:
            run.case(0, key=kx)
        for sx in samples:
            if shown.get(sx.get('contract'), 0) < 2:     # two samples per contract in the evidence
                shown[sx.get('contract')] = shown.get(sx.get('contract'), 0) + 1
                run.case(0, sample=sx)
        for v in viol:
            run.violation(v[0], v[1], witness=v[2], native=v[3])
        gaps += g
        for kx, c in nt.items():
            notes[kx] = notes.get(kx, 0) + c
    run.notes['c15_gap_hits'] = gaps
    if notes:
        run.notes['c15_notes'] = notes


def replay(rec):
    """re-run the seeded reaction that produced the witness is not possible from the key alone: rebuild from the recorded roles"""
    from chython import smiles, ReactionContainer
    from bounded import domains as D
    w = rec.get('witness') or {}
    roles = w.get('roles')
    if rec['key'].startswith('tokens:') or rec['key'].startswith('cgr-str-raises'):
        class R:      # minimal recorder with the Run interface used by _tokens
            def __init__(self):
                self.keys = []
            def case(self, *a, **k):
                pass
            def violation(self, key, what, **k):
                print(what)
                self.keys.append(key)
        rr = R()
        try:
            _tokens(rr)
        except Exception as e:
            print(type(e).__name__, e)
            return False
        return rec['key'] not in rr.keys
    if not roles:
        return False
    ms = []
    for role in roles:
        cur = []
        for t in role:
            m = smiles(t)
            D.norm(m)
            cur.append(m)
        ms.append(cur)
    rx = ReactionContainer(ms[0], ms[2], ms[1])
    print('reaction', rx)
    key = rec['key']
    ok = True
    if key.startswith('order:'):
        for R2 in itertools.permutations(ms[0]):
            for P2 in itertools.permutations(ms[2]):
                for G2 in itertools.permutations(ms[1]):
                    ok &= str(ReactionContainer(R2, P2, G2)) == str(rx)
    elif key.startswith('renumber:'):
        mp = {int(k): v for k, v in w['permutation'].items()}
        def rn(m):
            c = m.copy()
            c.remap({n: mp[n] for n in c})
            return c
        r2 = ReactionContainer([rn(m) for m in ms[0]][::-1], [rn(m) for m in ms[2]][::-1], [rn(m) for m in ms[1]])
        print('CGR', ~rx, '\nCGR renumbered', ~r2)
        ok = str(~r2) == str(~rx) and str(r2) == str(rx)
    elif key.startswith('roundtrip'):
        back = smiles(str(rx))
        for m in back.molecules():
            D.norm(m)
        ok = _role_strings(back) == _role_strings(rx)
        print('back', back)
    else:
        from oracles import o15_diff as O
        out = _Out()
        ok = _check_cgr(~rx, O.side_view(ms[1] + ms[0]), O.side_view(ms[2]), 'cgr', str(rx), w, out)
        for v in out.viol:
            print(v[1])
    return bool(ok)
