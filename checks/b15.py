"""C15 bounded stand-in (engine B): reactions - role-preserving I/O, order-free identity, exact condensed graph.

Contracts (from the property statement):
 A order     - format(r, spec) / str(r) / == / hash are the same for every order of the molecules inside each role
 B roundtrip - smiles(str(r)) restores the roles: per role the multiset of canonical molecule strings, component counts (f: block)
               and radical atoms (^1: block) (C01's documented stereo gaps filtered by oracles.o01_gaps, counted as gap hits)
 C identical sides => no reaction centre, nothing dynamic, CGR string without dynamic tokens
 D ground truth: product side made from the reactants by recorded edits (bond deleted / added / order changed, charge, radical,
               atom lost, atom gained; atom numbers kept) => center_atoms == exactly the edited atoms
 E exactness - every atom / bond of ~r carries (charge, p_charge, radical, p_radical) / (order, p_order) and is_dynamic exactly as an
               independent difference of the two mapped sides says (oracles/o15_diff.py); r1 ^ p1 agrees with ~r
 F renumbering - str(~r) is the same after one random permutation of the atom numbers applied to every molecule, and after
               re-ordering the molecules inside the roles
 G tokens    - distinct dynamic labels (order, p_order) / (charge, p_charge, radical, p_radical) give distinct CGR strings

Audit extension (same contracts, wider domain; bounds stated by the second run.bound of bounded(); finding families with input-decided keys:
order:radical-tie, roundtrip-m:atom-number>9999, renumber:equivalent-neighbours-different-bonds (oracles/o15_ties.py)):
 A  also for molecules numbered 1..n each (overlapping numbers, the usual result of separate smiles() calls), numbers > 999, combined
    specs; r.copy(); ties of the role sort key (molecules whose bare SMILES agree but whose radical atoms differ)
 B  also for the written forms 'm' 'h' 'A' 'a' 'mh' and '!c' (order inside the roles kept exactly) and for the reader options
    ignore=False, remap=True, keep_implicit=True, ignore_aromatic_radicals=False, ignore_stereo=True (stereo-free comparison);
    'm' restores the atom numbers
 C  also one-sided reactions (no reactants / no products / reagents only): nothing dynamic, E holds with an empty side
 D/E also ring bonds, edits that share an atom (bond + charge / radical on the same atom), metal ions changing a multiple charge,
    isotope labelled and explicit-hydrogen molecules, one side in Kekule and the other in aromatic form (dynamic aromatic bonds);
    every CGR atom keeps element and isotope of its atom
 F  also through the reader: smiles(format(r, 'm')) has the same condensed graph string, with remap=True as well (a consistent
    renumbering of both sides made by the library itself)
"""
import itertools

from vlib import env
from vlib.report import pmap

RULE = ('non-trivial = reaction with >= 2 molecules in some role (order contract), any reaction (round trip), product side that '
        'differs from the reactant side (centre / exactness / renumbering); keys are (contract, canonical reaction string)')

SPECIALS = ['[Na+].[Cl-]', 'CC(=O)[O-].[K+]', '[NH4+].[Cl-]', 'C[N+](C)(C)C.[Br-]', '[Li+].CC[O-]', '[CH3] |^1:0|', 'C[CH]C |^1:1|',
            'CC[O] |^1:2|', '[OH] |^1:0|', 'CC(C)[CH2] |^1:3|', 'O', 'Cl', 'CO', 'CC(=O)O', 'C', 'N', '[H][H]', 'O=C=O',
            'C[C@H](N)C(=O)O', 'C/C=C/C', 'F[C@](Cl)(Br)I', 'C[C@H]1CC[C@@H](C)CC1', '[Na+].[Na+].[O-]S([O-])(=O)=O', 'c1ccccc1', 'CC(C)=O',
            # audit: isotopes, multiply charged metal ions, explicit hydrogens, charge separated groups, aromatic hetero atoms with / without H
            '[2H]O[2H]', 'C[13CH2]O', '[13CH4]', 'CC(=[18O])O', '[Fe+2].[Cl-].[Cl-]', '[Cu+]', '[Zn+2]', '[Fe+3]', '[H]C([H])([H])O',
            'C[N+](=O)[O-]', 'c1ccncc1', 'c1cc[nH]c1', '[O-][n+]1ccccc1', 'Cc1ccccc1Br', 'OC1CCCCC1', 'C1CC=CCC1', '[Pd]', '[Li]CCCC']
METALS = {'Fe': (2, 3), 'Cu': (1, 2), 'Zn': (2,), 'Pd': (0, 2), 'Li': (), 'Na': (), 'K': ()}
TIES = [('[Na]', '[Na] |^1:0|'), ('[Li]', '[Li] |^1:0|'), ('[K]', '[K] |^1:0|')]     # equal bare SMILES, different radical state

_POOL = None
_CGR_STR = True     # set by bounded(): False when str(cgr) raises for a trivial CGR (reported once; string contracts are then skipped)


def _pool():
    """parsed corpus molecules (<= 30 atoms) + special molecules; built once per worker process"""
    global _POOL
    if _POOL is None:
        from bounded import domains as D
        from chython import smiles
        pool = []
        for s in D.corpus_sample(500, 'c15-pool'):
            try:
                m = D.parse(s)
            except Exception:
                continue
            if len(m) <= 30:
                pool.append(m)
        special = []
        for s in SPECIALS:
            m = smiles(s)
            D.norm(m)
            special.append(m)
        _POOL = (pool, special)
    return _POOL


def _pick(r):
    pool, special = _pool()
    m = (r.choice(special) if r.random() < .3 else r.choice(pool)).copy()
    if r.random() < .12:      # radical at a random sp3 carbon of any molecule (exercises the ^1: block with non-trivial indices)
        cs = [n for n, a in m.atoms() if a.atomic_symbol == 'C' and a.hybridization == 1 and (a.implicit_hydrogens or 0) >= 1
              and not a.is_radical and not a.charge]
        if cs:
            m.kekule()        # edits are only defined on Kekule forms (docstrings of the mutators): edit there, then re-aromatise
            with m:
                m.atom(r.choice(cs)).is_radical = True
            m.thiele()
    return m


def _renumber_seq(ms, r, start=1, overlap=False):
    """distinct atom numbers over all molecules (random order inside each molecule); overlap=True: every molecule numbered from
    `start` on its own (what separate smiles() calls give)"""
    out, k = [], start
    for m in ms:
        nums = list(m)
        tgt = list(range(k, k + len(nums)))
        r.shuffle(tgt)
        c = m.copy()
        c.remap(dict(zip(nums, tgt)))
        if not overlap:
            k += len(nums) + r.randrange(0, 3)
        out.append(c)
    return out


def _start(r):
    """first atom number: mostly 1, sometimes across the 3 -> 4 digit border, sometimes across the 4 -> 5 digit border"""
    return r.choice((1, 1, 1, 1, 7, 990, 1000, 4090, 9990))


class _Out:
    def __init__(self):
        self.n = 0
        self.keys = []
        self.samples = []
        self.viol = []
        self.gaps = 0
        self.notes = {}

    def case(self, n=1, key=None, sample=None):
        self.n += n
        if key is not None:
            self.keys.append(key)
        if sample is not None and all(x.get('contract') != sample.get('contract') for x in self.samples):
            self.samples.append(sample)

    def v(self, key, what, witness=None, native=None):
        self.viol.append((key, what, witness, native))

    def note(self, k, n=1):
        self.notes[k] = self.notes.get(k, 0) + n

    def pack(self):
        return self.n, self.keys, self.samples, self.viol, self.gaps, self.notes


def _role_strings(rx):
    return [sorted(str(m) for m in role) for role in (rx.reactants, rx.reagents, rx.products)]


def _witness(rx):
    return {'reaction_with_numbers': format(rx, 'm'), 'roles': [[format(m, 'm') for m in role] for role in (rx.reactants, rx.reagents, rx.products)]}


# ---- A + B -------------------------------------------------------------------------------------------------------------------------
RT_SPECS = ('m', 'h', 'A', 'a', 'mh', '!c', 'm!c')                       # written forms that keep the whole molecule (besides '')
RT_OPTS = ({'ignore': False}, {'remap': True}, {'keep_implicit': True}, {'ignore_aromatic_radicals': False}, {'ignore_stereo': True})


def _roles(rx):
    return rx.reactants, rx.reagents, rx.products


def _bare(m, spec=''):
    """the sort key ReactionContainer.__format__ uses for m: its SMILES without the CX block"""
    return m.__format__(spec, _return_order=True)[0]


def _radical_tie(rx, specs):
    """independent predicate for the finding family order:radical-tie - some role holds two molecules whose bare SMILES (the role
    sort key) agree under one of the specs while the positions of their radical atoms in that SMILES differ"""
    for role in _roles(rx):
        for sp in specs:
            seen = {}
            for m in role:
                s, o = m.__format__(sp, _return_order=True)
                rad = tuple(i for i, n in enumerate(o) if m.atom(n).is_radical)
                if seen.setdefault(s, rad) != rad:
                    return True
    return False


def _big_numbers(rx):
    return any(n > 9999 for m in rx.molecules() for n in m)


def _describe(rx, stereo=True, ordered=False):
    """what a re-read reaction has to restore: per role the canonical strings, component counts and radical counts of its molecules"""
    sp = '' if stereo else '!s'
    d = [[(format(m, sp), m.connected_components_count, sum(a.is_radical for _, a in m.atoms())) for m in role] for role in _roles(rx)]
    return d if ordered else [sorted(x) for x in d]


def _roundtrip(rx, s0, spec, kw, gap, unique_numbers, out):
    """B for one written form and one set of reader options"""
    from chython import smiles, ReactionContainer as RC
    from bounded import domains as D
    tag = 'roundtrip' if not spec and not kw else f'roundtrip[{spec}|{",".join(f"{k}={v}" for k, v in kw.items())}]'
    text = format(rx, spec) if spec else s0
    wit = {**_witness(rx), 'written': text, 'spec': spec, 'reader_options': kw}
    out.case(1, key=(tag, s0), sample={'contract': 'round trip' if tag == 'roundtrip' else 'round trip, other forms / reader options',
                                       'reaction': s0, 'written': text, 'options': kw})
    try:
        back = smiles(text, **kw)
    except Exception as e:
        # finding family decided on the input alone: the m form of a reaction with an atom number of more than 4 digits
        key = 'roundtrip-m:atom-number>9999' if 'm' in spec and _big_numbers(rx) else f'{tag}-raises:{s0}'
        out.v(key, f'smiles({text!r}, {kw}) raises {type(e).__name__}: {e}', witness=wit, native=repr(e))
        return
    if not isinstance(back, RC):
        out.v(f'{tag}:{s0}', f'smiles({text!r}) is not a reaction: {type(back).__name__}', witness=wit, native=str(back))
        return
    numbers = None
    if 'm' in spec and 'remap' not in kw and unique_numbers:
        numbers = ([sorted(tuple(sorted(m)) for m in role) for role in _roles(rx)], [sorted(tuple(sorted(m)) for m in role) for role in _roles(back)])
    try:
        for m in back.molecules():
            D.norm(m)
    except Exception as e:   # the original molecules were normalised without error: the re-read ones are not the same molecules
        out.v(f'{tag}:{s0}', f'molecules re-read from {text!r} cannot be normalised ({type(e).__name__}: {e}): -> {back}', witness=wit,
              native={'str_back': str(back), 'error': repr(e)})
        return
    back.flush_cache(keep_molecule_cache=True)
    stereo = not kw.get('ignore_stereo')
    ordered = '!c' in spec
    exp, got = _describe(rx, stereo, ordered), _describe(back, stereo, ordered)
    bad = exp != got or (stereo and str(back) != s0)
    if bad:
        lossless = [[x[1:] for x in role] for role in exp] == [[x[1:] for x in role] for role in got]
        if gap and (lossless if ordered else [sorted(x[1:] for x in role) for role in exp] == [sorted(x[1:] for x in role) for role in got]):
            out.gaps += 1     # only canonical strings of gap molecules may differ
        else:
            out.v(f'{tag}:{s0}', f'smiles({text!r}, {kw}) does not restore the roles / molecules of {s0}: got {back}', witness=wit,
                  native={'expected_roles (string, components, radicals)': exp, 'got_roles': got, 'str_back': str(back)})
            return
    if numbers is not None and numbers[0] != numbers[1]:
        out.v(f'{tag}-numbers:{s0}', f'smiles({text!r}) does not restore the atom numbers written with the m form', witness=wit,
              native={'expected': numbers[0], 'got': numbers[1]})


def _order_and_roundtrip(i, r, out):
    from chython import ReactionContainer, smiles
    from bounded import domains as D
    from oracles import o01_gaps
    sizes = r.choice([(1, 0, 1), (2, 0, 1), (2, 1, 2), (0, 0, 2), (3, 0, 0), (1, 2, 1), (2, 0, 3), (3, 3, 3), (0, 2, 0), (1, 0, 0), (3, 1, 2),
                      (1, 3, 1), (2, 2, 2), (0, 1, 1), (0, 0, 1), (0, 3, 0), (0, 1, 0), (0, 2, 3), (3, 2, 0)])
    ms = [_pick(r) for _ in range(sum(sizes))]
    if len(ms) > 1 and r.random() < .35:           # duplicates inside / across roles
        ms[r.randrange(len(ms))] = ms[r.randrange(len(ms))].copy()
    overlap = r.random() < .3                      # audit: every molecule numbered from the same start (numbers shared between molecules)
    ms = _renumber_seq(ms, r, start=_start(r), overlap=overlap)
    nr, ng, np_ = sizes
    R, G, P = ms[:nr], ms[nr:nr + ng], ms[nr + ng:]
    rx = ReactionContainer(R, P, G)
    s0 = str(rx)
    multi = max(sizes) >= 2
    # A: every order inside every role (<= 216 combinations; all of them up to 36, seeded 36 above)
    combos = list(itertools.product(itertools.permutations(R), itertools.permutations(G), itertools.permutations(P)))
    if len(combos) > 36:
        combos = [combos[0]] + r.sample(combos[1:], 35)
    specs = ('', 'm', 'h', 'A', '!s', 'a', '!x', '!z', '!b', 'ahm', 'A!s!z')
    ref = {sp: format(rx, sp) for sp in specs}
    for R2, G2, P2 in combos:
        r2 = ReactionContainer(R2, P2, G2)
        out.case(1, key=('order', s0) if multi else None,
                 sample={'contract': 'order inside roles', 'reaction': s0, 'roles': list(sizes)} if multi else None)
        bad = [sp for sp in specs if format(r2, sp) != ref[sp]]
        if str(r2) != s0 or bad or not (r2 == rx) or hash(r2) != hash(rx):
            key = 'order:radical-tie' if _radical_tie(rx, bad or ['']) else f'order:{s0}'
            out.v(key, f'reaction string depends on the order of molecules inside a role (specs {bad or ["str/==/hash"]}): {s0} vs {r2}',
                  witness={**_witness(rx), 'permuted_roles': [[format(m, 'm') for m in role] for role in (R2, G2, P2)]},
                  native={'original': s0, 'permuted': str(r2), 'specs': bad})
            break
    # copy keeps roles and molecules
    cp = rx.copy()
    out.case(1)
    if str(cp) != s0 or [len(x) for x in _roles(cp)] != list((nr, ng, np_)) or format(cp, 'm') != ref['m'] or any(
            x is y for x, y in zip(cp.molecules(), rx.molecules())):
        out.v(f'copy:{s0}', f'r.copy() is not the same reaction as r (or shares molecule objects): {cp} vs {s0}', witness=_witness(rx),
              native={'copy': format(cp, 'm'), 'original': ref['m']})
    # B: round trip - str(r) with default reader options; every other lossless written form with default options; every non-default
    #    reader option with one written form (seeded)
    gap = any(any(o01_gaps.gaps(m)) for m in ms)
    if multi:         # '!c' is only interesting for an order that is not the sorted one: take a seeded permuted reaction
        R2, G2, P2 = r.choice(combos)
        rk = ReactionContainer(R2, P2, G2)
    else:
        rk = rx
    _roundtrip(rx, s0, '', {}, gap, not overlap, out)
    for sp in RT_SPECS:
        _roundtrip(rk if '!c' in sp else rx, s0, sp, {}, gap, not overlap, out)
    for kw in RT_OPTS:
        sp = r.choice(('',) + RT_SPECS)
        if 'ignore_aromatic_radicals' in kw and ('h' in sp or 'm' in sp):
            sp = ''        # a bracketed [c] / [n] without H IS a radical under this option (documented): forms that bracket every atom are out
        if 'ignore' in kw and 'm' in sp and overlap:
            sp = ''        # strict reading rejects atom numbers used twice in a role (documented MappingError)
        if 'ignore' in kw and 'a' in sp:
            sp = ''        # strict reading wants the bond symbol at both ends of a ring closure ("not equal cycle bonds"), the a form has one
        _roundtrip(rk if '!c' in sp else rx, s0, sp, kw, gap, not overlap, out)


def _ties(run):
    """A on the ties of the role sort key: two molecules with the same bare SMILES and different radical atoms in one role"""
    from chython import ReactionContainer, smiles
    for a, b in TIES:
        x, y = smiles(a), smiles(b)
        other = smiles('CCO')
        for role in range(3):
            def mk(p, q):
                roles = [[other], [], [other.copy()]]
                roles[role] = [p, q] + roles[role]
                return ReactionContainer(roles[0], roles[2], roles[1])
            r1, r2 = mk(x, y), mk(y, x)
            run.case(1, key=('order-tie', a, role))
            try:
                differ = str(r1) != str(r2) or r1 != r2
            except Exception as e:
                if not _library_raised(e):
                    raise
                run.violation(f'library-raises:ties:{type(e).__name__}:{a}:{role}', f'str(r) raises {type(e).__name__}: {e} for {a} + {b} + CCO',
                              witness={'molecules': [a, b, 'CCO'], 'role': role}, native=repr(e))
                continue
            if differ:
                assert _radical_tie(r1, ['']), 'harness: TIES entry is not a tie of the sort key'
                run.violation('order:radical-tie', f'reaction string depends on the order of molecules inside a role: {r1} vs {r2} '
                              f'(role sort key is the SMILES without the CX radical block, so {a!r} and {b!r} tie)',
                              witness={'roles': [[format(m, 'm') for m in rl] for rl in _roles(r1)], 'reaction_with_numbers': format(r1, 'm'),
                                       'swapped': format(r2, 'm')}, native={'original': str(r1), 'permuted': str(r2)})


# ---- C .. F ------------------------------------------------------------------------------------------------------------------------
def _edits(u, r, k, next_num):
    """choose k recorded edits on the union molecule u (no two edits share an atom); returns [(kind, atoms, args)]"""
    atoms, bonds = u._atoms, u._bonds
    cand = []
    for n, m, b in u.bonds():
        if b.order in (1, 2, 3) and (not b.in_ring or (atoms[n].hybridization != 4 and atoms[m].hybridization != 4)):   # audit: ring bonds too
            cand.append(('del_bond', (n, m), b.order))
            if b.order == 1 and atoms[n].hybridization == 1 and atoms[m].hybridization == 1 and (atoms[n].implicit_hydrogens or 0) >= 1 \
                    and (atoms[m].implicit_hydrogens or 0) >= 1:
                cand.append(('order', (n, m), (1, 2)))
            elif b.order in (2, 3):
                cand.append(('order', (n, m), (b.order, b.order - 1)))
    hs = [n for n, a in atoms.items() if (a.implicit_hydrogens or 0) >= 1 and a.hybridization != 4]
    for _ in range(6):
        if len(hs) >= 2:
            a, b = r.sample(hs, 2)
            if b not in bonds[a]:
                cand.append(('add_bond', (a, b), 1))
    for n, a in atoms.items():
        if a.charge == 0 and not a.is_radical and a.hybridization != 4:
            if a.atomic_symbol == 'N':
                cand.append(('charge', (n,), 1))
            elif a.atomic_symbol in ('O', 'S') and (a.implicit_hydrogens or 0) >= 1:
                cand.append(('charge', (n,), -1))
            elif a.atomic_symbol == 'C' and (a.implicit_hydrogens or 0) >= 1 and a.hybridization == 1:
                cand.append(('radical', (n,), True))
        elif a.charge and not a.is_radical and not bonds[n] and a.atomic_symbol in METALS and [c for c in METALS[a.atomic_symbol] if c != a.charge]:
            cand.append(('charge', (n,), r.choice([c for c in METALS[a.atomic_symbol] if c != a.charge])))   # audit: +2 -> +3, + -> +2
        elif a.charge and not a.is_radical and len(bonds[n]) <= 1:
            cand.append(('charge', (n,), 0))
        elif a.is_radical and not a.charge:
            cand.append(('radical', (n,), False))
        if len(bonds[n]) == 1 and len(atoms) > 2 and next(iter(bonds[n].values())).order in (1, 2, 3):
            cand.append(('del_atom', (n, next(iter(bonds[n]))), None))
    for n in r.sample(hs, min(3, len(hs))):
        cand.append(('add_atom', (n,), r.choice(['O', 'C', 'Cl', 'N'])))
    r.shuffle(cand)
    # favour variety: one candidate per kind first
    byk = {}
    for c in cand:
        byk.setdefault(c[0], []).append(c)
    kinds = list(byk)
    r.shuffle(kinds)
    chosen, used = [], set()
    share = r.random() < .35       # audit: a charge / radical edit may sit on an atom of an edited bond (heterolysis, homolysis)
    used_atom, used_bond, used_gone = set(), set(), set()
    for kind in kinds * 3:
        if len(chosen) >= k:
            break
        for c in byk[kind]:
            level = used_atom if c[0] in ('charge', 'radical') else used_bond if c[0] in ('del_bond', 'add_bond', 'order') else used_gone
            if share and level is not used_gone:
                free = level.isdisjoint(c[1]) and used_gone.isdisjoint(c[1])
            else:
                free = used.isdisjoint(c[1])
            if free:
                if c[0] == 'add_atom':
                    c = (c[0], (c[1][0], next_num), c[2])
                    next_num += 1
                chosen.append(c)
                used.update(c[1])
                level.update(c[1])
                byk[kind].remove(c) if c in byk[kind] else None
                break
    return chosen


def _apply(p, edits):
    with p:
        for kind, at, arg in edits:
            if kind == 'del_bond':
                p.delete_bond(*at)
            elif kind == 'add_bond':
                p.add_bond(at[0], at[1], arg)
            elif kind == 'order':
                p.delete_bond(*at)
                p.add_bond(at[0], at[1], arg[1])
            elif kind == 'charge':
                p.atom(at[0]).charge = arg
            elif kind == 'radical':
                p.atom(at[0]).is_radical = arg
            elif kind == 'del_atom':
                p.delete_atom(at[0])
            elif kind == 'add_atom':
                p.add_atom(arg, at[1])
                p.add_bond(at[0], at[1], 1)
    for kind, at, arg in edits:      # the attribute setters keep the old hydrogen count: recalculate it as a user would (None = invalid valence)
        if kind in ('charge', 'radical'):
            p.calc_implicit(at[0])
    p.flush_cache()


def _s(cgr):
    try:
        return str(cgr)
    except Exception as e:
        return f'<str raises {type(e).__name__}: {e}>'


def _check_cgr(cgr, left, right, tag, s0, wit, out, expected_centre=None):
    """E (+ D when expected_centre is given) for one condensed graph"""
    from oracles import o15_diff as O
    ea, eb, ec = O.diff(left, right)
    ga, gb, dyn_a, dyn_b, asym = O.cgr_view(cgr)
    centre = set(cgr.center_atoms)
    bad = []
    if asym:
        bad.append(('adjacency-not-symmetric', asym[:4]))
    if set(ga) != set(ea):
        bad.append(('atom-set', sorted(set(ga) ^ set(ea))))
    if set(gb) != set(eb):
        bad.append(('bond-set', sorted(map(sorted, set(gb) ^ set(eb)))))
    for n in set(ga) & set(ea):
        if ga[n] != ea[n]:
            bad.append(('atom-labels', n, ga[n], ea[n]))
        if (n in dyn_a) != (ea[n][0] != ea[n][1] or ea[n][2] != ea[n][3]):
            bad.append(('atom-is_dynamic', n, n in dyn_a, ea[n]))
    for e in set(gb) & set(eb):
        if gb[e] != eb[e]:
            bad.append(('bond-orders', sorted(e), gb[e], eb[e]))
        if (e in dyn_b) != (eb[e][0] != eb[e][1]):
            bad.append(('bond-is_dynamic', sorted(e), e in dyn_b, eb[e]))
    for n, a in cgr.atoms():        # audit: the CGR atom is the atom of its side(s): element and isotope kept
        src = left[0].get(n) or right[0].get(n)
        if src is not None and (a.atomic_symbol, a.isotope) != src[:2]:
            bad.append(('atom-identity', n, (a.atomic_symbol, a.isotope), src[:2]))
    if centre != ec:
        bad.append(('center_atoms-vs-diff', sorted(centre), sorted(ec)))
    if len(cgr.center_atoms) != len(centre):
        bad.append(('center_atoms-duplicates', list(cgr.center_atoms)))
    if expected_centre is not None and centre != expected_centre:
        bad.append(('center_atoms-vs-recorded-edits', sorted(centre), sorted(expected_centre)))
    out.case(len(ea) + len(eb) + 1)
    if bad:
        out.v(f'{tag}:{s0}', f'condensed graph of {s0} differs from the independent difference of its sides: {bad[:3]}', witness=wit,
              native={'differences': bad[:12], 'cgr': _s(cgr)})
    return not bad


def _cgr_contracts(i, r, out):
    from chython import ReactionContainer
    from chython.containers import MoleculeContainer
    from oracles import o15_diff as O
    from functools import reduce
    from operator import or_
    nr = r.choice((1, 1, 2, 2, 3))
    ms = _renumber_seq([_pick(r) for _ in range(nr + 1)], r, start=_start(r))
    R, G = ms[:nr], (ms[nr:] if r.random() < .4 else [])
    # C: identical sides
    same = ReactionContainer(R, [m.copy() for m in R], G)
    cg = ~same
    sid = str(same)
    out.case(1, key=('identical-sides', sid))
    token = _CGR_STR and any(t in str(cg) for t in ('>', '[.', '.]'))
    if cg.center_atoms != () or any(a.is_dynamic for _, a in cg.atoms()) or any(b.is_dynamic for *_, b in cg.bonds()) or token:
        out.v(f'self-centre:{sid}', f'identical sides but center_atoms = {cg.center_atoms} / dynamic labels present in {cg}', witness=_witness(same),
              native={'center_atoms': list(cg.center_atoms), 'cgr': _s(cg)})
    m0 = R[0]
    c0 = m0 ^ m0.copy()
    if c0.center_atoms != () or (_CGR_STR and str(c0) != str(~ReactionContainer([m0], [m0.copy()]))):
        out.v(f'self-centre-xor:{m0}', f'm ^ m.copy() has centre {c0.center_atoms} or differs from ~(m>>m)', witness={'molecule': format(m0, 'm')},
              native={'center_atoms': list(c0.center_atoms), 'cgr': str(c0)})

    # C/E, audit: one-sided reactions (empty reactant side / empty product side / reagents only) - nothing is dynamic
    shape = r.choice(('no-products', 'no-reactants', 'reagents-only', 'reagents+products'))
    one = {'no-products': ReactionContainer(R, [], G), 'no-reactants': ReactionContainer([], R, []), 'reagents-only': ReactionContainer([], [], R),
           'reagents+products': ReactionContainer([], G, R)}[shape]
    so = str(one)
    out.case(1, key=('one-sided', shape, so), sample={'contract': 'one-sided reaction has no centre', 'reaction': so})
    wo = {**_witness(one), 'shape': shape}
    try:
        co = ~one
    except Exception as e:
        co = None
        out.v(f'compose-raises:{so}', f'~r raises {type(e).__name__}: {e}', witness=wo, native=repr(e))
    if co is not None:
        lo, ro = O.side_view(list(one.reagents) + list(one.reactants)), O.side_view(list(one.products))
        if _check_cgr(co, lo, ro, 'one-sided', so, wo, out, expected_centre=set()) and _CGR_STR and any(t in str(co) for t in ('>', '[.', '.]')):
            out.v(f'one-sided:{so}', f'one-sided reaction {so} has dynamic tokens in its CGR string {co}', witness=wo, native=str(co))

    # D/E/F: recorded edits
    u = reduce(or_, R) if len(R) > 1 else R[0].copy()
    top = max(max(m) for m in ms) + 1
    k = r.choice((1, 1, 2, 2, 3))
    edits = _edits(u, r, k, top)
    if not edits:
        out.note('no-edit-candidates')
        return
    p = u.copy()
    try:
        _apply(p, edits)
    except Exception as e:
        out.note(f'edit-rejected:{type(e).__name__}')
        return
    prods = p.split() if p.connected_components_count > 1 else [p]
    dropped = False
    if len(prods) > 1 and r.random() < .3:
        prods.pop(r.randrange(len(prods)))
        dropped = True
    r.shuffle(prods)
    # audit: one side in Kekule form, the other aromatic -> dynamic aromatic bonds (4 <-> 1 / 2) in a whole condensed graph
    kekulised = None
    if r.random() < .25:
        side = r.choice(('reactants', 'products'))
        try:
            ks = [m.copy() for m in (R if side == 'reactants' else prods)]
            if any([m.kekule() for m in ks]):
                kekulised = side
                if side == 'reactants':
                    R = ks
                else:
                    prods = ks
        except Exception as e:
            out.note(f'kekule-variant-skipped:{type(e).__name__}')
    rx = ReactionContainer(R, prods, G)
    s0 = str(rx)
    wit = {**_witness(rx), 'edits': [(kd, list(at), arg) for kd, at, arg in edits], 'fragment_dropped': dropped, 'kekulised_side': kekulised}
    if kekulised:
        out.keys.append(('cgr-kekule-vs-aromatic', s0))
    touched = set()
    for kd, at, arg in edits:
        touched.update(at)
    try:
        cgr = ~rx
    except Exception as e:
        out.v(f'compose-raises:{s0}', f'~r raises {type(e).__name__}: {e}', witness=wit, native=repr(e))
        return
    left, right = O.side_view(list(G) + list(R)), O.side_view(prods)
    out.keys.append(('cgr', s0))
    if all(x.get('contract') != 'centre = recorded edits' for x in out.samples):
        out.samples.append({'contract': 'centre = recorded edits', 'reaction': s0, 'edits': wit['edits'], 'center_atoms': sorted(cgr.center_atoms)})
    ok = _check_cgr(cgr, left, right, 'cgr', s0, wit, out, expected_centre=None if dropped or kekulised else touched)
    # molecule-level operator on the two unions
    lu = reduce(or_, list(G) + list(R)) if len(G) + len(R) > 1 else R[0]
    ru = reduce(or_, prods) if len(prods) > 1 else prods[0]
    x = lu ^ ru
    out.case(1)
    from oracles.o15_diff import cgr_view
    if cgr_view(x)[:4] != cgr_view(cgr)[:4] or set(x.center_atoms) != set(cgr.center_atoms) or (_CGR_STR and str(x) != str(cgr)):
        out.v(f'xor-vs-invert:{s0}', f'(reactants ^ products) = {_s(x)} but ~r = {_s(cgr)}', witness=wit, native={'xor': _s(x), 'invert': _s(cgr)})
    if not ok or not _CGR_STR:
        return
    # F through the reader, audit: the m form carries the numbering, remap=True renumbers both sides consistently
    _mapped_roundtrip(rx, s0, wit, out)
    # F: consistent renumbering of both sides + order inside roles
    s_cgr = str(cgr)
    nums = sorted(set().union(*(set(m) for m in rx.molecules())))
    for t in range(3):
        tgt = nums[:]
        r.shuffle(tgt)
        if t == 2:
            tgt = [x + 1000 for x in tgt]
        mp = dict(zip(nums, tgt))
        def rn(m):
            c = m.copy()
            c.remap({n: mp[n] for n in c})
            return c
        R2, G2, P2 = [rn(m) for m in R], [rn(m) for m in G], [rn(m) for m in prods]
        r.shuffle(R2)
        r.shuffle(P2)
        rx2 = ReactionContainer(R2, P2, G2)
        c2 = ~rx2
        out.case(1, key=('renumber', s0))
        # (the reaction string itself is C01's subject; Kekule-form molecules are outside C01's normalised domain, so it is not compared there)
        if str(c2) != s_cgr or {mp[n] for n in cgr.center_atoms} != set(c2.center_atoms) or (not kekulised and str(rx2) != s0):
            from oracles import o01_gaps
            if any(any(o01_gaps.gaps(m)) for m in rx.molecules()) and {mp[n] for n in cgr.center_atoms} == set(c2.center_atoms):
                out.gaps += 1
                continue
            from oracles import o15_ties
            # finding family decided on the input alone (independent automorphism oracle): equivalent neighbours over different bonds
            key = 'renumber:equivalent-neighbours-different-bonds' if (kekulised or str(rx2) == s0) and o15_ties.neighbour_ties(cgr) else f'renumber:{s0}'
            out.v(key, f'str(~r) changes under a consistent renumbering of both sides: {s_cgr} vs {c2}',
                  witness={**wit, 'permutation': mp}, native={'original': s_cgr, 'renumbered': str(c2), 'reaction_renumbered': str(rx2)})
            break


def _mapped_roundtrip(rx, s0, wit, out):
    from chython import ReactionContainer, smiles
    from bounded import domains as D
    from oracles import o01_gaps
    try:
        Rn, Gn, Pn = ([D.norm(m.copy()) for m in role] for role in _roles(rx))
    except Exception as e:
        out.note(f'mapped-roundtrip-skipped:{type(e).__name__}')
        return
    if any(m.check_valence() for role in (Rn, Gn, Pn) for m in role):
        out.note('mapped-roundtrip-skipped:invalid-valence-after-edit')   # SMILES cannot carry such atoms (the reader guesses radicals there)
        return
    rxn = ReactionContainer(Rn, Pn, Gn)
    cn = ~rxn
    sn, text = str(cn), format(rxn, 'm')
    for kw in ({}, {'remap': True}):
        tag = 'cgr-mapped-roundtrip' + ('' if not kw else f'[{",".join(f"{k}={v}" for k, v in kw.items())}]')
        out.case(1, key=(tag, s0), sample={'contract': 'condensed graph after reading the m form back', 'reaction': text, 'options': kw})
        w = {**wit, 'written': text, 'reader_options': kw}
        try:
            back = smiles(text, **kw)
            for m in back.molecules():
                D.norm(m)
            back.flush_cache(keep_molecule_cache=True)
            cb = ~back
        except Exception as e:
            key = 'roundtrip-m:atom-number>9999' if _big_numbers(rxn) else f'{tag}-raises:{s0}'
            out.v(key, f'smiles({text!r}, {kw}) / its condensed graph raises {type(e).__name__}: {e}', witness=w, native=repr(e))
            continue
        same_centre = len(cb.center_atoms) == len(cn.center_atoms) if 'remap' in kw else set(cb.center_atoms) == set(cn.center_atoms)
        if str(cb) != sn or not same_centre:
            if same_centre and any(any(o01_gaps.gaps(m)) for m in rxn.molecules()):
                out.gaps += 1
                continue
            from oracles import o15_ties
            key = 'renumber:equivalent-neighbours-different-bonds' if 'remap' in kw and o15_ties.neighbour_ties(cn) else f'{tag}:{s0}'
            out.v(key, f'the reaction read back from its m form {text!r} ({kw}) has another condensed graph: {cb} vs {sn}', witness=w,
                  native={'original': sn, 'read_back': str(cb), 'centre': [sorted(cn.center_atoms), sorted(cb.center_atoms)]})


def _library_raised(e):
    """the innermost frame of the traceback is code of the tree under verification (str / format / ~ / ^ / copy of valid reactions never
    fail by contract); anything raised from checker code is a checker error and propagates"""
    import os
    import traceback
    tb = traceback.extract_tb(e.__traceback__)
    root = os.path.abspath(env.REPO) + os.sep
    return bool(tb) and os.path.abspath(tb[-1].filename).startswith(root)


def _guarded(fn, name, i, r, out):
    try:
        fn(i, r, out)
    except Exception as e:
        if not _library_raised(e):
            raise
        import traceback
        where = traceback.extract_tb(e.__traceback__)[-1]
        out.v(f'library-raises:{name}:{type(e).__name__}:seeded-reaction-{i}', f'{name} contracts on seeded reaction {i}: the library raises '
              f'{type(e).__name__}: {e} at {where.filename.rsplit("chython/", 1)[-1]}:{where.lineno} ({where.line})',
              witness={'seeded_reaction': i, 'seed': env.SEED}, native=''.join(traceback.format_exception(e))[-1500:])


def _reaction(i):
    from bounded import domains as D
    out = _Out()
    r = D.rnd(f'c15:{i}')
    _guarded(_order_and_roundtrip, 'order/round-trip', i, r, out)
    _guarded(_cgr_contracts, 'condensed-graph', i, r, out)
    return out.pack()


# ---- G: dynamic tokens ---------------------------------------------------------------------------------------------------------------
def _tokens(run):
    from chython.containers import MoleculeContainer
    from chython.periodictable import C, N
    from chython.algorithms import smiles as S

    def two(order):
        m = MoleculeContainer()
        m.add_atom(C(), 1, _skip_calculation=True)
        m.add_atom(C(), 2, _skip_calculation=True)
        if order is not None:
            m.add_bond(1, 2, order, _skip_calculation=True)
        return m
    orders = (None, 1, 2, 3, 4, 8)
    seen = {}
    for o, p in itertools.product(orders, repeat=2):
        if o is None and p is None:
            continue
        c = two(o) ^ two(p)
        s = str(c) if _CGR_STR else None
        b = c._bonds[1].get(2)
        run.case(1, key=('token-order', o, p))
        if b is None or (b.order, b.p_order) != (o, p) or b.is_dynamic != (o != p):
            run.violation(f'tokens:order:{o}>{p}', f'C-C with order {o} -> {p}: composed bond is {b!r}', witness={'order': o, 'p_order': p}, native=repr(b))
        if s is not None and s in seen:
            run.violation(f'tokens:order:{o}>{p}', f'dynamic bonds {seen[s]} and {(o, p)} give the same CGR string {s}',
                          witness={'labels': [seen[s], (o, p)]}, native=s)
        seen[s] = (o, p)
    seen = {}
    for c1, c2, r1, r2 in itertools.product(range(-4, 5), range(-4, 5), (False, True), (False, True)):
        a, b = MoleculeContainer(), MoleculeContainer()
        a.add_atom(N(charge=c1, is_radical=r1), 1, _skip_calculation=True)
        b.add_atom(N(charge=c2, is_radical=r2), 1, _skip_calculation=True)
        c = a ^ b
        s = str(c) if _CGR_STR else None
        at = c._atoms[1]
        run.case(1, key=('token-atom', c1, c2, r1, r2))
        if (at.charge, at.p_charge, at.is_radical, at.p_is_radical) != (c1, c2, r1, r2) or at.is_dynamic != (c1 != c2 or r1 != r2):
            run.violation(f'tokens:atom:{c1}>{c2}:{r1}>{r2}', f'N atom ({c1},{r1}) -> ({c2},{r2}): composed atom carries '
                          f'{(at.charge, at.p_charge, at.is_radical, at.p_is_radical)}, is_dynamic={at.is_dynamic}',
                          witness={'charge': c1, 'p_charge': c2, 'radical': r1, 'p_radical': r2})
        if s is not None and s in seen:
            run.violation(f'tokens:atom:{c1}>{c2}:{r1}>{r2}', f'dynamic atoms {seen[s]} and {(c1, c2, r1, r2)} give the same CGR string {s}',
                          witness={'labels': [seen[s], (c1, c2, r1, r2)]}, native=s)
        seen[s] = (c1, c2, r1, r2)
    # audit: isotope and element are part of the CGR atom token (kept by from_atom / from_atoms, shown by str)
    from chython.periodictable import O as Ox
    seen = {}
    for el, iso, (c1, c2), (r1, r2), onesided in itertools.product((C, N, Ox), (None, 13, 14, 15, 17, 18), ((0, 0), (0, 1), (-1, 0), (1, 1)),
                                                                   ((False, False), (False, True), (True, True)), (False, True)):
        try:
            x, y = el(iso), el(iso)
        except Exception:
            continue          # not an isotope of this element
        if onesided and ((c1, r1) != (c2, r2)):
            continue
        a, b = MoleculeContainer(), MoleculeContainer()
        x._charge, x._is_radical, y._charge, y._is_radical = c1, r1, c2, r2
        a.add_atom(x, 1, _skip_calculation=True)
        if not onesided:
            b.add_atom(y, 1, _skip_calculation=True)
        c = a ^ b
        at = c._atoms[1]
        lab = (el.__name__, iso, c1, c2, r1, r2)
        run.case(1, key=('token-isotope',) + lab + (onesided,))
        if (at.atomic_symbol, at.isotope, at.charge, at.p_charge, at.is_radical, at.p_is_radical) != lab:
            run.violation(f'tokens:isotope:{lab}:{onesided}', f'{lab} composed (one-sided={onesided}) gives CGR atom '
                          f'{(at.atomic_symbol, at.isotope, at.charge, at.p_charge, at.is_radical, at.p_is_radical)}', witness={'label': list(lab)})
        if _CGR_STR:
            sc = str(c)
            if seen.setdefault(sc, lab) != lab:
                run.violation(f'tokens:isotope:{lab}:{onesided}', f'CGR atoms {seen[sc]} and {lab} give the same CGR string {sc}',
                              witness={'labels': [list(seen[sc]), list(lab)]}, native=sc)
    # the tables themselves: injective, dynamic tokens disjoint from the static ones
    for name in ('dyn_order_str', 'dyn_charge_str', 'dyn_radical_str'):
        t = getattr(S, name)
        vals = [v for v in t.values() if v != '']
        run.case(len(t))
        if len(set(vals)) != len(vals):
            run.violation(f'tokens:table:{name}', f'{name} maps two labels to one token', witness={k.__repr__(): v for k, v in t.items()})


def bounded(run):
    quick = run.tier == 'quick'
    n = 300 if quick else 3000
    run.assume('atoms present on one side only are spectators: not dynamic, bonds among them unchanged, bonds to atoms present on both sides '
               'broken / formed (reading documented in MoleculeContainer.compose); the independent difference is oracles/o15_diff.py',
               'C01 gap predicates (oracles/o01_gaps.py, fixed in DESIGN §2 C01) decide which molecules may legitimately change their '
               'canonical string on re-reading / renumbering: counted as gap hits, never judged',
               'molecules are compared after kekule(); thiele() (bounded-check lessons)')
    run.bound(f'{n} seeded reactions from <= 500 corpus molecules with <= 30 atoms + {len(SPECIALS)} special molecules (multi-component salts, '
              f'radicals, small reagents, stereo labelled); 0-3 molecules per role incl. empty roles and duplicates; all orders inside roles '
              f'(<= 36 combinations) x 9 format specs; 1-3 recorded edits per mapped reaction out of 8 kinds; 3 consistent renumberings; '
              f'dynamic tokens: all 35 (order, p_order) pairs on C-C, all 324 (charge, p_charge, radical, p_radical) on N')
    run.bound(f'audit extension, per seeded reaction: atom numbers start at one of 1, 7, 990, 1000, 4090, 9990; 30 % of the order / round-trip '
              f'reactions have every molecule numbered from the same start (overlapping numbers); 11 format specs for the order contract; '
              f'round trip of {len(RT_SPECS) + 1} written forms ("", {", ".join(RT_SPECS)}; !c on a seeded non-sorted order, compared as sequences) '
              f'with default reader options + each of {len(RT_OPTS)} non-default reader options (ignore=False, remap=True, keep_implicit=True, '
              f'ignore_aromatic_radicals=False, ignore_stereo=True) on one seeded written form; r.copy(); one one-sided reaction out of 4 shapes; '
              f'edits incl. non-aromatic ring bonds, metal charge steps, 35 % of the edit sets may put a charge / radical edit on an atom of an '
              f'edited bond; 25 % with one side kekulised; condensed graph of smiles(format(r, "m")) with default / remap=True (valence-valid sides only); '
              f'{len(SPECIALS)} special molecules incl. isotopes, multiply charged metal ions, explicit H, N-oxide / nitro, azines; '
              f'{len(TIES)} sort-key ties x 3 roles; isotope tokens: C/N/O x 6 isotope values x 4 charge pairs x 3 radical pairs x one-/two-sided')
    global _CGR_STR
    from chython import smiles
    probe = smiles('[CH3:1][CH2:2][OH:3]>>[CH3:1][CH:2]=[O:3]')
    try:
        _CGR_STR = isinstance(str(~probe), str) and isinstance(hash(~probe), int)
    except Exception as e:
        _CGR_STR = False
        run.case(1, key=('cgr-str', str(probe)))
        run.violation(f'cgr-str-raises:{type(e).__name__}', f'str(~r) / hash(~r) raise {type(e).__name__}: {e} for the condensed graph of {probe} '
                      f'(and of every other reaction): the canonical CGR string of C15 does not exist; renumbering and token contracts skipped',
                      witness={'reaction': format(probe, 'm')}, native=repr(e))
    _tokens(run)
    _ties(run)
    gaps, notes = 0, {}
    shown = {}
    for nc, keys, samples, viol, g, nt in pmap(_reaction, range(n), chunksize=4):
        run.cases += nc
        for kx in keys:
            run.case(0, key=kx)
        for sx in samples:
            if shown.get(sx.get('contract'), 0) < 2:     # two samples per contract in the evidence
                shown[sx.get('contract')] = shown.get(sx.get('contract'), 0) + 1
                run.case(0, sample=sx)
        for v in viol:
            run.violation(v[0], v[1], witness=v[2], native=v[3])
        gaps += g
        for kx, c in nt.items():
            notes[kx] = notes.get(kx, 0) + c
    run.notes['c15_gap_hits'] = gaps
    if notes:
        run.notes['c15_notes'] = notes


def replay(rec):
    """re-run the seeded reaction that produced the witness is not possible from the key alone: rebuild from the recorded roles"""
    from chython import smiles, ReactionContainer
    from bounded import domains as D
    w = rec.get('witness') or {}
    roles = w.get('roles')
    if rec['key'].startswith('tokens:') or rec['key'].startswith('cgr-str-raises'):
        class R:      # minimal recorder with the Run interface used by _tokens
            def __init__(self):
                self.keys = []
            def case(self, *a, **k):
                pass
            def violation(self, key, what, **k):
                print(what)
                self.keys.append(key)
        rr = R()
        try:
            _tokens(rr)
        except Exception as e:
            print(type(e).__name__, e)
            return False
        return rec['key'] not in rr.keys
    if not roles:
        return False
    key = rec['key']
    if key == 'roundtrip-m:atom-number>9999':       # the roles themselves cannot be re-read (that is the finding): re-read the written text
        try:
            smiles(w['written'], **(w.get('reader_options') or {}))
        except Exception as e:
            print('smiles(%r) raises %r' % (w['written'], e))
            return False
        return True
    kek = w.get('kekulised_side')
    ms = []
    for role, name in zip(roles, ('reactants', 'reagents', 'products')):
        cur = []
        for t in role:
            m = smiles(t)
            if name != kek:          # the kekulised side is kept as written
                D.norm(m)
            cur.append(m)
        ms.append(cur)
    rx = ReactionContainer(ms[0], ms[2], ms[1])
    print('reaction', rx)
    ok = True
    if key.startswith('order:'):
        for R2 in itertools.permutations(ms[0]):
            for P2 in itertools.permutations(ms[2]):
                for G2 in itertools.permutations(ms[1]):
                    ok &= str(ReactionContainer(R2, P2, G2)) == str(rx)
    elif key.startswith('copy:'):
        ok = str(rx.copy()) == str(rx) and format(rx.copy(), 'm') == format(rx, 'm')
    elif key.startswith('renumber:') and 'permutation' in w:
        mp = {int(k): v for k, v in w['permutation'].items()}
        def rn(m):
            c = m.copy()
            c.remap({n: mp[n] for n in c})
            return c
        r2 = ReactionContainer([rn(m) for m in ms[0]][::-1], [rn(m) for m in ms[2]][::-1], [rn(m) for m in ms[1]])
        print('CGR', ~rx, '\nCGR renumbered', ~r2)
        ok = str(~r2) == str(~rx) and (bool(kek) or str(r2) == str(rx))
    elif key.startswith('renumber:') or key.startswith('cgr-mapped-roundtrip'):
        out = _Out()
        _mapped_roundtrip(rx, str(rx), w, out)
        for v in out.viol:
            print(v[1])
        ok = not out.viol
    elif key.startswith('roundtrip') and 'written' in w:
        out = _Out()
        from oracles import o01_gaps
        numbers = [n for m in rx.molecules() for n in m]
        _roundtrip(rx, str(rx), w.get('spec', ''), w.get('reader_options') or {}, any(any(o01_gaps.gaps(m)) for m in rx.molecules()),
                   len(set(numbers)) == len(numbers), out)
        for v in out.viol:
            print(v[1])
        ok = not out.viol
    elif key.startswith('roundtrip'):
        back = smiles(str(rx))
        for m in back.molecules():
            D.norm(m)
        ok = _role_strings(back) == _role_strings(rx)
        print('back', back)
    else:
        from oracles import o15_diff as O
        out = _Out()
        ok = _check_cgr(~rx, O.side_view(ms[1] + ms[0]), O.side_view(ms[2]), 'cgr', str(rx), w, out)
        for v in out.viol:
            print(v[1])
    return bool(ok)
