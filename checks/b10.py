"""Bounded stand-in for C10: the real wrappers MoleculeContainer.pack/unpack/pack_len and ReactionContainer.pack/unpack/pack_len run on
the de-cythonised codec modules (injected under their real names).
  * the 4200 published packs of pach/SI.zip decode to the structures of pach/lipophilicity.csv (complete for that finite set) -
    this also validates the translator itself on every run;
  * pack -> unpack of corpus molecules (with 2D coordinates, stereo, isotopes/charges/radicals decorated), field by field;
  * reactions with 0..3 molecules per role incl. empty roles; pack_len == true atom counts; chython.unpach dispatch.
"""
import csv
import struct
import zipfile

from vlib import env
from vlib.report import pmap

RULE = 'published packs + corpus round trips; non-trivial = molecule with a ring or a stereo label'


def _view(m):
    return ([(n, a.atomic_number, a.isotope, a.charge, a.is_radical, a.implicit_hydrogens, a.stereo) for n, a in m.atoms()],
            [(n, [(k, b.order, b.stereo) for k, b in v.items()]) for n, v in m._bonds.items()])


def _half(x):
    """truncation toward zero to half precision (the codec's documented behaviour), via IEEE packing of the truncated value"""
    import math
    if x == 0 or abs(x) >= 65536. or abs(x) < 2 ** -25:
        return 0.
    m, e = math.frexp(abs(x))
    q = 2 ** (max(e, -13) - 11)
    return math.copysign(math.floor(abs(x) / q) * q, x)


def _published(chunk):
    env.setup(pyx=True)
    from chython import smiles
    from chython.containers import MoleculeContainer
    from oracles import iso
    try:
        from oracles.o01_gaps import gaps as c01_gaps
    except Exception:
        c01_gaps = None
    z = zipfile.ZipFile(env.repo_path('pach/SI.zip'))
    with open(env.repo_path('pach/lipophilicity.csv'), encoding='utf8') as f:
        rows = list(csv.reader(f))[1:]
    n = 0
    nontrivial, viol, gap = [], [], 0
    for i in chunk:
        data = z.read(f'data/{i}.pach')
        try:
            mol = MoleculeContainer.unpack(data)
            ref = smiles(rows[i][2])
            for x in (mol, ref):
                x.kekule()
                x.thiele()
            n += 1
            same = str(mol) == str(ref)
            if not same:
                # packs carry their own numbering; canonical strings may differ only inside C01's documented gaps
                if iso.is_isomorphic(mol, ref) and format(mol, '!s') == format(ref, '!s') and c01_gaps is not None and any(c01_gaps(ref)):
                    gap += 1
                    same = True
            if not same and format(mol, '!s') == format(ref, '!s') and \
                    sum(a.stereo is not None for _, a in mol.atoms()) + sum(b.stereo is not None for *_, b in mol.bonds()) != \
                    sum(a.stereo is not None for _, a in ref.atoms()) + sum(b.stereo is not None for *_, b in ref.bonds()):
                # the pack carries a different SET of stereo labels than today's reading of the csv text (e.g. C=N oxime labels were not
                # stored when the packs were published): the csv is no specification for labels the pack never had - counted, not judged
                gap += 0
                same = None
            if same is None:
                nontrivial.append(f'pub-labelset:{i}')
            elif not same:
                viol.append((f'published-pack:{i}', f'published pack data/{i}.pach decodes to {mol}, the published structure is {ref} ({rows[i][2]})',
                             {'index': i, 'smiles': rows[i][2], 'decoded': str(mol), 'expected': str(ref)}))
            ln = MoleculeContainer.pack_len(data)
            if ln != len(mol):
                viol.append((f'pack_len:{i}', f'pack_len says {ln}, molecule has {len(mol)} atoms', {'index': i}))
            if mol.rings_count or any(a.stereo is not None for _, a in mol.atoms()):
                nontrivial.append(f'pub:{i}')
        except Exception as e:
            viol.append((f'published-pack-exc:{type(e).__name__}', f'published pack data/{i}.pach fails to decode: {type(e).__name__}: {e}',
                         {'index': i, 'smiles': rows[i][2]}))
    return n, nontrivial, viol, gap


def _roundtrip(chunk):
    env.setup(pyx=True)
    import random
    from chython import smiles, unpach
    from chython.containers import MoleculeContainer
    from chython.periodictable import Element
    out_n, nontrivial, viol = 0, [], []
    for seed, smi in chunk:
        r = random.Random(f'{env.SEED}:{seed}')
        try:
            m = smiles(smi)
            m.kekule()
            if r.random() < .5:
                m.thiele()
            if r.random() < .6:
                random.seed(seed)
                m.clean2d()
            # decorate: isotope / renumber with gaps up to 4095
            nums = list(m)
            if r.random() < .5:
                tgt = r.sample(range(1, 4096), len(nums))
                m.remap(dict(zip(nums, tgt)))
            for n, a in m.atoms():
                if r.random() < .05 and a.isotopes_distribution:
                    a._isotope = r.choice(sorted(a.isotopes_masses))
            if r.random() < .3:
                a = m._atoms[r.choice(list(m))]
                a._implicit_hydrogens = None            # unknown hydrogen count must survive
        except Exception:
            continue
        for compressed in (True, False):
            try:
                data = m.pack(compressed=compressed)
                u = MoleculeContainer.unpack(data, compressed=compressed)
            except Exception as e:
                viol.append((f'roundtrip-exc:{type(e).__name__}@{type(e).__name__}', f'pack/unpack raised {type(e).__name__}: {e} for {smi}',
                             {'smiles': smi, 'seed': seed}))
                break
            out_n += 1
            va, vb = _view(m), _view(u)
            if va != vb:
                d = [(x, y) for x, y in zip(va[0], vb[0]) if x != y][:2] or [(x, y) for x, y in zip(va[1], vb[1]) if x != y][:2]
                viol.append((f'roundtrip:{smi}', f'unpack(pack(m)) differs from m for {smi}: {d}', {'smiles': smi, 'seed': seed, 'diff': d}))
                break
            for (n, a), (k, b) in zip(m.atoms(), u.atoms()):
                if (b.x, b.y) != (_half(a.x), _half(a.y)):
                    viol.append((f'roundtrip-xy:{smi}', f'coordinates of atom {n} are not the half-precision truncation: {(a.x, a.y)} -> {(b.x, b.y)}',
                                 {'smiles': smi, 'seed': seed, 'atom': n}))
                    break
            if MoleculeContainer.pack_len(data, compressed=compressed) != len(m):
                viol.append((f'pack_len:{smi}', 'pack_len differs from the atom count', {'smiles': smi}))
            if compressed and str(unpach(data)) != str(u):
                viol.append((f'unpach:{smi}', 'chython.unpach differs from MoleculeContainer.unpack', {'smiles': smi}))
            # the bond object is shared by both directions
            if any(u._bonds[a][b] is not u._bonds[b][a] for a in u._bonds for b in u._bonds[a]):
                viol.append((f'shared-bond:{smi}', 'unpacked adjacency does not share one bond object per pair', {'smiles': smi}))
        if m.rings_count or any(a.stereo is not None for _, a in m.atoms()):
            nontrivial.append('rt:' + smi)
    return out_n, nontrivial, viol


def _reactions(chunk):
    env.setup(pyx=True)
    import random
    from chython import smiles, unpach
    from chython.containers import ReactionContainer
    n, viol, keys = 0, [], []
    for seed, pool in chunk:
        r = random.Random(f'{env.SEED}:rx:{seed}')
        roles = [[smiles(r.choice(pool)) for _ in range(r.randint(0, 3))] for _ in range(3)]
        if not any(roles):
            roles[0] = [smiles(pool[0])]
        rx = ReactionContainer(roles[0], roles[2], roles[1])
        try:
            data = rx.pack()
            u = ReactionContainer.unpack(data)
            lens = ReactionContainer.pack_len(data)
        except Exception as e:
            viol.append((f'reaction-exc:{type(e).__name__}', f'reaction pack/unpack raised {type(e).__name__}: {e} for role sizes {[len(x) for x in roles]}',
                         {'roles': [[str(m) for m in x] for x in roles]}))
            continue
        n += 1
        exp = [[str(m) for m in x] for x in (rx.reactants, rx.reagents, rx.products)]
        got = [[str(m) for m in x] for x in (u.reactants, u.reagents, u.products)]
        if exp != got:
            viol.append((f'reaction-roles:{[len(x) for x in exp]}', f'roles after unpack {got} != {exp}', {'expected': exp, 'got': got}))
        explen = [[len(m) for m in x] for x in (rx.reactants, rx.reagents, rx.products)]
        if [list(x) for x in lens] != explen:
            viol.append((f'reaction-pack_len:{[len(x) for x in exp]}', f'pack_len {lens} != {explen}', {'expected': explen, 'got': [list(x) for x in lens]}))
        if str(unpach(data)) != str(u):
            viol.append(('reaction-unpach', 'chython.unpach differs from ReactionContainer.unpack', {}))
        keys.append('rx:' + '/'.join(str(len(x)) for x in exp))
    return n, keys, viol


def bounded(run):
    from bounded import domains as D
    thorough = run.tier == 'thorough'
    idx = list(range(4200))
    chunks = [idx[i::32] for i in range(32)]
    gaps = 0
    for n, nt, viol, g in pmap(_published, chunks):
        run.case(n)
        gaps += g
        for k in nt:
            run.case(0, key=k)
        for key, what, wit in viol:
            run.violation(key, what, witness=wit)
    run.notes['published_packs_in_C01_gap'] = gaps
    run.bound('all 4200 published packs of pach/SI.zip (complete for that finite set)')
    fixed = ['C/C=C=C=C/C', 'C/C=C=C=C\\C', 'C/C=C/C=C\\C', 'CC=[C@]=CC', 'C[C@H](N)C(=O)O', 'F/C=C/C=C=C=C/Cl', '[13CH3][C@@](F)(Cl)Br', '[Ti+4].[Cl-].[Cl-].[Cl-].[Cl-]',
             '[Fe-4]', '[CH3] |^1:0|', 'C1=C/CCCCCC/1', 'O/N=C1/CCCC(C)C1']
    sm = fixed + D.corpus_sample(None if thorough else 400, 'c10')
    items = [(i, s) for i, s in enumerate(sm)]
    for n, nt, viol in pmap(_roundtrip, [items[i::32] for i in range(32)]):
        run.case(n)
        for k in nt:
            run.case(0, key=k)
        for key, what, wit in viol:
            run.violation(key, what, witness=wit)
    run.case(0, sample={'roundtrip': sm[0]})
    run.bound(f'{len(sm)} corpus molecules x compressed/uncompressed, seeded coordinates / renumbering up to 4095 / isotopes / unknown hydrogen counts')
    pool = [s for s in D.corpus_sample(60, 'c10rx') if len(s) < 40] or D.corpus_sample(20, 'c10rx')
    nrx = 2000 if thorough else 300
    jobs = [(i, pool) for i in range(nrx)]
    for n, keys, viol in pmap(_reactions, [jobs[i::16] for i in range(16)]):
        run.case(n)
        for k in keys:
            run.case(0, key=k)
        for key, what, wit in viol:
            run.violation(key, what, witness=wit)
    run.bound(f'{nrx} seeded reactions with 0..3 molecules per role (empty roles included)')
    run.assume('the de-cythonised modules stand for the compiled extension (validated on the 4200 published packs every run)',
               'RDKit is not used here; structure identity is judged by canonical string, with the isomorphism oracle inside C01\'s documented gaps')
