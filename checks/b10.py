"""Bounded stand-in for C10: the real wrappers MoleculeContainer.pack/unpack/pack_len and ReactionContainer.pack/unpack/pack_len run on
the de-cythonised codec modules (injected under their real names).
  * the 4200 published packs of pach/SI.zip decode to the structures of pach/lipophilicity.csv (complete for that finite set) -
    this also validates the translator itself on every run;
  * pack -> unpack of corpus molecules (with 2D coordinates, stereo, isotopes/charges/radicals decorated), field by field;
  * reactions with 0..3 molecules per role incl. empty roles; pack_len == true atom counts; chython.unpach dispatch.
Coverage audit (bounded/d10_extra.py, oracles/o10_layout.py): every contract of `d10_extra.judge` (bit-for-bit layout against an independent
reference writer, field round trip, half-precision coordinates, length helpers, pack->unpack->pack identity, copy identity) on
  * the 4200 published packs re-packed (bytes identical) and re-encoded by the reference writer (validates the oracle every run);
  * every element x every tabulated isotope + both ends of the 5-bit window, charge x hydrogens x radical, atom numbers 1 / 4095;
  * every bond order in every position of the 3-bit stream for every tail length, 0..15 neighbours, boundary atom numbers in both halves of
    the 12-bit pairs and in cis/trans records, half-float boundaries, stereo labels on cumulenes of every length / rings / multi-component,
    atom order != number order and shuffled bond insertion order, 4095 atoms, > 255 cis/trans records, the densest molecule (thorough);
  * every keyword and alias of the wrappers, limit checks of check=True, invalid headers, version-0 reader through reference-written packs,
    reactions with 0 / 1 / 255 molecules per role, packs after edits (stale caches).
"""
import csv
import itertools
import struct
import zipfile
import zlib

from vlib import env
from vlib.report import pmap

RULE = ('published packs + corpus round trips; non-trivial = molecule with a ring or a stereo label; boundary families of the coverage audit: '
        'one key per generated molecule / reaction / keyword case')


def _view(m):
    return ([(n, a.atomic_number, a.isotope, a.charge, a.is_radical, a.implicit_hydrogens, a.stereo) for n, a in m.atoms()],
            [(n, [(k, b.order, b.stereo) for k, b in v.items()]) for n, v in m._bonds.items()])


def _half(x):
    """truncation toward zero to half precision (the codec's documented behaviour), via IEEE packing of the truncated value"""
    import math
    if x == 0 or abs(x) >= 65536. or abs(x) < 2 ** -25:
        return 0.
    m, e = math.frexp(abs(x))
    q = 2 ** (max(e, -13) - 11)
    return math.copysign(math.floor(abs(x) / q) * q, x)


def _str(x):
    """canonical string of a library result; an exception of the library while writing it is part of the observation, not a checker fault"""
    try:
        return str(x)
    except Exception as e:
        return f'<{type(e).__name__}: {e}>'


def _published(chunk):
    env.setup(pyx=True)
    from chython import smiles
    from chython.containers import MoleculeContainer
    from oracles import iso, o10_layout as o10
    try:
        from oracles.o01_gaps import gaps as c01_gaps
    except Exception:
        c01_gaps = None
    z = zipfile.ZipFile(env.repo_path('pach/SI.zip'))
    with open(env.repo_path('pach/lipophilicity.csv'), encoding='utf8') as f:
        rows = list(csv.reader(f))[1:]
    n = 0
    nontrivial, viol, gap = [], [], 0
    for i in chunk:
        data = z.read(f'data/{i}.pach')
        try:
            mol = MoleculeContainer.unpack(data)
            # published bytes are the reference of the layout: the decoded molecule packs to the same bytes, the independent reference
            # writer reproduces them too (this validates oracles/o10_layout.py on published data every run)
            raw = zlib.decompress(data)
            if mol.pack(compressed=False) != raw:
                viol.append((f'published-repack:{i}', f'pack(unpack(data/{i}.pach)) differs from the published bytes ({rows[i][2]})',
                             {'index': i, 'smiles': rows[i][2]}))
            if o10.encode(mol) != raw:
                viol.append((f'published-layout:{i}', f'the molecule decoded from data/{i}.pach does not correspond to the published bytes '
                             f'under the documented layout ({rows[i][2]})', {'index': i, 'smiles': rows[i][2]}))
            pl = MoleculeContainer.unpack(data, _return_pack_length=True, skip_labels_calculation=True)[1]
            if pl != len(raw):
                viol.append((f'published-pack-length:{i}', f'_return_pack_length {pl} != {len(raw)} bytes', {'index': i}))
            ref = smiles(rows[i][2])
            for x in (mol, ref):
                x.kekule()
                x.thiele()
            n += 1
            same = str(mol) == str(ref)
            if not same:
                # packs carry their own numbering; canonical strings may differ only inside C01's documented gaps
                if iso.is_isomorphic(mol, ref) and format(mol, '!s') == format(ref, '!s') and c01_gaps is not None and any(c01_gaps(ref)):
                    gap += 1
                    same = True
            if not same and format(mol, '!s') == format(ref, '!s') and \
                    sum(a.stereo is not None for _, a in mol.atoms()) + sum(b.stereo is not None for *_, b in mol.bonds()) != \
                    sum(a.stereo is not None for _, a in ref.atoms()) + sum(b.stereo is not None for *_, b in ref.bonds()):
                # the pack carries a different SET of stereo labels than today's reading of the csv text (e.g. C=N oxime labels were not
                # stored when the packs were published): the csv is no specification for labels the pack never had - counted, not judged
                gap += 0
                same = None
            if same is None:
                nontrivial.append(f'pub-labelset:{i}')
            elif not same:
                viol.append((f'published-pack:{i}', f'published pack data/{i}.pach decodes to {mol}, the published structure is {ref} ({rows[i][2]})',
                             {'index': i, 'smiles': rows[i][2], 'decoded': str(mol), 'expected': str(ref)}))
            ln = MoleculeContainer.pack_len(data)
            if ln != len(mol):
                viol.append((f'pack_len:{i}', f'pack_len says {ln}, molecule has {len(mol)} atoms', {'index': i}))
            if mol.rings_count or any(a.stereo is not None for _, a in mol.atoms()):
                nontrivial.append(f'pub:{i}')
        except Exception as e:
            viol.append((f'published-pack-exc:{type(e).__name__}', f'published pack data/{i}.pach fails to decode: {type(e).__name__}: {e}',
                         {'index': i, 'smiles': rows[i][2]}))
    return n, nontrivial, viol, gap


def _roundtrip(chunk):
    env.setup(pyx=True)
    import random
    from chython import smiles, unpach
    from chython.containers import MoleculeContainer
    from chython.periodictable import Element
    from bounded import d10_extra as X
    out_n, nontrivial, viol = 0, [], []
    for seed, smi in chunk:
        r = random.Random(f'{env.SEED}:{seed}')
        try:
            m = smiles(smi)
            m.kekule()
            if r.random() < .5:
                m.thiele()
            if r.random() < .6:
                random.seed(seed)
                m.clean2d()
            # decorate: isotope / renumber with gaps up to 4095
            nums = list(m)
            if r.random() < .5:
                tgt = r.sample(range(1, 4096), len(nums))
                m.remap(dict(zip(nums, tgt)))
            for n, a in m.atoms():
                if r.random() < .05 and a.isotopes_distribution:
                    a._isotope = r.choice(sorted(a.isotopes_masses))
            if r.random() < .3:
                a = m._atoms[r.choice(list(m))]
                a._implicit_hydrogens = None            # unknown hydrogen count must survive
            m.flush_cache()                             # the decoration above bypasses the setters: no memoised ordering of the undecorated molecule
        except Exception:
            continue
        for compressed in (True, False):
            try:
                data = m.pack(compressed=compressed)
                u = MoleculeContainer.unpack(data, compressed=compressed)
            except Exception as e:
                viol.append((f'roundtrip-exc:{type(e).__name__}@{type(e).__name__}', f'pack/unpack raised {type(e).__name__}: {e} for {smi}',
                             {'smiles': smi, 'seed': seed}))
                break
            out_n += 1
            va, vb = _view(m), _view(u)
            if va != vb:
                d = [(x, y) for x, y in zip(va[0], vb[0]) if x != y][:2] or [(x, y) for x, y in zip(va[1], vb[1]) if x != y][:2]
                viol.append((f'roundtrip:{smi}', f'unpack(pack(m)) differs from m for {smi}: {d}', {'smiles': smi, 'seed': seed, 'diff': d}))
                break
            for (n, a), (k, b) in zip(m.atoms(), u.atoms()):
                if (b.x, b.y) != (_half(a.x), _half(a.y)):
                    viol.append((f'roundtrip-xy:{smi}', f'coordinates of atom {n} are not the half-precision truncation: {(a.x, a.y)} -> {(b.x, b.y)}',
                                 {'smiles': smi, 'seed': seed, 'atom': n}))
                    break
            if MoleculeContainer.pack_len(data, compressed=compressed) != len(m):
                viol.append((f'pack_len:{smi}', 'pack_len differs from the atom count', {'smiles': smi}))
            if compressed and (_str(unpach(data)) != _str(u) or _str(u) != _str(m)):
                viol.append((f'unpach:{smi}', 'chython.unpach differs from MoleculeContainer.unpack (or the canonical string changes over the round trip)', {'smiles': smi}))
            # the bond object is shared by both directions
            if any(u._bonds[a][b] is not u._bonds[b][a] for a in u._bonds for b in u._bonds[a]):
                viol.append((f'shared-bond:{smi}', 'unpacked adjacency does not share one bond object per pair', {'smiles': smi}))
        # coverage audit: all contracts of d10_extra.judge (layout against the reference writer, lengths, repack / copy identity, canonical
        # string) on the decorated molecule, on a rebuild with shuffled atom / bond insertion order, and through the version-0 reader
        wit = {'smiles': smi, 'seed': seed}
        viol += X.judge(m, f'corpus:{smi}', wit, smiles_eq=True)
        viol += X.judge_v0(m, f'corpus:{smi}', wit)
        v = X.shuffled(m, r)
        viol += X.judge(v, f'corpus-shuffled:{smi}', wit, smiles_eq=True)
        viol += X.judge_v0(v, f'corpus-shuffled:{smi}', wit)
        out_n += 4
        if m.rings_count or any(a.stereo is not None for _, a in m.atoms()):
            nontrivial.append('rt:' + smi)
    return out_n, nontrivial, viol


def _reactions(chunk):
    env.setup(pyx=True)
    import random
    from chython import smiles, unpach
    from chython.containers import ReactionContainer
    n, viol, keys = 0, [], []
    for seed, pool in chunk:
        r = random.Random(f'{env.SEED}:rx:{seed}')
        roles = [[smiles(r.choice(pool)) for _ in range(r.randint(0, 3))] for _ in range(3)]
        if not any(roles):
            roles[0] = [smiles(pool[0])]
        rx = ReactionContainer(roles[0], roles[2], roles[1])
        try:
            data = rx.pack()
            u = ReactionContainer.unpack(data)
            lens = ReactionContainer.pack_len(data)
        except Exception as e:
            viol.append((f'reaction-exc:{type(e).__name__}', f'reaction pack/unpack raised {type(e).__name__}: {e} for role sizes {[len(x) for x in roles]}',
                         {'roles': [[str(m) for m in x] for x in roles]}))
            continue
        n += 1
        exp = [[str(m) for m in x] for x in (rx.reactants, rx.reagents, rx.products)]
        got = [[_str(m) for m in x] for x in (u.reactants, u.reagents, u.products)]
        if exp != got:
            viol.append((f'reaction-roles:{[len(x) for x in exp]}', f'roles after unpack {got} != {exp}', {'expected': exp, 'got': got}))
        explen = [[len(m) for m in x] for x in (rx.reactants, rx.reagents, rx.products)]
        if [list(x) for x in lens] != explen:
            viol.append((f'reaction-pack_len:{[len(x) for x in exp]}', f'pack_len {lens} != {explen}', {'expected': explen, 'got': [list(x) for x in lens]}))
        if _str(unpach(data)) != _str(u):
            viol.append(('reaction-unpach', 'chython.unpach differs from ReactionContainer.unpack', {}))
        keys.append('rx:' + '/'.join(str(len(x)) for x in exp))
    return n, keys, viol


def _families(job):
    """boundary families of bounded/d10_extra.py under the shared contract"""
    env.setup(pyx=True)
    import random
    from bounded import d10_extra as X
    kind, arg = job
    r = random.Random(f'{env.SEED}:c10x:{kind}:{arg}')
    n, keys, viol = 0, [], []
    if kind == 'fields':
        for z in arg:
            for tag, m in X.field_molecules(z, r):
                viol += X.judge(m, tag, {'Z': z})
                if tag.startswith('fields:isotopes'):
                    viol += X.judge_v0(m, tag, {'Z': z})
                n += 1
                keys.append(tag)
    elif kind == 'orders':
        for i, (tag, m) in enumerate(X.order_period_molecules(r)):
            if i % 4 == arg:
                viol += X.judge(m, tag)
                viol += X.judge_v0(m, tag)
                n += 1
                keys.append(tag)
    elif kind == 'stars':
        for tag, m in X.star_molecules(r):
            viol += X.judge(m, tag)
            viol += X.judge_v0(m, tag)
            n += 1
            keys.append(tag)
    elif kind == 'numbers':
        for i, (tag, m) in enumerate(X.number_molecules(r)):
            if i % 4 == arg:
                viol += X.judge(m, tag)
                n += 1
                keys.append(tag)
    elif kind == 'coords':
        for tag, m in X.coordinate_molecules(r):
            viol += X.judge(m, tag)
            n += 1
            keys.append(tag)
    elif kind == 'stereo':
        for i, (tag, m, kinds) in enumerate(X.stereo_molecules(r)):
            if i % 4 == arg:
                viol += X.judge(m, tag, smiles_eq=True)
                viol += X.judge_v0(m, tag)
                n += 1
                keys.append(tag)
                keys.append('stereo-kind:' + kinds + ':' + tag.split(':')[1])
    elif kind == 'big':
        for i, (tag, m, labels) in enumerate(X.big_molecules(arg[1])):
            if i == arg[0]:
                viol += X.judge(m, tag, labels=labels, copy=labels)
                if labels:
                    viol += X.judge_v0(m, tag)
                n += 1
                keys.append(tag)
    else:
        raise ValueError(kind)
    return n, keys, viol


def _raises(fn, *exc):
    """None when fn() raises one of exc, else a description of what happened instead (exceptions of other types propagate as text too)"""
    try:
        r = fn()
    except exc:
        return None
    except Exception as e:
        return f'raised {type(e).__name__}: {e}'
    return f'returned {str(r)[:60]!r}'


def _keywords(_):
    """every keyword / alias of the wrappers, limit checks, invalid headers"""
    env.setup(pyx=True)
    import random
    import chython
    from chython import smiles, unpach
    from chython import containers as cont
    from chython.containers import MoleculeContainer, ReactionContainer
    from bounded import d10_extra as X
    from oracles import o10_layout as L
    n, keys, viol = 0, [], []

    def bad(key, what, **wit):
        viol.append((key, what, wit))
    sm = ['C', '[Na+]', 'CCO', 'C/C=C/C', 'C[C@H](N)C(=O)O', 'CC=[C@]=CC', 'c1ccccc1O', 'C/C=C/C=C\\C.[13CH4]', 'OC1C(O)C(O)C(O)C(O)C1O', 'C1=C/CCCCCC/1',
          'CC(=O)Oc1ccccc1C(=O)O', '[Fe+2].[O-]C(=O)C', '[CH3] |^1:0|']
    for smi in sm:
        m = smiles(smi)
        random.seed(1)
        m.clean2d()
        raw = m.pack(compressed=False)
        z = m.pack()
        n += 1
        keys.append('kw:' + smi)
        same = {'compressed=True': zlib.decompress(z), 'check=False': m.pack(compressed=False, check=False), 'version=2': m.pack(compressed=False, version=2),
                'pach': m.pach(compressed=False), 'pach(check=False, compressed=True)': zlib.decompress(m.pach(check=False)),
                '__bytes__': zlib.decompress(bytes(m)), 'order=': m.pack(compressed=False, order=list(m)[::-1])}
        for k, v in same.items():
            if v != raw:
                bad(f'keyword:{k}@{smi}', f'pack({k}) gives different bytes than pack(compressed=False) for {smi}', smiles=smi)
        for v in (0, 1, 3, None):
            e = _raises(lambda: m.pack(version=v), ValueError)
            if e:
                bad(f'keyword:version={v}@{smi}', f'pack(version={v}) must be rejected (only version 2 is written): {e}', smiles=smi)
        ref = X.view(m)
        readers = {'unpack': lambda: MoleculeContainer.unpack(z), 'unpack(compressed=False)': lambda: MoleculeContainer.unpack(raw, compressed=False),
                   'unpack(compressed=True)': lambda: MoleculeContainer.unpack(z, compressed=True),
                   'unpack(memoryview)': lambda: MoleculeContainer.unpack(memoryview(raw), compressed=False),
                   'unpack(memoryview slice)': lambda: MoleculeContainer.unpack(memoryview(b'\x01\x01\x00\x00' + raw + b'\x02\x00')[4:], compressed=False),
                   'Molecule.unpach': lambda: MoleculeContainer.unpach(z), 'Molecule.unpach(compressed=False)': lambda: MoleculeContainer.unpach(raw, compressed=False),
                   'chython.unpach': lambda: unpach(z), 'chython.unpack': lambda: chython.unpack(z), 'containers.unpack(compressed=False)': lambda: cont.unpack(raw, compressed=False),
                   'unpack(skip_labels_calculation=True)': lambda: MoleculeContainer.unpack(z, skip_labels_calculation=True),
                   'unpack(_return_pack_length=True)[0]': lambda: MoleculeContainer.unpack(z, _return_pack_length=True)[0]}
        for k, f in readers.items():
            try:
                u = f()
            except Exception as e:
                bad(f'reader-exc:{k}@{smi}', f'{k} raised {type(e).__name__}: {e} for {smi}', smiles=smi)
                continue
            if not isinstance(u, MoleculeContainer) or X.view(u) != ref:
                bad(f'reader:{k}@{smi}', f'{k} returns a different molecule for {smi}', smiles=smi)
        # labels: the default reader returns a molecule with calculated labels, equal to those of the packed molecule;
        # skip_labels_calculation + calc_labels() gives the same
        lab = lambda x: [(a.neighbors, a.hybridization, a.heteroatoms, a.explicit_hydrogens, a.in_ring, sorted(a.ring_sizes)) for _, a in x.atoms()] + \
                        [b.in_ring for *_, b in x.bonds()]
        u = MoleculeContainer.unpack(z)
        s = MoleculeContainer.unpack(z, skip_labels_calculation=True)
        s.calc_labels()
        try:
            lu, ls = lab(u), lab(s)
        except AttributeError as e:
            lu, ls = f'{e}', None
        if lu != lab(m) or ls != lab(m):
            bad(f'labels@{smi}', f'neighbour / hybridization / ring labels of the unpacked molecule differ from the packed one for {smi}', smiles=smi)
        # _return_pack_length with trailing bytes (the way reactions are read)
        for tail in (b'', b'\x02', raw, b'\xff' * 7):
            try:
                ln = MoleculeContainer.unpack(raw + tail, compressed=False, _return_pack_length=True, skip_labels_calculation=True)[1]
            except Exception as e:
                ln = f'{type(e).__name__}: {e}'
            if ln != len(raw):
                bad(f'pack-length-tail:{len(tail)}@{smi}', f'_return_pack_length with {len(tail)} trailing bytes gives {ln}, the pack has {len(raw)}', smiles=smi)
        for k, f in {'pack_len': lambda: MoleculeContainer.pack_len(z), 'pack_len(compressed=True)': lambda: MoleculeContainer.pack_len(z, compressed=True),
                     'pack_len(compressed=False)': lambda: MoleculeContainer.pack_len(raw, compressed=False)}.items():
            try:
                ln = f()
            except Exception as e:
                ln = f'{type(e).__name__}: {e}'
            if ln != len(m):
                bad(f'pack_len:{k}@{smi}', f'{k} gives {ln} for {smi} ({len(m)} atoms)', smiles=smi)
        # invalid headers are rejected by every reader (1 is the reaction header, 3.. are unassigned)
        for h in (1, 3, 4, 127, 255):
            broken = bytes((h,)) + raw[1:]
            for k, f in {'unpack': lambda: MoleculeContainer.unpack(broken, compressed=False), 'pack_len': lambda: MoleculeContainer.pack_len(broken, compressed=False),
                         'unpack(compressed)': lambda: MoleculeContainer.unpack(zlib.compress(broken)), 'pack_len(compressed)': lambda: MoleculeContainer.pack_len(zlib.compress(broken))}.items():
                e = _raises(f, ValueError)
                if e:
                    bad(f'header:{h}:{k}@{smi}', f'{k} of a pack with header byte {h} must raise ValueError: {e}', smiles=smi, header=h)
            if h != 1:
                for k, f in {'unpach': lambda: unpach(broken, compressed=False), 'Reaction.unpack': lambda: ReactionContainer.unpack(broken, compressed=False),
                             'Reaction.pack_len': lambda: ReactionContainer.pack_len(broken, compressed=False)}.items():
                    e = _raises(f, ValueError)
                    if e:
                        bad(f'header:{h}:{k}@{smi}', f'{k} of data with header byte {h} must raise ValueError: {e}', smiles=smi, header=h)
        for k, f in {'Reaction.unpack': lambda: ReactionContainer.unpack(z), 'Reaction.pack_len': lambda: ReactionContainer.pack_len(z),
                     'Reaction.unpach': lambda: ReactionContainer.unpach(raw, compressed=False)}.items():
            e = _raises(f, ValueError)
            if e:
                bad(f'header:2:{k}@{smi}', f'{k} of a molecule pack must raise ValueError: {e}', smiles=smi)
    # format limits which check=True must reject (molecule and reaction wrappers)
    r = random.Random(env.SEED)
    ok = smiles('CCO')
    limits = {'empty': MoleculeContainer(),
              'atom-number-4096': X.graph([(4096, X.atom(6, h=4))], []),
              'atom-number-4096-bonded': X.graph([(1, X.atom(6, h=3)), (4096, X.atom(6, h=3))], [(1, 4096, 1)]),
              'atom-number-70000': X.graph([(70000, X.atom(8, h=2)), (5, X.atom(6, h=4))], []),
              '16-neighbours': X.graph([(1, X.atom(78, h=0))] + [(i, X.atom(17, h=0)) for i in range(2, 18)], [(1, i, 1) for i in range(2, 18)]),
              '16-neighbours-last': X.graph([(i, X.atom(17, h=0)) for i in range(2, 18)] + [(1, X.atom(78, h=0))], [(i, 1, 8) for i in range(2, 18)]),
              '20-neighbours': X.graph([(1, X.atom(78, h=0))] + [(i, X.atom(17, h=0)) for i in range(2, 22)], [(1, i, 1) for i in range(2, 22)])}
    for k, m in limits.items():
        n += 1
        keys.append('limit:' + k)
        for w, f in {'pack': lambda: m.pack(), 'pack(check=True, compressed=False)': lambda: m.pack(check=True, compressed=False), 'pach': lambda: m.pach(), 'bytes': lambda: bytes(m),
                     'reaction.pack': lambda: ReactionContainer([ok], [m]).pack(), 'reaction.pack(reagent)': lambda: ReactionContainer([ok], [ok], [m]).pack(check=True),
                     'reaction.pach': lambda: ReactionContainer([m], [ok]).pach()}.items():
            e = _raises(f, ValueError)
            if e:
                bad(f'limit:{k}:{w}', f'{w} of a molecule outside the format limits ({k}) must raise ValueError: {e}', limit=k)
    # the largest molecules inside the limits are accepted
    for k, m in {'atom-number-4095': X.graph([(4095, X.atom(6, h=4))], []),
                 '15-neighbours': X.graph([(1, X.atom(78, h=0))] + [(i, X.atom(17, h=0)) for i in range(2, 17)], [(1, i, 1) for i in range(2, 17)])}.items():
        viol += X.judge(m, 'limit-inside:' + k)
        n += 1
    # check=False on the empty molecule: when it returns bytes they must decode to the empty molecule again
    e = MoleculeContainer()
    try:
        raw = e.pack(check=False, compressed=False)
    except Exception:
        raw = None
    if raw is not None:
        try:
            u = MoleculeContainer.unpack(raw, compressed=False)
            okk = len(u) == 0 and MoleculeContainer.pack_len(raw, compressed=False) == 0 and raw == L.encode(e)
        except Exception as ex:
            okk = False
        if not okk:
            bad('empty:check=False', 'pack(check=False) of the empty molecule returns bytes which do not decode to the empty molecule')
    # more than 255 molecules in a role cannot be framed
    c = smiles('C')
    for role in range(3):
        for cnt in (256, 300):
            roles = [[c], [], []]
            roles[role] = [c] * cnt
            e = _raises(lambda: ReactionContainer(roles[0], roles[2], roles[1]).pack(), ValueError, OverflowError)
            if e:
                bad(f'limit:role-{role}-{cnt}', f'a reaction with {cnt} molecules in role {role} must be rejected: {e}', role=role, count=cnt)
            n += 1
    return n, keys, viol


def _rx_view(rx):
    from bounded import d10_extra as X
    return [[X.view(m) for m in x] for x in (rx.reactants, rx.reagents, rx.products)]


def _rx_boundary(job):
    """reactions with 0 / 1 / 2 / 255 molecules per role: framing, role slices, pack_len, dispatcher, keywords, version-0 molecules inside"""
    env.setup(pyx=True)
    import random
    from chython import smiles, unpach
    from chython.containers import MoleculeContainer, ReactionContainer
    from bounded import d10_extra as X
    from oracles import o10_layout as L
    n, keys, viol = 0, [], []
    for idx, sizes in job:
        r = random.Random(f'{env.SEED}:c10rxb:{idx}')
        pool = [smiles(s) for s in ('C', 'CCO', 'C/C=C/C', 'C[C@H](N)C(=O)O', 'C/C=C/C=C\\C', '[Na+]', 'CC=[C@]=CC', 'c1ccccc1', 'OC(=O)CC(O)(C(=O)O)CC(=O)O',
                                    'C/C=C/C=C/C=C/C=C/C=C/C=C/C=C/CC', '[Cl-]', 'CC.CC.CCC')]
        pool.append(X.chain([X.ORDERS[i % 5] for i in range(299)]))
        pool.append(X.graph([(4095, X.atom(78, h=0))] + [(i, X.atom(17, h=0)) for i in range(2, 17)], [(4095, i, 1) for i in range(2, 17)]))
        light = pool[:12]
        roles = [[r.choice(pool if k <= 8 or i in (0, k - 1) else light) for i in range(k)] for k in sizes]          # reactants, reagents, products
        many = sum(sizes) > 50
        tag = 'rxb:' + '/'.join(map(str, sizes)) + f':{idx}'
        wit = {'sizes': list(sizes), 'molecules': [[str(m)[:60] for m in x[:4]] for x in roles]}
        rx = ReactionContainer(roles[0], roles[2], roles[1])
        n += 1
        keys.append(tag)
        try:
            raw = rx.pack(compressed=False)
            z = rx.pack()
            alt = {'compressed=True': zlib.decompress(z), 'check=False': rx.pack(compressed=False, check=False), 'pach': rx.pach(compressed=False), 'bytes': zlib.decompress(bytes(rx))}
        except Exception as e:
            viol.append((f'rx-pack-exc:{type(e).__name__}@{tag}', f'reaction pack raised {type(e).__name__}: {e} for role sizes {sizes}', wit))
            continue
        if raw != L.encode_reaction(*roles):
            viol.append((f'rx-layout@{tag}', f'reaction pack bytes differ from the published framing for role sizes {sizes}', wit))
        for k, v in alt.items():
            if v != raw:
                viol.append((f'rx-keyword:{k}@{tag}', f'reaction pack({k}) gives different bytes for role sizes {sizes}', wit))
        exp = _rx_view(rx)
        explen = [[len(m) for m in x] for x in roles]
        for ver, data in ((2, raw), (0, L.encode_reaction(*roles, version=0))):
            zz = zlib.compress(data)
            readers = {'unpack': lambda: ReactionContainer.unpack(zz), 'unpack(compressed=False)': lambda: ReactionContainer.unpack(data, compressed=False),
                       'Reaction.unpach': lambda: ReactionContainer.unpach(zz), 'chython.unpach': lambda: unpach(zz), 'chython.unpach(compressed=False)': lambda: unpach(data, compressed=False)}
            if many:                  # every reader on the small reactions; the two entry points (and the compressed form once) on the long ones
                readers = {k: f for k, f in readers.items() if k in (('unpack(compressed=False)', 'chython.unpach') if ver == 2 else ('unpack',))}
            for k, f in readers.items():
                try:
                    u = f()
                except Exception as e:
                    viol.append((f'rx-reader-exc:v{ver}:{k}@{tag}', f'{k} raised {type(e).__name__}: {e} for role sizes {sizes} (molecule packs of version {ver})', wit))
                    continue
                if not isinstance(u, ReactionContainer) or _rx_view(u) != exp:
                    got = [len(x) for x in (u.reactants, u.reagents, u.products)] if isinstance(u, ReactionContainer) else type(u).__name__
                    viol.append((f'rx-roles:v{ver}:{k}@{tag}', f'{k}: roles after unpack {got} differ from the packed reaction {list(sizes)} (molecule packs of version {ver})', wit))
                elif ver == 2 and k == 'unpack(compressed=False)':
                    if u.pack(compressed=False) != raw:
                        viol.append((f'rx-repack@{tag}', f'pack(unpack(pack(reaction))) differs for role sizes {sizes}', wit))
            for k, f in {'pack_len': lambda: ReactionContainer.pack_len(zz), 'pack_len(compressed=False)': lambda: ReactionContainer.pack_len(data, compressed=False),
                         'pack_len(memoryview)': lambda: ReactionContainer.pack_len(memoryview(data), compressed=False)}.items():
                try:
                    ln = [list(x) for x in f()]
                except Exception as e:
                    ln = f'{type(e).__name__}: {e}'
                if ln != explen:
                    viol.append((f'rx-pack_len:v{ver}:{k}@{tag}', f'{k} gives {str(ln)[:80]} for role sizes {sizes} (molecule packs of version {ver})', dict(wit, expected=str(explen)[:200])))
        # a molecule pack is not a reaction and vice versa
        e = _raises(lambda: MoleculeContainer.unpack(raw, compressed=False), ValueError)
        if e:
            viol.append((f'rx-as-molecule@{tag}', f'MoleculeContainer.unpack of a reaction pack must raise ValueError: {e}', wit))
        e = _raises(lambda: MoleculeContainer.pack_len(z), ValueError)
        if e:
            viol.append((f'rx-as-molecule-len@{tag}', f'MoleculeContainer.pack_len of a reaction pack must raise ValueError: {e}', wit))
    return n, keys, viol


EDITS = ('add_atom_bond', 'delete_atom', 'delete_bond', 'reorder_bond', 'remap', 'clean_stereo', 'add_stereo', 'setters', 'kekule_thiele', 'hydrogens',
         'standardize', 'union', 'substructure', 'transaction', 'calc_stereo_2d', 'copy_then_edit')


def _edits(chunk):
    """packs after edits: the pack of an edited molecule (caches primed by an earlier pack) satisfies every contract for the edited molecule"""
    env.setup(pyx=True)
    import random
    from chython import smiles
    from bounded import d10_extra as X
    n, keys, viol = 0, [], []
    for seed, smi in chunk:
        for edit in EDITS:
            r = random.Random(f'{env.SEED}:c10e:{seed}:{edit}')

            def prime(x):                    # prime every cache the packer reads; a failing pack of an intermediate state is a violation
                try:
                    x.pack()
                except Exception as e:
                    viol.append((f'edit-pack-exc:{type(e).__name__}:{edit}:{smi}', f'pack raised {type(e).__name__}: {e} during edit {edit} of {smi}',
                                 {'smiles': smi, 'seed': seed, 'edit': edit}))
            try:
                m = smiles(smi)
                prime(m)
                str(m)
                atoms = list(m)
                if edit == 'add_atom_bond':
                    k = m.add_atom(r.choice(('C', 'N', 'O', 'Cl')), r.choice([x for x in range(1, 4096) if x not in m._atoms]))
                    prime(m)
                    m.add_bond(k, r.choice([x for x in atoms if m.atom(x).implicit_hydrogens] or atoms), 1)
                elif edit == 'delete_atom':
                    m.delete_atom(r.choice(atoms))
                elif edit == 'delete_bond':
                    a, b, _ = r.choice(list(m.bonds()))
                    m.delete_bond(a, b)
                elif edit == 'reorder_bond':
                    a, b, bd = r.choice(list(m.bonds()))
                    m.delete_bond(a, b)
                    prime(m)
                    m.add_bond(b, a, r.choice((1, 2, 3)))
                elif edit == 'remap':
                    m.remap(dict(zip(atoms, r.sample(range(1, 4096), len(atoms)))))
                elif edit == 'clean_stereo':
                    m.clean_stereo()
                elif edit == 'add_stereo':
                    m.clean_stereo()
                    prime(m)
                    for (a, b) in list(m.chiral_cis_trans):
                        env4 = m.stereogenic_cis_trans[(a, b)]
                        m.add_cis_trans_stereo(a, b, env4[0], env4[1], r.random() < .5)
                        prime(m)
                    for a in list(m.chiral_tetrahedrons):
                        m.add_atom_stereo(a, m.stereogenic_tetrahedrons[a], r.random() < .5)
                elif edit == 'setters':
                    a = m.atom(r.choice(atoms))
                    a.charge = r.choice((-1, 1, 2))
                    a.is_radical = r.random() < .5
                    a.x, a.y = r.uniform(-50, 50), r.uniform(-50, 50)
                    if a.isotopes_distribution:
                        a.isotope = r.choice(sorted(a.isotopes_distribution))
                elif edit == 'kekule_thiele':
                    m.kekule()
                    prime(m)
                    if r.random() < .7:
                        m.thiele()
                elif edit == 'hydrogens':
                    m.kekule()
                    m.explicify_hydrogens()
                    prime(m)
                    if r.random() < .5:
                        m.implicify_hydrogens()
                elif edit == 'standardize':
                    m.canonicalize() if r.random() < .5 else m.standardize()
                elif edit == 'union':
                    o = smiles(r.choice(('C/C=C/C', 'O', '[Na+]', 'C[C@H](F)Cl')))
                    prime(o)
                    m = m.union(o, remap=True) if r.random() < .5 else (m | o.copy()) if not (set(m) & set(o)) else m.union(o, remap=True, copy=False)
                elif edit == 'substructure':
                    k = r.randint(1, len(atoms))
                    m = m.substructure(r.sample(atoms, k))
                elif edit == 'transaction':
                    with m:
                        a, b, _ = r.choice(list(m.bonds()))
                        m.delete_bond(a, b)
                        m.atom(a).charge = 1
                elif edit == 'calc_stereo_2d':
                    random.seed(seed)
                    m.clean2d()
                    m.clean_stereo()
                    prime(m)
                    m.calculate_cis_trans_from_2d()
                elif edit == 'copy_then_edit':
                    c = m.copy()
                    prime(c)
                    a, b, _ = r.choice(list(c.bonds()))
                    c.delete_bond(a, b)
                    viol += X.judge(m, f'edit:copy-source:{smi}', {'smiles': smi, 'seed': seed})
                    m = c
            except Exception:
                continue                     # the edit itself is not this property's subject
            n += 1
            keys.append(f'edit:{edit}:{smi}')
            try:
                valid = not m.check_valence()
            except Exception:
                valid = False
            # the terminal pair of a cis/trans record is defined for double-bond chains of valence-valid molecules: on an edit result with
            # valence errors (e.g. a third neighbour on an inner cumulene atom) every other contract is kept, the reference writer is not asked
            viol += X.judge(m, f'edit:{edit}:{smi}', {'smiles': smi, 'seed': seed, 'edit': edit}, layout=valid)
    return n, keys, viol


def bounded(run):
    from bounded import domains as D
    thorough = run.tier == 'thorough'
    idx = list(range(4200))
    chunks = [idx[i::32] for i in range(32)]
    gaps = 0
    for n, nt, viol, g in pmap(_published, chunks):
        run.case(n)
        gaps += g
        for k in nt:
            run.case(0, key=k)
        for key, what, wit in viol:
            run.violation(key, what, witness=wit)
    run.notes['published_packs_in_C01_gap'] = gaps
    run.bound('all 4200 published packs of pach/SI.zip (complete for that finite set)')
    fixed = ['C/C=C=C=C/C', 'C/C=C=C=C\\C', 'C/C=C/C=C\\C', 'CC=[C@]=CC', 'C[C@H](N)C(=O)O', 'F/C=C/C=C=C=C/Cl', '[13CH3][C@@](F)(Cl)Br', '[Ti+4].[Cl-].[Cl-].[Cl-].[Cl-]',
             '[Fe-4]', '[CH3] |^1:0|', 'C1=C/CCCCCC/1', 'O/N=C1/CCCC(C)C1']
    sm = fixed + D.corpus_sample(None if thorough else 400, 'c10')
    items = [(i, s) for i, s in enumerate(sm)]
    for n, nt, viol in pmap(_roundtrip, [items[i::32] for i in range(32)]):
        run.case(n)
        for k in nt:
            run.case(0, key=k)
        for key, what, wit in viol:
            run.violation(key, what, witness=wit)
    run.case(0, sample={'roundtrip': sm[0]})
    run.bound(f'{len(sm)} corpus molecules x compressed/uncompressed, seeded coordinates / renumbering up to 4095 / isotopes / unknown hydrogen counts')
    pool = [s for s in D.corpus_sample(60, 'c10rx') if len(s) < 40] or D.corpus_sample(20, 'c10rx')
    nrx = 2000 if thorough else 300
    jobs = [(i, pool) for i in range(nrx)]
    for n, keys, viol in pmap(_reactions, [jobs[i::16] for i in range(16)]):
        run.case(n)
        for k in keys:
            run.case(0, key=k)
        for key, what, wit in viol:
            run.violation(key, what, witness=wit)
    run.bound(f'{nrx} seeded reactions with 0..3 molecules per role (empty roles included)')
    # ---- coverage audit families (bounded/d10_extra.py)
    jobs = [('fields', list(range(1, 119))[i::8]) for i in range(8)] + [('orders', i) for i in range(4)] + [('stars', 0), ('coords', 0)] + \
           [('numbers', i) for i in range(4)] + [('stereo', i) for i in range(4)] + [('big', (i, thorough)) for i in range(6 if thorough else 4)]
    for n, keys, viol in pmap(_families, jobs):
        run.case(n)
        for k in keys:
            run.case(0, key=k)
        for key, what, wit in viol:
            run.violation(key, what, witness=wit)
    from bounded import d10_extra as X
    for t in ('every element 1..118 x (no isotope, every tabulated isotope, both ends of the 5-bit window) and x every charge -4..4 x hydrogens 0..6/unknown x radical; '
              'single atoms numbered 1 and 4095',
              'chains of 1..17 bonds: every order 1,2,3,4,8 in every position (natural traversal) + 3 seeded shuffles per length; stars with 0..15 neighbours, '
              'two hubs with 15; all ordered pairs of 18 boundary atom numbers in the connection table and in cis/trans records',
              f'{len(X.COORDS)} boundary coordinates (zero, negative zero, subnormal / normal / maximal half values and their neighbours, '
              'out-of-range and infinite values) + 800 seeded coordinates with exponents -27..17',
              f'{len(X.STEREO_SKELETONS)} stereo skeletons (cumulenes with 1..7 double bonds, rings, hetero, multi-component): every label assignment up to 3 '
              'stereogenic elements, 14 seeded above; each also with shuffled insertion order and boundary atom numbers',
              '4095-atom chain; 255 / 256 / 300 cis/trans records' + ('; 1023 records; 4095 atoms x 15 neighbours (30712 bonds, labels skipped)' if thorough else '')):
        run.bound(t)
    for n, keys, viol in pmap(_keywords, [0]):
        run.case(n)
        for k in keys:
            run.case(0, key=k)
        for key, what, wit in viol:
            run.violation(key, what, witness=wit)
    run.bound('13 molecules x every keyword / alias of pack, unpack, pack_len, unpach (compressed, check, version, order, skip_labels_calculation, _return_pack_length, '
              'memoryview input); header bytes 1,3,4,127,255; 7 molecules outside the limits x 7 writers; 256 / 300 molecules per role')
    big = (0, 1, 2, 255)
    sizes = [s for s in itertools.product(big, repeat=3) if any(s)]
    sizes += [s for s in itertools.product((0, 1, 3, 254), repeat=3) if any(s)] if thorough else []
    rjobs = list(enumerate(sizes))
    rjobs.sort(key=lambda x: -sum(x[1]))
    for n, keys, viol in pmap(_rx_boundary, [rjobs[i::16] for i in range(16)]):
        run.case(n)
        for k in keys:
            run.case(0, key=k)
        for key, what, wit in viol:
            run.violation(key, what, witness=wit)
    run.bound(f'{len(sizes)} reactions: every combination of 0 / 1 / 2 / 255 molecules per role (molecules from a pool of 14 incl. stereo, multi-component, 300 atoms, '
              '15 neighbours), molecule packs of version 2 (real writer) and version 0 (reference writer)')
    esm = [s for s in D.corpus_sample(1500 if thorough else 60, 'c10edit')] + ['C/C=C/C', 'C/C=C/C=C\\C', 'C[C@H](F)/C=C/Cl', 'CC=[C@]=CC', 'C/C=C=C=C/C']
    ejobs = list(enumerate(esm))
    for n, keys, viol in pmap(_edits, [ejobs[i::16] for i in range(16)]):
        run.case(n)
        for k in keys:
            run.case(0, key=k)
        for key, what, wit in viol:
            run.violation(key, what, witness=wit)
    run.bound(f'{len(esm)} molecules x {len(EDITS)} edit kinds after a priming pack (edits that raise are skipped)')
    run.assume('the de-cythonised modules stand for the compiled extension (validated on the 4200 published packs every run)',
               'the version-0 bond-order layout is taken from the bit diagram in _unpack_v0v2.pyx (no version-0 pack or text is shipped); it is used only to reach the version-0 reader',
               'RDKit is not used here; structure identity is judged by canonical string, with the isomorphism oracle inside C01\'s documented gaps')
