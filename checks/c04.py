"""C04 - see DESIGN.md §2 C04.  Deductive parts (contracts/) are added to this module as they are built; the bounded stand-in is checks/b04.py."""
from vlib import env
from checks.common import anchored, bounded_part, want, contract_sources, make_replay, t_oblig
from pysym.harness import run_cases

LEVEL = 'other'
DEDUCTIVE = []          # contract modules run by engine P for this property
FINISH = dict(rule='deductive: one obligation per path / table key; B: see run.bound entries of checks/b04.py',
              explanation='F: no memoised value read by this property\'s observables survives an edit it depends on (one obligation per covered mutator x cached key); P: calc_implicit/check_implicit for all 118 elements x charge -4..+4 x radical x every neighbour multiset (finite abstraction + execution of the real functions vs re-derivation from the raw tables); T: compiled valence rules == independent re-derivation from the raw tables for all 118 element classes; B: exhaustive element x charge x radical x bond-multiset grid against the re-derivation, a textbook model and RDKit',
              trusted_base=['CPython', 'oracles/o04_valence.py', 'RDKit valence model (one-directional, organic subset)'])
replay = make_replay('C04')


def deductive(run):
    for mod, flt in DEDUCTIVE:
        run_cases(run, mod, select=(lambda c, flt=flt: flt is None or any(x in c.name for x in flt)))


def main(run):
    env.setup()
    if want(run, 'T'):
      with anchored(run, 'C04/T'):
        from contracts import tablelemmas
        tablelemmas.C04(run)
    if want(run, 'P') or want(run, 'T'):
      with anchored(run, 'C04/P'):
        deductive(run)
    if want(run, 'P'):
      with anchored(run, 'C04/P:valence-abstraction'):
        from contracts import valence
        valence.run(run)
    if want(run, 'F'):
      with anchored(run, 'C04/F'):
        # the observables of this property are (or read) memoised values: no covered mutator leaves one of them stale (engine F restricted to the keys these observables read)
        from checks.fpart import run_F
        run_F(run, entry_points=['brutto', 'molecular_charge', 'molecular_mass', 'is_radical', 'check_valence', 'brutto_formula', 'bonds_count'])
    bounded_part(run, 'C04')
    return FINISH
