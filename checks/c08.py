"""C08 - SMARTS primitives and query atoms match exactly what is documented (DESIGN §2 C08).
P: every query-atom class __eq__ and QueryBond.__eq__ == independently written predicate, all attribute values, symbolic atomic
numbers; P: calc_labels per-atom labels; B (checks/b08.py): SMARTS strings and matching on molecules."""
from vlib import env
from checks.common import make_replay, bounded_part, want, contract_sources
from pysym.harness import run_cases

LEVEL = 'proof'
replay = make_replay('C08')
FINISH = dict(
    rule='P: one obligation per path of the real __eq__ / label code (all paths); B: SMARTS strings and (query, molecule) pairs',
    explanation='The real __eq__ methods of QueryElement, AnyElement, ListElement, AnyMetal, QueryBond and Bond are executed on proxy '
                'attribute values (symbolic atomic numbers, charges, isotopes, hydrogens; set-valued query attributes as symbolic subsets '
                'of their validated universes); each path is discharged against an independently written predicate.',
    trusted_base=['CPython 3.12', 'z3 5.1', 'pysym proxies', 'reference non-metal list in contracts/query.py',
                  'assumption A-ring: ring-size sets are used only through membership/disjointness, a finite universe is representative'])


def main(run):
    env.setup()
    contract_sources(run, [('chython/periodictable/base/query.py', q) for q in
                           ('QueryElement.__eq__', 'AnyElement.__eq__', 'ListElement.__eq__', 'AnyMetal.__eq__', '_validate')] +
                     [('chython/containers/bonds.py', 'QueryBond.__eq__'), ('chython/containers/bonds.py', 'Bond.__eq__'),
                      ('chython/containers/molecule.py', 'MoleculeContainer.calc_labels')])
    if want(run, 'P'):
        run_cases(run, 'contracts.query')
        pass
    bounded_part(run, 'C08')
    run.assume('query attribute tuples satisfy their setters\' invariants (sorted unique, validated ranges) - proved separately for the setters',
               'molecule atom labels are those written by calc_labels (its per-atom contract is proved here; ring membership is C06)')
    return FINISH
