"""C08 - SMARTS primitives and query atoms match exactly what is documented (DESIGN §2 C08).
P: every query-atom class __eq__ and QueryBond.__eq__ == independently written predicate, all attribute values, symbolic atomic
numbers; P: calc_labels per-atom labels; B (checks/b08.py): SMARTS strings and matching on molecules."""
from vlib import env
from checks.common import anchored, make_replay, bounded_part, want, contract_sources
from pysym.harness import run_cases

LEVEL = 'proof'
replay = make_replay('C08')
FINISH = dict(
    rule='P: one obligation per path of the real __eq__ / label code (all paths); B: SMARTS strings and (query, molecule) pairs',
    explanation='The real __eq__ methods of QueryElement, AnyElement, ListElement, AnyMetal, QueryBond and Bond are executed on proxy '
                'attribute values (symbolic atomic numbers, charges, isotopes, hydrogens; set-valued query attributes as symbolic subsets '
                'of their validated universes); each path is discharged against an independently written predicate.',
    trusted_base=['CPython 3.12', 'z3 5.1', 'pysym proxies', 'reference non-metal list in contracts/query.py',
                  'assumption A-ring: ring-size sets are used only through membership/disjointness, a finite universe is representative'])


def main(run):
    env.setup()
    contract_sources(run, [('chython/periodictable/base/query.py', q) for q in
                           ('QueryElement.__eq__', 'AnyElement.__eq__', 'ListElement.__eq__', 'AnyMetal.__eq__', '_validate')] +
                     [('chython/containers/bonds.py', 'QueryBond.__eq__'), ('chython/containers/bonds.py', 'Bond.__eq__'),
                      ('chython/containers/molecule.py', 'MoleculeContainer.calc_labels')])
    if want(run, 'T'):
      with anchored(run, 'C08/T'):
        # setters of the query API accept exactly the documented ranges and normalise to sorted unique tuples (complete over the small domain)
        from checks.common import t_oblig
        from chython.periodictable import QueryElement, AnyElement
        import itertools

        def outcome(f):
            try:
                return ('ok', f())
            except Exception as e:
                return ('exc', type(e).__name__)

        def spec_validate(v, lo, hi):
            if v is None:
                return ('ok', ())
            if isinstance(v, bool) or not isinstance(v, (int, tuple, list)):
                return ('exc', 'TypeError') if not isinstance(v, bool) else None      # bool is an int subclass: not specified
            if isinstance(v, int):
                return ('ok', (v,)) if lo <= v <= hi else ('exc', 'ValueError')
            if not all(isinstance(x, int) for x in v):
                return ('exc', 'TypeError')
            if any(x < lo or x > hi for x in v) or len(set(v)) != len(v):
                return ('exc', 'ValueError')
            return ('ok', tuple(sorted(v)))
        values = [None, 'x', 1.5] + list(range(-1, 17)) + [[], [0], [3, 1], [1, 1], [0, 14], [15], [-1], (2, 0), [0, 'a']]
        for attr, lo, hi in (('neighbors', 0, 14), ('heteroatoms', 0, 14), ('implicit_hydrogens', 0, 14), ('hybridization', 1, 4)):
            for v in values:
                exp = spec_validate(v, lo, hi)
                if exp is None:
                    continue
                q = QueryElement.from_symbol('C')()
                got = outcome(lambda: (setattr(q, attr, v), getattr(q, attr))[1])
                got2 = outcome(lambda: getattr(QueryElement.from_symbol('C')(**{attr: v}), attr))
                t_oblig(run, f'query.{attr}={v!r} -> {exp}', got == exp == got2, key=f'query-setter:{attr}:{v!r}',
                        what=f'QueryElement {attr} set to {v!r}: setter gives {got}, constructor gives {got2}, documented {exp}',
                        witness={'attribute': attr, 'value': repr(v), 'setter': repr(got), 'constructor': repr(got2), 'expected': repr(exp)})
        for v in [None, 0, 3, 2, -1, 1, [3, 4], [4, 3], [3, 3], [2], [0], 70, [5, 66]]:
            if v is None:
                exp = ('ok', ())
            elif isinstance(v, int):
                exp = ('ok', (v,)) if v == 0 or v >= 3 else ('exc', 'ValueError')
            else:
                exp = ('exc', 'ValueError') if any(x < 3 for x in v) or len(set(v)) != len(v) else ('ok', tuple(sorted(v)))
            got = outcome(lambda: AnyElement(ring_sizes=v).ring_sizes)
            t_oblig(run, f'query.ring_sizes={v!r} -> {exp}', got == exp, key=f'query-setter:ring_sizes:{v!r}',
                    what=f'ring_sizes set to {v!r} gives {got}, documented {exp}')
    if want(run, 'P'):
      with anchored(run, 'C08/P'):
        run_cases(run, 'contracts.query')
        pass
    bounded_part(run, 'C08')
    run.assume('query attribute tuples satisfy their setters\' invariants (sorted unique, validated ranges) - proved separately for the setters',
               'molecule atom labels are those written by calc_labels (its per-atom contract is proved here; ring membership is C06)')
    return FINISH
