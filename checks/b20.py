"""C20 bounded stand-in (engine B): the RDKit bridge preserves structure and configuration in both directions and the two
conversions are mutually inverse.  RDKit is the trusted external oracle (DESIGN §2 C20); contracts are attached to the real
chython.utils.to_rdkit_molecule / from_rdkit_molecule; never counted as proof."""
from vlib import env
from vlib.report import pmap

RULE = ('distinct non-trivial = distinct (contract, form, canonical SMILES) of molecules with >= 2 atoms accepted by both toolkits; '
        'stereo-bearing ones additionally counted under a "stereo" key')

DECOR = ['[13CH4]', '[2H]O[2H]', '[18OH2]', 'C[13CH2]O', '[CH3]', 'C[CH]C', 'C[O]', '[OH]', '[NH4+].[Cl-]', 'C[N+](C)(C)C', 'CC(=O)[O-].[Na+]',
         '[O-][N+](=O)c1ccccc1', 'C[S+](C)[O-]', '[Ca+2].[Cl-].[Cl-]', '[Al+3]', '[O-2]', '[Fe+3]', '[C-]#[O+]', 'c1ccc[nH]1', 'c1ccncc1', 'c1ccoc1',
         'c1ccc2ccccc2c1', 'c1ccc(cc1)-c1ccccc1', 'O=c1cc[nH]cc1', 'Cn1cnc2c1c(=O)n(C)c(=O)n2C', 'C1=CC=CC=C1', 'c1ccsc1', '[nH]1cccc1C(=O)O',
         '[14CH3]c1ccccc1', 'N[13C@@H](C)C(=O)O', '[2H]C([2H])([2H])O']
COORD = ['N~[Cu+2]~N', '[Cl-]~[Pt+2](~[Cl-])(~N)~N', 'O~[Mg+2]', 'c1ccccc1~[Cr]', 'CC(=O)[O-]~[Zn+2]~[O-]C(C)=O', 'O=C~[Ni](~C=O)(~C=O)~C=O',
         'N#C~[Fe+2](~C#N)~C#N', 'C1=CC=CC=C1~[Fe]', 'CO~[Li+]', 'CSC~[Pd+2]']
STEREO = ['C[C@H](O)CC', 'C[C@@H](O)CC', 'C[C@](N)(O)CC', 'N[C@@H](C)C(=O)O', 'C/C=C/C', 'C/C=C\\C', 'C/C=C/C=C\\C', 'C[C@H]1CC[C@@H](O)CC1',
          'C[C@H](O)/C=C/[C@@H](N)C', 'OC(=O)[C@H](N)Cc1ccccc1', 'F/C(Cl)=C(/Br)I', 'C[C@@H]1CCC[C@H](C)N1', 'O[C@H]1[C@H](O)[C@@H](O)[C@H](O)[C@@H](O)[C@@H]1O',
          'C(/C=C/Cl)(=C\\C)C', 'C[C@]([H])(O)CC', '[H]/C(C)=C/C', 'C/C=C(/[H])C', 'C[C@H](F)/C=C\\[C@H](F)C', 'C[C@H](Cl)[C@@H](Cl)C', 'C[C@H](Cl)[C@H](Cl)C',
          'OC[C@H]1O[C@@H](O)[C@H](O)[C@@H](O)[C@@H]1O', 'C[C@@]12CCC[C@H]1CCCC2', 'N/C(C)=C(/C)O', 'C\\C(N)=N/O', 'CC/N=N/c1ccccc1', 'C[C@H](N)c1ccccc1',
          'CC=[C@]=CC', 'C/C=C=C=C/C', 'C[C@H](O)C=[C@]=CC', 'C[C@H]1CO1', 'C[C@@H]1C[C@H]1C', '[C@H](F)(Cl)Br', 'F[C@](Cl)(Br)I']


# --- audit extension: input classes the lists above never contained ---------------------------------------------------------
# every donor element of the library's dative-direction list bound to a metal, both written orders, twice-bound metals, noble gases
DONORS = ['CP(C)C~[Pd+2]', '[Pd+2]~P(C)(C)C', 'C[Se]C~[Pd+2]', '[Br-]~[Pt+2]', '[Pt+2](~[Br-])~[Br-]', '[I-]~[Cu+]', '[Cu+]~[I-]', 'C[As](C)C~[Pd+2]',
          'C[Te]C~[Pd+2]', 'C[Sb](C)C~[Pd+2]', '[Xe]~[Au+]', '[Ar]~[Cu+]', '[Kr]~[Au+]', '[Ne]~[Au+]', '[He]~[Au+]', '[F-]~[Fe+3]', 'O=C~[Fe]', '[Fe]~C=O',
          'F[B-](F)(F)F.[Pd+2]~N', 'CSC~[Pt+2](~[Cl-])~[Cl-]', 'C[Si](C)(C)O~[Li+]', 'C[GeH2]O~[Li+]', '[H]O([H])~[Na+]', 'N#CC~[Cu+]']
# isotope-labelled / multi-centre / dependent centres, ring E/Z (ring size >= 8), charged double-bond ends, centres next to triple bonds,
# hetero centres next to carbon centres (the hetero centre is outside the library's model, the carbon centre is not)
STEREO2 = ['C[C@]([2H])(O)CC', 'C[C@H](O)[13CH3]', 'C[C@H]([13CH3])O', 'C[C@@H](N)[C@H](C)[C@@H](N)C', 'C[C@H](O)[C@@H](C)[C@H](O)C', 'O=S(C)[C@H](C)N',
           'C1CCC/C=C/CC1', 'C1CCC/C=C\\CC1', 'C\\1=C/CCCCCC1', 'C/C=N/O', '[O-]/N=C/C', 'C(/F)=C/F', 'F/C=C/C=C/C=C\\F', 'C[C@H](F)C#C[C@@H](F)C',
           'C/C=C/[C@H](C)/C=C\\C', 'C[C@@H]1CC[C@H](C)C12CC2', 'C[C@H]1[C@@H](C)C1C', '[NH3+][C@@H](C)C(=O)[O-]', 'C[C@H]([O-])CC.[Na+]', 'C[C@H]([CH2])O',
           'C[C@@H](c1ccccc1)c1ccncc1', 'C/C(=C\\c1ccccc1)c1ccco1', 'OC(=O)/C=C/C(=O)O', 'OC(=O)/C=C\\C(=O)O', 'C[C@H](N)C(=O)N[C@@H](C)C(=O)O',
           'C[C@]1(O)CC[C@@](C)(N)CC1', 'CC[C@@](C)(O)/C=C(/C)Cl', 'C[C@H](Cl)C(C)=C(C)[C@H](C)Cl', 'C[C@@H](O)c1c[nH]cc1', 'Cl/C=C/[C@@H]1CC[C@H](Br)O1']
# smallest molecules with every neighbour of the centre / both substituents of both double-bond ends distinguishable: many spellings each
TINY = ['[C@H](F)(Cl)Br', 'F[C@](Cl)(Br)I', 'F/C(Cl)=C(/Br)I', 'F/C=C/Cl', 'F/C(Cl)=C/Br', '[2H][C@](F)(Cl)Br', 'F[C@]([H])(Cl)Br', 'C[C@H](F)/C=C(/Cl)Br']
SMALL = ['C', 'N', 'O', '[Na+]', '[Cl-]', '[H][H]', '[H+]', '[H-]', '[He]', '[Fe]', '[Pd]', '[Cu]', '[Zn]', 'C.C', '[Na]', '[Mg]', '[C]', 'C.[Mg]', '[Li]C', 'C[Mg]Br', '[AlH3]']
# RDKit's own dative SMILES (from_rdkit on DATIVE bonds in both written directions) and salts
RD_DATIVE = ['N->[Cu+2]<-N', '[Cu+2](<-N)<-N', '[Cl-]->[Pt+2](<-[Cl-])(<-N)<-N', 'CP(C)(C)->[Pd+2]', '[Pd+2]<-P(C)(C)C', 'O=C->[Ni](<-C=O)(<-C=O)<-C=O',
             'CSC->[Pd+2]', 'CO->[Li+]', 'C[Se](C)->[Pd+2]', '[Br-]->[Pt+2]<-[Br-]', 'c1ccccn1->[Cu+]', 'C[C@H](N->[Cu+2])C(=O)O', 'C/C=C/CN->[Cu+2]']


def grid():
    """single atoms [X Hn +-c] (and their radicals): every hydrogen count 0..4 and charge of the common elements - the hydrogen count the bridge
    writes has to survive RDKit's own implicit-hydrogen rule"""
    out = []
    for el in 'B C N O F Si P S Cl Br I Se As Li Na K Mg Ca Al Zn Fe Cu Sn'.split():
        for ch in (-1, 0, 1, 2):
            if ch == 2 and el not in ('Mg', 'Ca', 'Zn', 'Fe', 'Cu', 'Sn'):
                continue
            for h in range(5):
                for rad in ((0, 1) if ch == 0 else (0,)):
                    out.append(f'[{el}{"H" + str(h) if h else ""}{("+" if ch > 0 else "-") * abs(ch)}]' + (' |^1:0|' if rad else ''))
    return out


def V(family, key, what, witness, native=None):
    return (family, key, what, witness, native)


def _rd():
    from rdkit import Chem, RDLogger
    RDLogger.DisableLog('rdApp.*')
    return Chem


def rd_parse(Chem, s):
    """RDKit's reading of a SMILES, explicit hydrogen atoms kept (the bridge transfers atoms one to one)"""
    ps = Chem.SmilesParserParams()
    ps.removeHs = False
    return Chem.MolFromSmiles(s, ps)


def safe_norm(D, x):
    """normal form of a bridge result; a result the library cannot normalise is a finding, not a checker error"""
    try:
        return D.norm(x.copy()), None
    except Exception as e:
        return None, f'{type(e).__name__}: {str(e)[:100]}'


def bridge_view(m):
    """copy of m restricted to what the bridge documents as transferable: allene labels and cumulene (C=C=C=C) cis/trans labels
    removed ('allenes are not supported', 'check for simple cis-trans' in to_rdkit_molecule); returns (copy, removed)"""
    c = m.copy()
    removed = 0
    sal = c.stereogenic_allenes
    for n, a in c.atoms():
        if a.stereo is not None and n in sal:
            a._stereo = None
            removed += 1
    for path in c.stereogenic_cumulenes:
        if len(path) % 2 or len(path) == 2:
            continue
        i, j = c._stereo_cis_trans_centers[path[0]]
        if c._bonds[i][j].stereo is not None:
            c._bonds[i][j]._stereo = None
            removed += 1
    if removed:
        c.flush_cache()
    return c, removed


ORDER = {1: 'SINGLE', 2: 'DOUBLE', 3: 'TRIPLE', 4: 'AROMATIC', 8: 'DATIVE'}
# main-group non-metals / metalloids that act as donors (independent of the library's list)
NONMETAL = set('H He B C N O F Ne Si P S Cl Ar Ge As Se Br Kr Sb Te I Xe'.split())


def bare_neutral_atoms(Chem, m):
    """independent predicate on the input (family key of a known finding): atoms without neighbours, hydrogens, charge and radical
    state of an element to which RDKit's valence model assigns implicit hydrogens"""
    pt = Chem.GetPeriodicTable()
    return [n for n, a in m.atoms() if not m._bonds[n] and not a.charge and not a.is_radical and a.implicit_hydrogens == 0
            and pt.GetDefaultValence(a.atomic_number) > 0]


def outside_model(Chem, rdm):
    """RDKit stereo elements the library does not model (fixed predicates on the RDKit molecule): centres that are not carbon or have
    fewer than 3 non-hydrogen neighbours (hydrogen isotopes are hydrogens); stereo double bonds with an end without non-hydrogen substituent;
    atoms with more than one radical electron (the library keeps one flag)"""
    out = []
    for x in rdm.GetAtoms():
        if x.GetNumRadicalElectrons() > 1:
            out.append(('multiradical', x.GetIdx()))
        if str(x.GetChiralTag()) != 'CHI_UNSPECIFIED' and (x.GetAtomicNum() != 6 or sum(y.GetAtomicNum() != 1 for y in x.GetNeighbors()) < 3):
            out.append(('centre', x.GetIdx()))
    for b in rdm.GetBonds():
        if str(b.GetStereo()) in ('STEREOZ', 'STEREOE', 'STEREOCIS', 'STEREOTRANS'):
            for p, q in ((b.GetBeginAtom(), b.GetEndAtom()), (b.GetEndAtom(), b.GetBeginAtom())):
                if not any(y.GetAtomicNum() != 1 for y in p.GetNeighbors() if y.GetIdx() != q.GetIdx()):
                    out.append(('bond', b.GetIdx()))
    return out


def rd_canon(Chem, rdm):
    """RDKit canonical SMILES of the sanitised molecule without atom maps and conformers"""
    c = Chem.Mol(rdm)
    for x in c.GetAtoms():
        x.SetAtomMapNum(0)
    c.RemoveAllConformers()
    Chem.SanitizeMol(c)
    return Chem.MolToSmiles(c)


def alt_stereo_atoms(Chem, rdm, r):
    """the same RDKit molecule with the reference (stereo) atoms of every labelled double bond replaced by a seeded choice among the
    neighbours of its ends and the E/Z label flipped for an odd number of replacements; None when no bond has an alternative"""
    from rdkit.Chem import BondStereo
    c = Chem.RWMol(rdm)
    changed = 0
    for b in c.GetBonds():
        st = b.GetStereo()
        if st not in (BondStereo.STEREOE, BondStereo.STEREOZ):
            continue
        sa = list(b.GetStereoAtoms())
        x, y = b.GetBeginAtom(), b.GetEndAtom()
        if c.GetBondBetweenAtoms(x.GetIdx(), sa[0]) is None:
            x, y = y, x
        nx = r.choice([z.GetIdx() for z in x.GetNeighbors() if z.GetIdx() != y.GetIdx()])
        ny = r.choice([z.GetIdx() for z in y.GetNeighbors() if z.GetIdx() != x.GetIdx()])
        if (nx, ny) == (sa[0], sa[1]):
            continue
        if (nx != sa[0]) ^ (ny != sa[1]):
            st = BondStereo.STEREOE if st == BondStereo.STEREOZ else BondStereo.STEREOZ
        if x.GetIdx() == b.GetBeginAtomIdx():
            b.SetStereoAtoms(nx, ny)
        else:
            b.SetStereoAtoms(ny, nx)
        b.SetStereo(st)
        changed += 1
    return c.GetMol() if changed else None


def cistrans_labelled(Chem, rdm):
    """the same RDKit molecule with STEREOZ -> STEREOCIS and STEREOE -> STEREOTRANS (same reference atoms): what RDKit's non-legacy stereo
    perception (Chem.SetUseLegacyStereoPerception(False)) attaches to double bonds; None without labelled bonds"""
    from rdkit.Chem import BondStereo
    c = Chem.RWMol(rdm)
    n = 0
    for b in c.GetBonds():
        st = b.GetStereo()
        if st in (BondStereo.STEREOE, BondStereo.STEREOZ):
            b.SetStereo(BondStereo.STEREOCIS if st == BondStereo.STEREOZ else BondStereo.STEREOTRANS)
            n += 1
    return c.GetMol() if n else None


def check_to_attrs(Chem, m, rd, tag):
    """to_rdkit_molecule(m, keep_mapping=True): per-atom / per-bond transfer"""
    out = []
    if rd.GetNumAtoms() != len(m) or rd.GetNumBonds() != m.bonds_count:
        return [('to:counts', f'{len(m)} atoms / {m.bonds_count} bonds', f'{rd.GetNumAtoms()} / {rd.GetNumBonds()}')]
    conf = rd.GetConformer(0) if rd.GetNumConformers() else None
    for (n, c), a in zip(m.atoms(), rd.GetAtoms()):
        if a.GetAtomMapNum() != n:
            out.append(('to:atom-map', n, a.GetAtomMapNum()))
            break
        e = (c.atomic_number, c.isotope or 0, c.charge, bool(c.is_radical))
        g = (a.GetAtomicNum(), a.GetIsotope(), a.GetFormalCharge(), a.GetNumRadicalElectrons() > 0)
        for nm, x, y in zip(('element', 'isotope', 'charge', 'radical'), e, g):
            if x != y:
                out.append((f'to:{nm}', f'atom {n}: {x}', y))
        if c.implicit_hydrogens is not None and a.GetTotalNumHs() != c.implicit_hydrogens:
            out.append(('to:hydrogens', f'atom {n}: {c.implicit_hydrogens}', a.GetTotalNumHs()))
        if conf is None:
            out.append(('to:coordinates', 'conformer', None))
        else:
            p = conf.GetAtomPosition(a.GetIdx())
            if abs(p.x - c.x) > 1e-6 or abs(p.y - c.y) > 1e-6 or abs(p.z) > 1e-9 or conf.Is3D():
                out.append(('to:coordinates', f'atom {n}: ({c.x:.4f}, {c.y:.4f})', f'({p.x:.4f}, {p.y:.4f}, {p.z:.4f})'))
        if out:
            break
    idx = {n: i for i, n in enumerate(m)}    # atoms are added in the order of m.atoms()
    for x, y, b in m.bonds():
        rb = rd.GetBondBetweenAtoms(idx[x], idx[y])
        if rb is None:
            out.append(('to:bond-missing', f'{x}-{y}', None))
            continue
        o, t = int(b.order), str(rb.GetBondType())
        if o == 8:
            ok = t in ('DATIVE', 'ZERO')
            # direction of a dative bond: donor (main-group non-metal) -> acceptor (metal), when exactly one end is a non-metal
            dx, dy = m.atom(x).atomic_symbol in NONMETAL, m.atom(y).atomic_symbol in NONMETAL
            if ok and t == 'DATIVE' and dx != dy:
                donor = x if dx else y
                if rb.GetBeginAtomIdx() != idx[donor]:
                    out.append(('to:dative-direction', f'{x}-{y}: donor {donor}', f'begin atom idx {rb.GetBeginAtomIdx()}'))
        elif o == 4:
            ok = t == 'AROMATIC'
        elif rb.GetIsAromatic():
            ok = o in (1, 2)      # RDKit's sanitisation perceives aromaticity on the Kekule form: orders 1/2 become AROMATIC
        else:
            ok = t == ORDER[o]
        if not ok:
            out.append(('to:bond-order', f'{x}-{y}: {o}', t))
    return out


def check_from_attrs(Chem, rd, m):
    """from_rdkit_molecule(rd): atom i of rd <-> i-th atom of the result"""
    out = []
    if rd.GetNumAtoms() != len(m) or rd.GetNumBonds() != m.bonds_count:
        return [('from:counts', f'{rd.GetNumAtoms()} / {rd.GetNumBonds()}', f'{len(m)} / {m.bonds_count}')]
    conf = rd.GetConformer(0) if rd.GetNumConformers() else None
    nums = list(m)
    for (n, c), a in zip(m.atoms(), rd.GetAtoms()):
        e = (a.GetAtomicNum(), a.GetIsotope(), a.GetFormalCharge(), a.GetNumRadicalElectrons() > 0, a.GetTotalNumHs(), a.GetAtomMapNum())
        g = (c.atomic_number, c.isotope or 0, c.charge, bool(c.is_radical), c.implicit_hydrogens, getattr(c, '_parsed_mapping', None) or 0)
        for nm, x, y in zip(('element', 'isotope', 'charge', 'radical', 'hydrogens', 'atom-map'), e, g):
            if x != y:
                out.append((f'from:{nm}', f'atom idx {a.GetIdx()}: {x}', y))
        if conf is not None:
            p = conf.GetAtomPosition(a.GetIdx())
            if abs(p.x - c.x) > 1e-6 or abs(p.y - c.y) > 1e-6:
                out.append(('from:coordinates', f'({p.x:.4f}, {p.y:.4f})', f'({c.x:.4f}, {c.y:.4f})'))
        if out:
            break
    for rb in rd.GetBonds():
        x, y = nums[rb.GetBeginAtomIdx()], nums[rb.GetEndAtomIdx()]
        try:
            o = int(m.bond(x, y).order)
        except KeyError:
            out.append(('from:bond-missing', f'{x}-{y}', None))
            continue
        t = str(rb.GetBondType())
        if (o == 8 and t in ('DATIVE', 'ZERO', 'UNSPECIFIED')) or ORDER.get(o) == t:
            continue
        out.append(('from:bond-order', f'{x}-{y}: {t}', o))
    return out


def check_one(a):
    """all contracts for one input {'smiles', 'form', 'seed'}; returns (violations, info)"""
    import random
    from chython import smiles
    from chython.utils import to_rdkit_molecule, from_rdkit_molecule
    from bounded import domains as D
    from oracles import o20_gap as G
    from oracles import o11_records as O
    Chem = _rd()
    from rdkit.Chem import AllChem
    s, form = a['smiles'], a['form']
    info = {'gap_hits': 0, 'stereo': 0, 'chython_rejects': 0, 'rdkit_rejects': 0, 'coordinate': 0, 'unsupported_labels': 0, 'noncarbon_rdkit_centres': 0, 'gap_inputs': 0,
            'respellings': 0, 'respelling_skipped': 0, 'rd_variants': 0, 'rd_variant_skipped': 0, 'conformer_sets': 0, 'bare_neutral_atom_inputs': 0, 'extra_renumberings': 0, 'library_rereads': 0}
    vs = []
    wit = {'replay': 'check_one', 'args': a}
    tag = f'{s}|{form}'

    def fire(field, what, e=None, g=None, gap_mol=None, cage=False, family=None):
        """family: key of a root-cause family decided by an independent predicate on the input (else the key names the input)"""
        if gap_mol is not None and G.in_gap(gap_mol, cage=cage):
            info['gap_hits'] += 1
            info['gap_inputs'] = 1
            return
        vs.append(V(f'c20:{field}', f'c20:{field}:{family or tag}', f'{what} [{s}, {form} form]: expected {e!r}, got {g!r}', wit, {'expected': e, 'got': g}))

    try:
        m = smiles(s)
        m.kekule()
        if form == 'aromatic':
            m.thiele()
    except Exception:
        info['chython_rejects'] = 1
        return vs, info, None
    if m.check_valence() or any(x.implicit_hydrogens is None for _, x in m.atoms()):
        info['chython_rejects'] = 1     # valence errors: not a molecule the library accepts
        return vs, info, None
    coordinate = any(b.order == 8 for *_, b in m.bonds())
    info['coordinate'] = int(coordinate)
    r = random.Random(f'{env.SEED}:{a.get("seed", 0)}:{s}')
    if a.get('coords'):
        random.seed(f'{env.SEED}:{s}')
        try:
            m.clean2d()
        except Exception:
            pass
    if a.get('offset'):
        m, _ = D.renumber(m, r, offset=a['offset'])
    ref_rd = None if coordinate else rd_parse(Chem, str(m))
    if ref_rd is None and not coordinate:
        info['rdkit_rejects'] = 1
        return vs, info, None
    has_st = G.has_stereo(m)
    info['stereo'] = int(has_st)
    mv, removed = bridge_view(m)
    info['unsupported_labels'] = removed

    # --- to_rdkit_molecule -----------------------------------------------------------------------------------------------
    try:
        rd = to_rdkit_molecule(m)
        rd0 = to_rdkit_molecule(m, keep_mapping=False)
    except Exception as e:
        # (coordinate-bond complexes of the generator list are all sanitised by RDKit on the unchanged tree: a refusal is a finding)
        fire('to:exc', f'to_rdkit_molecule raises {type(e).__name__}: {str(e)[:120]}', 'a molecule', type(e).__name__)
        return vs, info, m
    bare = bare_neutral_atoms(Chem, m)
    info['bare_neutral_atom_inputs'] = int(bool(bare))
    for field, e, g in check_to_attrs(Chem, m, rd, tag):
        fire(field, f'to_rdkit_molecule does not preserve {field[3:]}', e, g, family='bare-neutral-atom' if bare and field == 'to:hydrogens' else None)
    if bare and any(v[0] == 'c20:to:hydrogens' for v in vs):
        return vs, info, m      # the converted molecule is a different compound: the relations below would only repeat this finding
    if any(x.GetAtomMapNum() for x in rd0.GetAtoms()):
        fire('to:keep_mapping', 'keep_mapping=False still sets atom map numbers', 0, [x.GetAtomMapNum() for x in rd0.GetAtoms()][:5])
    can_to = Chem.MolToSmiles(rd0)
    if not coordinate:
        can_ref = Chem.MolToSmiles(ref_rd)
        if can_to != can_ref:
            fire('to:canonical', 'MolToSmiles(to_rdkit(m)) differs from MolToSmiles(MolFromSmiles(str(m)))', can_ref, can_to, gap_mol=m)

    # --- from_rdkit o to_rdkit = id ---------------------------------------------------------------------------------------
    try:
        back = from_rdkit_molecule(rd)
    except Exception as e:
        fire('from:exc', f'from_rdkit_molecule(to_rdkit_molecule(m)) raises {type(e).__name__}: {str(e)[:120]}', 'a molecule', type(e).__name__)
        return vs, info, m
    for field, e, g in check_from_attrs(Chem, rd, back):
        fire(field, f'from_rdkit_molecule does not preserve {field[5:]}', e, g)
    # atom-wise identity under the order-preserving map (result atoms are numbered 1..n in the order of m.atoms())
    back2 = back.copy()
    mp = dict(zip(list(back2), list(m)))
    if any(k != v for k, v in mp.items()):
        big = max(max(mp), max(mp.values())) + 1
        back2.remap({k: k + big for k in mp})
        back2.remap({k + big: v for k, v in mp.items()})
    # RDKit re-perceives aromaticity with its own model (broader than thiele): compare in the library's normal form
    nb2, err = safe_norm(D, back2)
    eb, gb = O.snap(D.norm(mv.copy())), O.snap(nb2) if nb2 is not None else err
    if eb != gb:
        fire('roundtrip:structure', 'from_rdkit(to_rdkit(m)) differs from m atom by atom', str(eb)[:300], str(gb)[:300])
    else:
        es, gs = O.stereo_snap(mv), O.stereo_snap(back2)
        if es != gs:
            fire('roundtrip:configuration', 'from_rdkit(to_rdkit(m)) changes per-centre configuration', es, gs, gap_mol=m)
        nb, nm = D.norm(back.copy()), D.norm(mv.copy())     # (back2 normalised fine above)
        if not (nb == nm) or str(nb) != str(nm) or hash(nb) != hash(nm):
            fire('roundtrip:equality', 'from_rdkit(to_rdkit(m)) != m (library canonical SMILES, both normalised)', str(nm), str(nb), gap_mol=m, cage=True)
    # to o from o to: canonical-SMILES-equal
    try:
        again = Chem.MolToSmiles(to_rdkit_molecule(back, keep_mapping=False))
        if again != can_to:
            fire('roundtrip:to-from-to', 'to_rdkit(from_rdkit(to_rdkit(m))) differs from to_rdkit(m) in RDKit canonical SMILES', can_to, again, gap_mol=m)
    except Exception as e:
        fire('roundtrip:exc', f'to_rdkit(from_rdkit(to_rdkit(m))) raises {type(e).__name__}', 'a molecule', str(e)[:120])

    # --- renumbering -----------------------------------------------------------------------------------------------------------
    nren = 1 + (a.get('renumberings', 0) if has_st or coordinate else 0)
    info['extra_renumberings'] = nren - 1
    for k in range(nren):
        m2, _ = D.renumber(m, r, offset=r.choice([0, 0, 7, 100]))
        try:
            rd2 = to_rdkit_molecule(m2)
            can2 = Chem.MolToSmiles(to_rdkit_molecule(m2, keep_mapping=False))
            if can2 != can_to:
                fire('to:renumbering', 'MolToSmiles(to_rdkit(m)) changes under renumbering of m', can_to, can2, gap_mol=m)
            # attribute transfer (atom map = atom number, dative direction, ...) holds for the renumbered molecule too
            for field, e, g in check_to_attrs(Chem, m2, rd2, tag):
                fire(field + '-renumbered', f'to_rdkit_molecule does not preserve {field[3:]} of a renumbered copy', e, g)
        except Exception as e:
            fire('to:exc-renumbered', f'to_rdkit_molecule raises {type(e).__name__} on a renumbered copy', 'a molecule', str(e)[:120])

    # --- re-spelling: other atom / bond insertion orders of the same molecule (neighbour orders of the centres change) -------------------------
    # RDKit writes seeded random spellings of its reading of str(m); the library parses them; precondition (judged by RDKit alone): RDKit reads the
    # library's canonical SMILES of the re-parsed molecule as the same compound; claim: to_rdkit gives the same RDKit canonical SMILES
    nsp = a.get('respell', 0) if not coordinate else 0
    if nsp and (has_st or a.get('respell_all')):
        seen_sp = set()
        for sp in Chem.MolToRandomSmilesVect(ref_rd, nsp, randomSeed=(env.SEED * 7919 + a.get('seed', 0)) % 2147483647 + 1):
            if sp in seen_sp:
                continue
            seen_sp.add(sp)
            try:
                mi = smiles(sp)
                mi.kekule()
                if form == 'aromatic':
                    mi.thiele()
                ri = rd_parse(Chem, str(mi))
                ok = ri is not None and not mi.check_valence() and Chem.MolToSmiles(ri) == can_ref
            except Exception:
                ok = False
            if not ok:
                info['respelling_skipped'] += 1
                continue
            info['respellings'] += 1
            try:
                cani = Chem.MolToSmiles(to_rdkit_molecule(mi, keep_mapping=False))
            except Exception as e:
                fire('to:exc-respelled', f'to_rdkit_molecule raises {type(e).__name__} on the re-parsed spelling {sp}', 'a molecule', str(e)[:120])
                continue
            if cani != can_to:
                fire('to:respelling', f'MolToSmiles(to_rdkit(m)) changes when m is built from the spelling {sp}', can_to, cani, gap_mol=m)
                continue
            try:
                bi = from_rdkit_molecule(to_rdkit_molecule(mi))
                nbi, nmi = D.norm(bi.copy()), D.norm(bridge_view(mi)[0])
                if str(nbi) != str(nmi):
                    fire('roundtrip:equality-respelled', f'from_rdkit(to_rdkit(m)) != m for m built from the spelling {sp}', str(nmi), str(nbi), gap_mol=m, cage=True)
            except Exception as e:
                fire('roundtrip:exc', f'from_rdkit(to_rdkit(m)) raises {type(e).__name__} for m built from the spelling {sp}', 'a molecule', str(e)[:120])

    # --- from_rdkit_molecule on RDKit's own molecules ----------------------------------------------------------------------------
    def from_side(rdm, label, gap_ref=None):
        """all contracts of the RDKit -> library direction for one RDKit molecule; gap_ref: the same compound without added hydrogen atoms
        for the domain filter (the bounded symmetry oracle is not reliable with every hydrogen explicit: H permutations exhaust its limit)"""
        out_model = outside_model(Chem, rdm)
        info['noncarbon_rdkit_centres'] += len(out_model)
        if any(k == 'multiradical' for k, _ in out_model):
            return None     # not representable: the library keeps one radical flag per atom
        try:
            f = from_rdkit_molecule(rdm)
        except Exception as e:
            fire('from:exc', f'from_rdkit_molecule({label}) raises {type(e).__name__}: {str(e)[:120]}', 'a molecule', type(e).__name__)
            return None
        for field, e, g in check_from_attrs(Chem, rdm, f):
            fire(field, f'from_rdkit_molecule({label}) does not preserve {field[5:]}', e, g)
        plain = Chem.Mol(rdm)
        for x in plain.GetAtoms():
            x.SetAtomMapNum(0)
        plain.RemoveAllConformers()
        rs = Chem.MolToSmiles(plain)
        # SMILES carries no radical counts (each toolkit infers them with its own valence model); CXSMILES does
        cx = Chem.MolToCXSmiles(plain) if any(x.GetNumRadicalElectrons() for x in plain.GetAtoms()) else rs
        try:
            f2 = smiles(cx)
            # accepted by both: the library reads RDKit's SMILES without valence errors and without repairing hydrogen counts
            f2 = D.norm(f2)
            if f2.check_valence() or (sorted((x.atomic_number, x.implicit_hydrogens or 0) for _, x in f2.atoms())
                                      != sorted((x.GetAtomicNum(), x.GetTotalNumHs()) for x in plain.GetAtoms())):
                info['library_rereads'] += 1
                return f
        except Exception:
            return f
        f1, err = safe_norm(D, f)
        if f1 is None:
            fire('from:invalid-result', f'from_rdkit_molecule({label}) returns a molecule the library cannot normalise (kekule/thiele)', str(f2), err)
            return f
        if str(f1) != str(f2):
            fire('from:canonical', f'str(from_rdkit({label})) differs from str(smiles(MolToSmiles(rd)))', str(f2), str(f1), gap_mol=f2 if gap_ref is None else gap_ref, cage=True)
        # renumbered RDKit molecule
        perm = list(range(rdm.GetNumAtoms()))
        r.shuffle(perm)
        try:
            f3, err = safe_norm(D, from_rdkit_molecule(Chem.RenumberAtoms(rdm, perm)))
            if f3 is None or str(f3) != str(f1):
                fire('from:renumbering', f'str(from_rdkit({label})) changes under RenumberAtoms', str(f1), str(f3) if f3 is not None else err, gap_mol=f2 if gap_ref is None else gap_ref, cage=True)
        except Exception as e:
            fire('from:exc-renumbered', f'from_rdkit_molecule raises {type(e).__name__} on a renumbered RDKit molecule', 'a molecule', str(e)[:120])
        # to o from = id on RDKit's side (carbon centres only: other centres are outside the library's model)
        if not out_model:
            try:
                t = Chem.MolToSmiles(to_rdkit_molecule(f, keep_mapping=False))
                san = Chem.Mol(plain)
                Chem.SanitizeMol(san)       # the converter sanitises (aromaticity perception): compare with the sanitised original
                rs = Chem.MolToSmiles(san)
                if t != rs:
                    fire('roundtrip:from-to', f'to_rdkit(from_rdkit({label})) differs from rd in RDKit canonical SMILES', rs, t, gap_mol=f2 if gap_ref is None else gap_ref)
            except Exception as e:
                fire('roundtrip:exc', f'to_rdkit(from_rdkit({label})) raises {type(e).__name__}', 'a molecule', str(e)[:120])
        return f

    if not coordinate:
        src = Chem.MolFromSmiles(s.split(' |')[0])    # RDKit's default reading (explicit hydrogen atoms merged)
        if src is not None and form == 'kekule':
            Chem.Kekulize(src, clearAromaticFlags=True)
        for rdm, label in ((src, 'MolFromSmiles(s)'), (ref_rd, 'MolFromSmiles(str(m))')):
            if rdm is None:
                continue
            if a.get('coords'):
                AllChem.Compute2DCoords(rdm)
            for i, x in enumerate(rdm.GetAtoms()):
                if r.random() < .3:
                    x.SetAtomMapNum(i + 1 + a.get('offset', 0))
            from_side(rdm, label)

        # --- RDKit-side input classes: the same RDKit molecule as RDKit may hand it over in other states ------------------------------------
        base = ref_rd if a.get('variants') else None
        if base is not None and not outside_model(Chem, base):
            base_can = rd_canon(Chem, base)
            variants = []
            try:
                variants.append(('AddHs(rd)', Chem.AddHs(base, addCoords=bool(base.GetNumConformers())), None))
            except Exception:
                pass
            try:
                c2 = Chem.Mol(base)
                if not c2.GetNumConformers():
                    AllChem.Compute2DCoords(c2)
                variants.append(('MolFromMolBlock(MolToMolBlock(rd))', Chem.MolFromMolBlock(Chem.MolToMolBlock(c2), removeHs=False), base_can))
            except Exception:
                pass
            try:
                variants.append(('rd with other stereo atoms', alt_stereo_atoms(Chem, base, r), base_can))
            except Exception:
                pass
            for label, rv, expect in variants:
                if rv is None:
                    continue
                try:
                    valid = expect is None or rd_canon(Chem, rv) == expect
                except Exception:
                    valid = False
                if not valid:        # RDKit itself does not regard the variant as the same compound: not an input of the claim
                    info['rd_variant_skipped'] += 1
                    continue
                info['rd_variants'] += 1
                from_side(rv, label, gap_ref=m)
            # STEREOCIS / STEREOTRANS labels: configuration relative to the stereo atoms, RDKit writes the same canonical SMILES
            rv = cistrans_labelled(Chem, base)
            if rv is not None and rd_canon(Chem, rv) == base_can:
                info['rd_variants'] += 1
                try:
                    fb, fv = D.norm(from_rdkit_molecule(base)), D.norm(from_rdkit_molecule(rv))
                    if str(fb) != str(fv):
                        lost = not any(b.stereo is not None for *_, b in fv.bonds())
                        fire('from:bond-stereo-label', 'from_rdkit_molecule reads STEREOCIS/STEREOTRANS double bonds differently from the same bonds labelled STEREOZ/STEREOE',
                             str(fb), str(fv), gap_mol=fb, family='cistrans-label-dropped' if lost else None)
                except Exception as e:
                    fire('from:exc', f'from_rdkit_molecule raises {type(e).__name__} on STEREOCIS/STEREOTRANS labels', 'a molecule', str(e)[:120])
            # 3D conformers: first conformer gives x, y; 3D conformers are kept and written back (mutual inverse)
            if a.get('conf3d') and base.GetNumHeavyAtoms() <= a['conf3d']:
                h = Chem.Mol(base)
                h.RemoveAllConformers()
                h = Chem.AddHs(h)
                try:
                    cids = list(AllChem.EmbedMultipleConfs(h, 2, randomSeed=1 + a.get('seed', 0) + env.SEED))
                except Exception:
                    cids = []
                if len(cids) == 2:
                    info['conformer_sets'] += 1
                    f = from_side(h, 'AddHs(rd) with two embedded 3D conformers', gap_ref=m)
                    if f is not None:
                        pos = [c.GetPositions() for c in h.GetConformers()]
                        got = getattr(f, '_conformers', None) or []
                        nums = list(f)
                        okc = len(got) == 2 and all(set(c) == set(nums) and all(max(abs(u - v) for u, v in zip(c[n], p[i])) < 1e-6 for i, n in enumerate(nums))
                                                    for c, p in zip(got, pos))
                        if not okc:
                            fire('from:conformers', 'from_rdkit_molecule does not keep the 3D conformers atom by atom', '2 conformers of rd', f'{len(got)} conformers / other positions')
                        else:
                            try:
                                t = to_rdkit_molecule(f)
                                cs = list(t.GetConformers())
                                okt = (len(cs) == 3 and not cs[0].Is3D() and all(c.Is3D() for c in cs[1:])
                                       and all(abs(cs[0].GetPositions()[i][k] - pos[0][i][k]) < 1e-6 for i in range(h.GetNumAtoms()) for k in (0, 1))
                                       and all(abs(c.GetPositions()[i][k] - p[i][k]) < 1e-6 for c, p in zip(cs[1:], pos) for i in range(h.GetNumAtoms()) for k in range(3)))
                                if not okt:
                                    fire('roundtrip:conformers', 'to_rdkit(from_rdkit(rd)) does not give back the 2D layout followed by the 3D conformers of rd',
                                         '1 + 2 conformers, same positions', f'{len(cs)} conformers, 3D flags {[c.Is3D() for c in cs]}')
                            except Exception as e:
                                fire('roundtrip:exc', f'to_rdkit(from_rdkit(rd with 3D conformers)) raises {type(e).__name__}', 'a molecule', str(e)[:120])
    return vs, info, m


def check_rd(a):
    """RDKit -> library direction for molecules only RDKit's SMILES dialect can spell (dative bonds '->' / '<-') and for the empty molecule"""
    from chython.containers import MoleculeContainer
    from chython.utils import to_rdkit_molecule, from_rdkit_molecule
    from bounded import domains as D
    import random
    Chem = _rd()
    s = a['rd']
    info = {'rd_dative_inputs': 0}
    vs = []
    wit = {'replay': 'check_rd', 'args': a}

    def fire(field, what, e=None, g=None):
        vs.append(V(f'c20:{field}', f'c20:{field}:rd|{s}', f'{what} [RDKit SMILES {s!r}]: expected {e!r}, got {g!r}', wit, {'expected': e, 'got': g}))

    if s == '':
        try:
            t = to_rdkit_molecule(MoleculeContainer())
            f = from_rdkit_molecule(Chem.Mol())
            f2 = from_rdkit_molecule(t)
            if t.GetNumAtoms() or len(f) or len(f2):
                fire('empty', 'the empty molecule is not converted to the empty molecule', 0, (t.GetNumAtoms(), len(f), len(f2)))
        except Exception as e:
            fire('empty', f'conversion of the empty molecule raises {type(e).__name__}', 'an empty molecule', str(e)[:120])
        return vs, info, None
    rd = Chem.MolFromSmiles(s)
    if rd is None:
        return vs, info, None
    info['rd_dative_inputs'] = 1
    r = random.Random(f'{env.SEED}:{s}')
    can = rd_canon(Chem, rd)
    ref = None
    for k in range(1 + a.get('renumberings', 0)):
        rk, label = rd, 'rd'
        if k:
            perm = list(range(rd.GetNumAtoms()))
            r.shuffle(perm)
            rk, label = Chem.RenumberAtoms(rd, perm), f'RenumberAtoms(rd, {perm})'
        try:
            f = from_rdkit_molecule(rk)
        except Exception as e:
            fire('from:exc', f'from_rdkit_molecule({label}) raises {type(e).__name__}: {str(e)[:120]}', 'a molecule', type(e).__name__)
            continue
        for field, e, g in check_from_attrs(Chem, rk, f):
            fire(field, f'from_rdkit_molecule({label}) does not preserve {field[5:]}', e, g)
        fn, err = safe_norm(D, f)
        if fn is None:
            fire('from:invalid-result', f'from_rdkit_molecule({label}) returns a molecule the library cannot normalise', 'a molecule', err)
            continue
        if ref is None:
            ref = str(fn)
        elif str(fn) != ref:
            fire('from:renumbering', f'str(from_rdkit(rd)) changes under {label}', ref, str(fn))
        if not outside_model(Chem, rk):
            try:
                t = Chem.MolToSmiles(to_rdkit_molecule(f, keep_mapping=False))
                if t != can:
                    fire('roundtrip:from-to', f'to_rdkit(from_rdkit({label})) differs from rd in RDKit canonical SMILES (dative bonds: donor -> metal)', can, t)
            except Exception as e:
                fire('roundtrip:exc', f'to_rdkit(from_rdkit({label})) raises {type(e).__name__}', 'a molecule', str(e)[:120])
    return vs, info, None


def w_items(items):
    env.setup()
    n, keys, samples, vs, st = 0, [], [], [], {}
    for a in items:
        if 'rd' in a:
            v, info, m = check_rd(a)
            vs.extend(v)
            for k, x in info.items():
                st[k] = st.get(k, 0) + x
            n += 4 * (1 + a.get('renumberings', 0))
            keys.append(f'rd|{a["rd"]}')
            continue
        v, info, m = check_one(a)
        vs.extend(v)
        for k, x in info.items():
            st[k] = st.get(k, 0) + x
        if m is None:
            continue
        n += 14 + 2 * info['extra_renumberings'] + 2 * info['respellings'] + 5 * info['rd_variants'] + 7 * info['conformer_sets']
        if len(m) >= 2:
            c = str(m)
            keys.append(f'{a["form"]}|{c}')
            if info['stereo']:
                keys.append(f'stereo|{a["form"]}|{c}')
            if info['respellings']:
                keys.append(f'respelled|{a["form"]}|{c}')
            if info['rd_variants']:
                keys.append(f'rd-variants|{a["form"]}|{c}')
            if info['conformer_sets']:
                keys.append(f'conformers|{a["form"]}|{c}')
        if len(samples) < 1 and info['stereo']:
            samples.append({'contracts': 'to-attrs, to-canonical, from-attrs, from-canonical, from.to=id, to.from=id, renumbering (both sides)',
                            'smiles': a['smiles'], 'form': a['form'], 'stereo': True})
    return n, keys, samples, vs, st


def table_findings():
    """bond-type maps: mutually inverse on {1,2,3,4,8}; chirality / bond-stereo constants are RDKit's (finite, complete)"""
    _rd()
    import chython.utils.rdkit as R
    from rdkit.Chem import BondType, ChiralType, BondStereo
    out, keys = [], []
    exp = {1: BondType.SINGLE, 2: BondType.DOUBLE, 3: BondType.TRIPLE, 4: BondType.AROMATIC, 8: BondType.DATIVE}
    for o, t in exp.items():
        keys.append(f'table|bond|{o}')
        if R._bond_map.get(o) != t:
            out.append((f'c20:table:_bond_map[{o}]', f'_bond_map[{o}] is {R._bond_map.get(o)}, RDKit type for order {o} is {t}', {'order': o}))
        if R._rdkit_bond_map.get(t) != o:
            out.append((f'c20:table:_rdkit_bond_map[{t}]', f'_rdkit_bond_map[{t}] is {R._rdkit_bond_map.get(t)}, expected {o}', {'type': str(t)}))
    for t in (BondType.ZERO, BondType.UNSPECIFIED):
        if R._rdkit_bond_map.get(t) != 8:
            out.append((f'c20:table:_rdkit_bond_map[{t}]', f'_rdkit_bond_map[{t}] is {R._rdkit_bond_map.get(t)}, expected 8', {'type': str(t)}))
    keys.append('table|stereo-constants')
    if (R._chiral_cw, R._chiral_ccw, R._cis, R._trans) != (ChiralType.CHI_TETRAHEDRAL_CW, ChiralType.CHI_TETRAHEDRAL_CCW, BondStereo.STEREOZ, BondStereo.STEREOE):
        out.append(('c20:table:stereo-constants', 'CW/CCW or Z/E constants are not RDKit\'s CHI_TETRAHEDRAL_CW/CCW, STEREOZ/STEREOE',
                    {'cw': str(R._chiral_cw), 'ccw': str(R._chiral_ccw), 'cis': str(R._cis), 'trans': str(R._trans)}))
    return out, keys


def table_lemmas(run):
    out, keys = table_findings()
    for k in keys:
        run.case(1, key=k)
    for key, what, wit in out:
        run.violation(key, what, witness={'replay': 'table', **wit})


def chunks(xs, k):
    xs = list(xs)
    return [xs[i:i + k] for i in range(0, len(xs), k)]


def bounded(run):
    from bounded import domains as D
    quick = run.tier == 'quick'
    n_corpus = 300 if quick else 4200
    corpus = D.corpus_sample(n_corpus, 'c20')
    r = D.rnd('c20')
    items = []
    for i, s in enumerate(corpus):
        for form in ('kekule', 'aromatic'):
            items.append({'smiles': s, 'form': form, 'seed': i, 'coords': i % 3 == 0, 'offset': r.choice([0, 0, 0, 50, 1000]),
                          # audit extension (see bounds): alternate the form that carries the RDKit-side variants / re-spellings
                          'variants': (i + (form == 'kekule')) % 2 == 0, 'respell': 2 if quick else 4, 'respell_all': i % 4 == 0,
                          'renumberings': 1 if quick else 3, 'conf3d': 22 if i % 5 == 0 else 0})
    atl = sorted({str(m) for g, el, od, m in D.decorated_atlas(6, trials=3 if quick else 6, tag='c20-atlas', elements=('C', 'C', 'N', 'O', 'S', 'P', 'Cl'))})
    extra = atl + DECOR + COORD + STEREO
    for i, s in enumerate(extra):
        for form in ('kekule', 'aromatic'):
            items.append({'smiles': s, 'form': form, 'seed': i, 'coords': i % 2 == 0, 'offset': 0})
            if s in STEREO or s in DECOR:
                items[-1].update(variants=True, respell=4 if quick else 12, respell_all=True, renumberings=2 if quick else 6, conf3d=30)
    gr = grid()
    extra2 = DONORS + STEREO2 + SMALL + gr
    for i, s in enumerate(extra2):
        for form in ('kekule', 'aromatic'):
            if form == 'aromatic' and (s in gr or s in SMALL):
                continue        # single atoms: one form
            items.append({'smiles': s, 'form': form, 'seed': 1000 + i, 'coords': i % 2 == 0, 'offset': [0, 0, 50, 1000][i % 4], 'variants': True,
                          'respell': 4 if quick else 12, 'respell_all': s not in gr, 'renumberings': 2 if quick else 6, 'conf3d': 30 if s not in gr else 0})
    ntiny = 24 if quick else 120
    for i, s in enumerate(TINY):
        items.append({'smiles': s, 'form': 'kekule', 'seed': 2000 + i, 'coords': False, 'offset': 0, 'variants': True, 'respell': ntiny, 'respell_all': True,
                      'renumberings': 6 if quick else 24, 'conf3d': 0})
    for i, s in enumerate(RD_DATIVE + ['']):
        items.append({'rd': s, 'renumberings': 3 if quick else 12})
    run.bound(f'seeded corpus sample {n_corpus} of 4200, {len(atl)} valence-valid decorated atlas graphs <= 6 nodes, {len(DECOR)} isotope/charge/radical/'
              f'aromatic decorations, {len(COORD)} coordinate-bond complexes, {len(STEREO)} stereo generator molecules (carbon centres, stereo double bonds, '
              f'explicit hydrogens, allenes/cumulenes as unsupported labels); each in Kekule and aromatic (thiele) form; one seeded renumbering of the '
              f'chython molecule (offsets 0/7/100; input offsets 0/50/1000) and one RenumberAtoms permutation of the RDKit molecule per relation; '
              f'2D coordinates (clean2d / Compute2DCoords) on every 3rd corpus and every 2nd generator molecule; random atom map numbers on 30 % of RDKit atoms')
    run.bound(f'audit extension: {len(DONORS)} further coordinate-bond complexes (every donor element of the dative-direction rule, both written orders), '
              f'{len(STEREO2)} further stereo molecules (isotope-labelled, dependent, ring E/Z, charged, multi-centre), {len(SMALL)} single-atom / two-atom / '
              f'organometallic inputs and the empty molecule, {len(gr)} single-atom species [X Hn charge] (23 elements x H 0..4 x charge -1..+2, neutral ones also as '
              f'radicals) of which the ones both toolkits accept are run; {len(RD_DATIVE)} RDKit dative SMILES (-> / <-) read by RDKit with {3 if quick else 12} '
              f'RenumberAtoms permutations; per-atom/bond transfer also checked on the renumbered copy; stereo-bearing / coordinate molecules get '
              f'{1 if quick else 3} (corpus) or {2 if quick else 6} (generator) further renumberings; re-spelling: {2 if quick else 4} (corpus: stereo-bearing ones and every '
              f'4th other) or {4 if quick else 12} (generator) seeded RDKit random SMILES of the same molecule re-parsed by the library; {len(TINY)} smallest centres / double '
              f'bonds with {ntiny} spellings each; RDKit-side variants of MolFromSmiles(str(m)) on every second corpus (form alternating) and every generator '
              f'molecule: AddHs, mol-block round trip, seeded other stereo atoms with flipped E/Z, STEREOCIS/STEREOTRANS labels; two embedded 3D '
              f'conformers (ETKDG, AddHs) on every 5th corpus molecule <= 22 heavy atoms and generator molecules <= 30')
    run.assume('RDKit (MolFromSmiles, SanitizeMol, AssignStereochemistry, MolToSmiles canonicalisation, CW/CCW and STEREOZ/E semantics) is the trusted oracle',
               'accepted by both toolkits: the library parses the SMILES without valence errors and with every hydrogen count assigned; RDKit parses and '
               'sanitises the library\'s canonical SMILES (coordinate-bond complexes: RDKit sanitises the converted molecule); others are counted and skipped',
               'domain filter (DESIGN C01/C20, fixed before the check): a molecule with a stereo label on a centre / double-bond end two of whose substituents '
               'are constitutionally equivalent (oracles.iso.orbits) is outside the claim for canonical-string comparisons - counted as gap_hits; symmetric cages '
               '(gap 2) only for comparisons of the library\'s canonical strings',
               'bond orders are compared modulo RDKit\'s aromaticity perception in SanitizeMol: an order 1/2 bond may be AROMATIC in the result; order 4 must be '
               'AROMATIC; order 8 must be DATIVE (ZERO accepted when reading)',
               'hydrogen counts one-directional: the library\'s assigned count must equal RDKit\'s total count',
               'allene labels and cumulene cis/trans labels are documented as not transferred; RDKit-only centres (non-carbon) are outside the library\'s model: '
               'the inverse relation on RDKit\'s side is checked for molecules whose RDKit centres are all carbon',
               'also outside the library\'s model (fixed predicates, oracles-free, on the RDKit molecule): centres with fewer than 3 non-hydrogen neighbours '
               '(deuterium counts as hydrogen), stereo double bonds with an end bearing only hydrogen, atoms with more than one radical electron',
               'RDKit-side variants are inputs of the claim only when RDKit itself writes the same canonical SMILES for the variant and the original; '
               're-spellings only when RDKit reads the library\'s canonical SMILES of the re-parsed spelling as the same compound (parser faithfulness is C02/C12)',
               'STEREOZ/STEREOE with stereo atoms other than RDKit\'s default choice mean cis/trans relative to the stereo atoms (as RDKit\'s own SMILES writer reads them)',
               '3D conformers: the statement names 2D coordinates; the conformer transfer is checked only as part of "mutually inverse" (positions within 1e-6)')
    table_lemmas(run)
    tasks = chunks(items, 10)
    res = pmap(w_items, tasks)
    stats, fam = {}, {}
    for n, keys, samples, vs, st in res:
        run.case(n)
        for k in keys:
            run.case(0, key=k)
        for s in samples:
            run.case(0, sample=s)
        for k, x in st.items():
            stats[k] = stats.get(k, 0) + x
        for v in vs:
            fam.setdefault(v[0], []).append(v)
    run.notes['c20_counts'] = stats
    run.notes['gap_hits'] = stats.get('gap_hits', 0)
    for f in sorted(fam):
        vs = sorted(fam[f], key=lambda v: (len(v[3]['args'].get('smiles', v[3]['args'].get('rd', ''))), v[1]))
        seen = set()
        for v in vs:
            if v[1] in seen:
                continue
            seen.add(v[1])
            if len(seen) > 3:
                break
            run.violation(v[1], v[2] + (f' [{len(vs)} cases in family {f}]' if len(vs) > 1 else ''), witness=v[3], native=v[4])


def replay(rec):
    env.setup()
    w = rec.get('witness') or {}
    if w.get('replay') not in ('check_one', 'check_rd'):
        return not table_findings()[0]
    vs, info, m = (check_one if w['replay'] == 'check_one' else check_rd)(w['args'])
    for v in vs:
        print('  still:', v[2][:300])
    return not vs
