"""C20 bounded stand-in (engine B): the RDKit bridge preserves structure and configuration in both directions and the two
conversions are mutually inverse.  RDKit is the trusted external oracle (DESIGN §2 C20); contracts are attached to the real
chython.utils.to_rdkit_molecule / from_rdkit_molecule; never counted as proof."""
from vlib import env
from vlib.report import pmap

RULE = ('distinct non-trivial = distinct (contract, form, canonical SMILES) of molecules with >= 2 atoms accepted by both toolkits; '
        'stereo-bearing ones additionally counted under a "stereo" key')

DECOR = ['[13CH4]', '[2H]O[2H]', '[18OH2]', 'C[13CH2]O', '[CH3]', 'C[CH]C', 'C[O]', '[OH]', '[NH4+].[Cl-]', 'C[N+](C)(C)C', 'CC(=O)[O-].[Na+]',
         '[O-][N+](=O)c1ccccc1', 'C[S+](C)[O-]', '[Ca+2].[Cl-].[Cl-]', '[Al+3]', '[O-2]', '[Fe+3]', '[C-]#[O+]', 'c1ccc[nH]1', 'c1ccncc1', 'c1ccoc1',
         'c1ccc2ccccc2c1', 'c1ccc(cc1)-c1ccccc1', 'O=c1cc[nH]cc1', 'Cn1cnc2c1c(=O)n(C)c(=O)n2C', 'C1=CC=CC=C1', 'c1ccsc1', '[nH]1cccc1C(=O)O',
         '[14CH3]c1ccccc1', 'N[13C@@H](C)C(=O)O', '[2H]C([2H])([2H])O']
COORD = ['N~[Cu+2]~N', '[Cl-]~[Pt+2](~[Cl-])(~N)~N', 'O~[Mg+2]', 'c1ccccc1~[Cr]', 'CC(=O)[O-]~[Zn+2]~[O-]C(C)=O', 'O=C~[Ni](~C=O)(~C=O)~C=O',
         'N#C~[Fe+2](~C#N)~C#N', 'C1=CC=CC=C1~[Fe]', 'CO~[Li+]', 'CSC~[Pd+2]']
STEREO = ['C[C@H](O)CC', 'C[C@@H](O)CC', 'C[C@](N)(O)CC', 'N[C@@H](C)C(=O)O', 'C/C=C/C', 'C/C=C\\C', 'C/C=C/C=C\\C', 'C[C@H]1CC[C@@H](O)CC1',
          'C[C@H](O)/C=C/[C@@H](N)C', 'OC(=O)[C@H](N)Cc1ccccc1', 'F/C(Cl)=C(/Br)I', 'C[C@@H]1CCC[C@H](C)N1', 'O[C@H]1[C@H](O)[C@@H](O)[C@H](O)[C@@H](O)[C@@H]1O',
          'C(/C=C/Cl)(=C\\C)C', 'C[C@]([H])(O)CC', '[H]/C(C)=C/C', 'C/C=C(/[H])C', 'C[C@H](F)/C=C\\[C@H](F)C', 'C[C@H](Cl)[C@@H](Cl)C', 'C[C@H](Cl)[C@H](Cl)C',
          'OC[C@H]1O[C@@H](O)[C@H](O)[C@@H](O)[C@@H]1O', 'C[C@@]12CCC[C@H]1CCCC2', 'N/C(C)=C(/C)O', 'C\\C(N)=N/O', 'CC/N=N/c1ccccc1', 'C[C@H](N)c1ccccc1',
          'CC=[C@]=CC', 'C/C=C=C=C/C', 'C[C@H](O)C=[C@]=CC', 'C[C@H]1CO1', 'C[C@@H]1C[C@H]1C', '[C@H](F)(Cl)Br', 'F[C@](Cl)(Br)I']


def V(family, key, what, witness, native=None):
    return (family, key, what, witness, native)


def _rd():
    from rdkit import Chem, RDLogger
    RDLogger.DisableLog('rdApp.*')
    return Chem


def rd_parse(Chem, s):
    """RDKit's reading of a SMILES, explicit hydrogen atoms kept (the bridge transfers atoms one to one)"""
    ps = Chem.SmilesParserParams()
    ps.removeHs = False
    return Chem.MolFromSmiles(s, ps)


def safe_norm(D, x):
    """normal form of a bridge result; a result the library cannot normalise is a finding, not a checker error"""
    try:
        return D.norm(x.copy()), None
    except Exception as e:
        return None, f'{type(e).__name__}: {str(e)[:100]}'


def bridge_view(m):
    """copy of m restricted to what the bridge documents as transferable: allene labels and cumulene (C=C=C=C) cis/trans labels
    removed ('allenes are not supported', 'check for simple cis-trans' in to_rdkit_molecule); returns (copy, removed)"""
    c = m.copy()
    removed = 0
    sal = c.stereogenic_allenes
    for n, a in c.atoms():
        if a.stereo is not None and n in sal:
            a._stereo = None
            removed += 1
    for path in c.stereogenic_cumulenes:
        if len(path) % 2 or len(path) == 2:
            continue
        i, j = c._stereo_cis_trans_centers[path[0]]
        if c._bonds[i][j].stereo is not None:
            c._bonds[i][j]._stereo = None
            removed += 1
    if removed:
        c.flush_cache()
    return c, removed


ORDER = {1: 'SINGLE', 2: 'DOUBLE', 3: 'TRIPLE', 4: 'AROMATIC', 8: 'DATIVE'}
# main-group non-metals / metalloids that act as donors (independent of the library's list)
NONMETAL = set('H He B C N O F Ne Si P S Cl Ar Ge As Se Br Kr Sb Te I Xe'.split())


def check_to_attrs(Chem, m, rd, tag):
    """to_rdkit_molecule(m, keep_mapping=True): per-atom / per-bond transfer"""
    out = []
    if rd.GetNumAtoms() != len(m) or rd.GetNumBonds() != m.bonds_count:
        return [('to:counts', f'{len(m)} atoms / {m.bonds_count} bonds', f'{rd.GetNumAtoms()} / {rd.GetNumBonds()}')]
    conf = rd.GetConformer(0) if rd.GetNumConformers() else None
    for (n, c), a in zip(m.atoms(), rd.GetAtoms()):
        if a.GetAtomMapNum() != n:
            out.append(('to:atom-map', n, a.GetAtomMapNum()))
            break
        e = (c.atomic_number, c.isotope or 0, c.charge, bool(c.is_radical))
        g = (a.GetAtomicNum(), a.GetIsotope(), a.GetFormalCharge(), a.GetNumRadicalElectrons() > 0)
        for nm, x, y in zip(('element', 'isotope', 'charge', 'radical'), e, g):
            if x != y:
                out.append((f'to:{nm}', f'atom {n}: {x}', y))
        if c.implicit_hydrogens is not None and a.GetTotalNumHs() != c.implicit_hydrogens:
            out.append(('to:hydrogens', f'atom {n}: {c.implicit_hydrogens}', a.GetTotalNumHs()))
        if conf is None:
            out.append(('to:coordinates', 'conformer', None))
        else:
            p = conf.GetAtomPosition(a.GetIdx())
            if abs(p.x - c.x) > 1e-6 or abs(p.y - c.y) > 1e-6 or abs(p.z) > 1e-9 or conf.Is3D():
                out.append(('to:coordinates', f'atom {n}: ({c.x:.4f}, {c.y:.4f})', f'({p.x:.4f}, {p.y:.4f}, {p.z:.4f})'))
        if out:
            break
    idx = {n: i for i, n in enumerate(m)}    # atoms are added in the order of m.atoms()
    for x, y, b in m.bonds():
        rb = rd.GetBondBetweenAtoms(idx[x], idx[y])
        if rb is None:
            out.append(('to:bond-missing', f'{x}-{y}', None))
            continue
        o, t = int(b.order), str(rb.GetBondType())
        if o == 8:
            ok = t in ('DATIVE', 'ZERO')
            # direction of a dative bond: donor (main-group non-metal) -> acceptor (metal), when exactly one end is a non-metal
            dx, dy = m.atom(x).atomic_symbol in NONMETAL, m.atom(y).atomic_symbol in NONMETAL
            if ok and t == 'DATIVE' and dx != dy:
                donor = x if dx else y
                if rb.GetBeginAtomIdx() != idx[donor]:
                    out.append(('to:dative-direction', f'{x}-{y}: donor {donor}', f'begin atom idx {rb.GetBeginAtomIdx()}'))
        elif o == 4:
            ok = t == 'AROMATIC'
        elif rb.GetIsAromatic():
            ok = o in (1, 2)      # RDKit's sanitisation perceives aromaticity on the Kekule form: orders 1/2 become AROMATIC
        else:
            ok = t == ORDER[o]
        if not ok:
            out.append(('to:bond-order', f'{x}-{y}: {o}', t))
    return out


def check_from_attrs(Chem, rd, m):
    """from_rdkit_molecule(rd): atom i of rd <-> i-th atom of the result"""
    out = []
    if rd.GetNumAtoms() != len(m) or rd.GetNumBonds() != m.bonds_count:
        return [('from:counts', f'{rd.GetNumAtoms()} / {rd.GetNumBonds()}', f'{len(m)} / {m.bonds_count}')]
    conf = rd.GetConformer(0) if rd.GetNumConformers() else None
    nums = list(m)
    for (n, c), a in zip(m.atoms(), rd.GetAtoms()):
        e = (a.GetAtomicNum(), a.GetIsotope(), a.GetFormalCharge(), a.GetNumRadicalElectrons() > 0, a.GetTotalNumHs(), a.GetAtomMapNum())
        g = (c.atomic_number, c.isotope or 0, c.charge, bool(c.is_radical), c.implicit_hydrogens, getattr(c, '_parsed_mapping', None) or 0)
        for nm, x, y in zip(('element', 'isotope', 'charge', 'radical', 'hydrogens', 'atom-map'), e, g):
            if x != y:
                out.append((f'from:{nm}', f'atom idx {a.GetIdx()}: {x}', y))
        if conf is not None:
            p = conf.GetAtomPosition(a.GetIdx())
            if abs(p.x - c.x) > 1e-6 or abs(p.y - c.y) > 1e-6:
                out.append(('from:coordinates', f'({p.x:.4f}, {p.y:.4f})', f'({c.x:.4f}, {c.y:.4f})'))
        if out:
            break
    for rb in rd.GetBonds():
        x, y = nums[rb.GetBeginAtomIdx()], nums[rb.GetEndAtomIdx()]
        try:
            o = int(m.bond(x, y).order)
        except KeyError:
            out.append(('from:bond-missing', f'{x}-{y}', None))
            continue
        t = str(rb.GetBondType())
        if (o == 8 and t in ('DATIVE', 'ZERO', 'UNSPECIFIED')) or ORDER.get(o) == t:
            continue
        out.append(('from:bond-order', f'{x}-{y}: {t}', o))
    return out


def check_one(a):
    """all contracts for one input {'smiles', 'form', 'seed'}; returns (violations, info)"""
    import random
    from chython import smiles
    from chython.utils import to_rdkit_molecule, from_rdkit_molecule
    from bounded import domains as D
    from oracles import o20_gap as G
    from oracles import o11_records as O
    Chem = _rd()
    from rdkit.Chem import AllChem
    s, form = a['smiles'], a['form']
    info = {'gap_hits': 0, 'stereo': 0, 'chython_rejects': 0, 'rdkit_rejects': 0, 'coordinate': 0, 'unsupported_labels': 0, 'noncarbon_rdkit_centres': 0, 'gap_inputs': 0}
    vs = []
    wit = {'replay': 'check_one', 'args': a}
    tag = f'{s}|{form}'

    def fire(field, what, e=None, g=None, gap_mol=None, cage=False):
        if gap_mol is not None and G.in_gap(gap_mol, cage=cage):
            info['gap_hits'] += 1
            info['gap_inputs'] = 1
            return
        vs.append(V(f'c20:{field}', f'c20:{field}:{tag}', f'{what} [{s}, {form} form]: expected {e!r}, got {g!r}', wit, {'expected': e, 'got': g}))

    try:
        m = smiles(s)
        m.kekule()
        if form == 'aromatic':
            m.thiele()
    except Exception:
        info['chython_rejects'] = 1
        return vs, info, None
    if m.check_valence() or any(x.implicit_hydrogens is None for _, x in m.atoms()):
        info['chython_rejects'] = 1     # valence errors: not a molecule the library accepts
        return vs, info, None
    coordinate = any(b.order == 8 for *_, b in m.bonds())
    info['coordinate'] = int(coordinate)
    r = random.Random(f'{env.SEED}:{a.get("seed", 0)}:{s}')
    if a.get('coords'):
        random.seed(f'{env.SEED}:{s}')
        try:
            m.clean2d()
        except Exception:
            pass
    if a.get('offset'):
        m, _ = D.renumber(m, r, offset=a['offset'])
    ref_rd = None if coordinate else rd_parse(Chem, str(m))
    if ref_rd is None and not coordinate:
        info['rdkit_rejects'] = 1
        return vs, info, None
    has_st = G.has_stereo(m)
    info['stereo'] = int(has_st)
    mv, removed = bridge_view(m)
    info['unsupported_labels'] = removed

    # --- to_rdkit_molecule -----------------------------------------------------------------------------------------------
    try:
        rd = to_rdkit_molecule(m)
        rd0 = to_rdkit_molecule(m, keep_mapping=False)
    except Exception as e:
        # (coordinate-bond complexes of the generator list are all sanitised by RDKit on the unchanged tree: a refusal is a finding)
        fire('to:exc', f'to_rdkit_molecule raises {type(e).__name__}: {str(e)[:120]}', 'a molecule', type(e).__name__)
        return vs, info, m
    for field, e, g in check_to_attrs(Chem, m, rd, tag):
        fire(field, f'to_rdkit_molecule does not preserve {field[3:]}', e, g)
    if any(x.GetAtomMapNum() for x in rd0.GetAtoms()):
        fire('to:keep_mapping', 'keep_mapping=False still sets atom map numbers', 0, [x.GetAtomMapNum() for x in rd0.GetAtoms()][:5])
    can_to = Chem.MolToSmiles(rd0)
    if not coordinate:
        can_ref = Chem.MolToSmiles(ref_rd)
        if can_to != can_ref:
            fire('to:canonical', 'MolToSmiles(to_rdkit(m)) differs from MolToSmiles(MolFromSmiles(str(m)))', can_ref, can_to, gap_mol=m)

    # --- from_rdkit o to_rdkit = id ---------------------------------------------------------------------------------------
    try:
        back = from_rdkit_molecule(rd)
    except Exception as e:
        fire('from:exc', f'from_rdkit_molecule(to_rdkit_molecule(m)) raises {type(e).__name__}: {str(e)[:120]}', 'a molecule', type(e).__name__)
        return vs, info, m
    for field, e, g in check_from_attrs(Chem, rd, back):
        fire(field, f'from_rdkit_molecule does not preserve {field[5:]}', e, g)
    # atom-wise identity under the order-preserving map (result atoms are numbered 1..n in the order of m.atoms())
    back2 = back.copy()
    mp = dict(zip(list(back2), list(m)))
    if any(k != v for k, v in mp.items()):
        big = max(max(mp), max(mp.values())) + 1
        back2.remap({k: k + big for k in mp})
        back2.remap({k + big: v for k, v in mp.items()})
    # RDKit re-perceives aromaticity with its own model (broader than thiele): compare in the library's normal form
    nb2, err = safe_norm(D, back2)
    eb, gb = O.snap(D.norm(mv.copy())), O.snap(nb2) if nb2 is not None else err
    if eb != gb:
        fire('roundtrip:structure', 'from_rdkit(to_rdkit(m)) differs from m atom by atom', str(eb)[:300], str(gb)[:300])
    else:
        es, gs = O.stereo_snap(mv), O.stereo_snap(back2)
        if es != gs:
            fire('roundtrip:configuration', 'from_rdkit(to_rdkit(m)) changes per-centre configuration', es, gs, gap_mol=m)
        nb, nm = D.norm(back.copy()), D.norm(mv.copy())     # (back2 normalised fine above)
        if not (nb == nm) or str(nb) != str(nm) or hash(nb) != hash(nm):
            fire('roundtrip:equality', 'from_rdkit(to_rdkit(m)) != m (library canonical SMILES, both normalised)', str(nm), str(nb), gap_mol=m, cage=True)
    # to o from o to: canonical-SMILES-equal
    try:
        again = Chem.MolToSmiles(to_rdkit_molecule(back, keep_mapping=False))
        if again != can_to:
            fire('roundtrip:to-from-to', 'to_rdkit(from_rdkit(to_rdkit(m))) differs from to_rdkit(m) in RDKit canonical SMILES', can_to, again, gap_mol=m)
    except Exception as e:
        fire('roundtrip:exc', f'to_rdkit(from_rdkit(to_rdkit(m))) raises {type(e).__name__}', 'a molecule', str(e)[:120])

    # --- renumbering -----------------------------------------------------------------------------------------------------------
    m2, _ = D.renumber(m, r, offset=r.choice([0, 0, 7, 100]))
    try:
        can2 = Chem.MolToSmiles(to_rdkit_molecule(m2, keep_mapping=False))
        if can2 != can_to:
            fire('to:renumbering', 'MolToSmiles(to_rdkit(m)) changes under renumbering of m', can_to, can2, gap_mol=m)
    except Exception as e:
        fire('to:exc-renumbered', f'to_rdkit_molecule raises {type(e).__name__} on a renumbered copy', 'a molecule', str(e)[:120])

    # --- from_rdkit_molecule on RDKit's own molecules ----------------------------------------------------------------------------
    if not coordinate:
        src = Chem.MolFromSmiles(s.split(' |')[0])    # RDKit's default reading (explicit hydrogen atoms merged)
        if src is not None and form == 'kekule':
            Chem.Kekulize(src, clearAromaticFlags=True)
        for rdm, label in ((src, 'MolFromSmiles(s)'), (ref_rd, 'MolFromSmiles(str(m))')):
            if rdm is None:
                continue
            if a.get('coords'):
                AllChem.Compute2DCoords(rdm)
            for i, x in enumerate(rdm.GetAtoms()):
                if r.random() < .3:
                    x.SetAtomMapNum(i + 1 + a.get('offset', 0))
            noncarbon = [x.GetIdx() for x in rdm.GetAtoms() if x.GetAtomicNum() != 6 and str(x.GetChiralTag()) != 'CHI_UNSPECIFIED']
            info['noncarbon_rdkit_centres'] += len(noncarbon)
            try:
                f = from_rdkit_molecule(rdm)
            except Exception as e:
                fire('from:exc', f'from_rdkit_molecule({label}) raises {type(e).__name__}: {str(e)[:120]}', 'a molecule', type(e).__name__)
                continue
            for field, e, g in check_from_attrs(Chem, rdm, f):
                fire(field, f'from_rdkit_molecule({label}) does not preserve {field[5:]}', e, g)
            plain = Chem.Mol(rdm)
            for x in plain.GetAtoms():
                x.SetAtomMapNum(0)
            plain.RemoveAllConformers()
            rs = Chem.MolToSmiles(plain)
            # SMILES carries no radical counts (each toolkit infers them with its own valence model); CXSMILES does
            cx = Chem.MolToCXSmiles(plain) if any(x.GetNumRadicalElectrons() for x in plain.GetAtoms()) else rs
            try:
                f2 = D.norm(smiles(cx))
            except Exception:
                continue
            f1, err = safe_norm(D, f)
            if f1 is None:
                fire('from:invalid-result', f'from_rdkit_molecule({label}) returns a molecule the library cannot normalise (kekule/thiele)', str(f2), err)
                continue
            if str(f1) != str(f2):
                fire('from:canonical', f'str(from_rdkit({label})) differs from str(smiles(MolToSmiles(rd)))', str(f2), str(f1), gap_mol=f2, cage=True)
            # renumbered RDKit molecule
            perm = list(range(rdm.GetNumAtoms()))
            r.shuffle(perm)
            try:
                f3, err = safe_norm(D, from_rdkit_molecule(Chem.RenumberAtoms(rdm, perm)))
                if f3 is None or str(f3) != str(f1):
                    fire('from:renumbering', f'str(from_rdkit({label})) changes under RenumberAtoms', str(f1), str(f3) if f3 is not None else err, gap_mol=f2, cage=True)
            except Exception as e:
                fire('from:exc-renumbered', f'from_rdkit_molecule raises {type(e).__name__} on a renumbered RDKit molecule', 'a molecule', str(e)[:120])
            # to o from = id on RDKit's side (carbon centres only: other centres are outside the library's model)
            if not noncarbon:
                try:
                    t = Chem.MolToSmiles(to_rdkit_molecule(f, keep_mapping=False))
                    san = Chem.Mol(plain)
                    Chem.SanitizeMol(san)       # the converter sanitises (aromaticity perception): compare with the sanitised original
                    rs = Chem.MolToSmiles(san)
                    if t != rs:
                        fire('roundtrip:from-to', f'to_rdkit(from_rdkit({label})) differs from rd in RDKit canonical SMILES', rs, t, gap_mol=f2)
                except Exception as e:
                    fire('roundtrip:exc', f'to_rdkit(from_rdkit({label})) raises {type(e).__name__}', 'a molecule', str(e)[:120])
    return vs, info, m


def w_items(items):
    env.setup()
    n, keys, samples, vs, st = 0, [], [], [], {}
    for a in items:
        v, info, m = check_one(a)
        vs.extend(v)
        for k, x in info.items():
            st[k] = st.get(k, 0) + x
        if m is None:
            continue
        n += 14
        if len(m) >= 2:
            c = str(m)
            keys.append(f'{a["form"]}|{c}')
            if info['stereo']:
                keys.append(f'stereo|{a["form"]}|{c}')
        if len(samples) < 1 and info['stereo']:
            samples.append({'contracts': 'to-attrs, to-canonical, from-attrs, from-canonical, from.to=id, to.from=id, renumbering (both sides)',
                            'smiles': a['smiles'], 'form': a['form'], 'stereo': True})
    return n, keys, samples, vs, st


def table_findings():
    """bond-type maps: mutually inverse on {1,2,3,4,8}; chirality / bond-stereo constants are RDKit's (finite, complete)"""
    _rd()
    import chython.utils.rdkit as R
    from rdkit.Chem import BondType, ChiralType, BondStereo
    out, keys = [], []
    exp = {1: BondType.SINGLE, 2: BondType.DOUBLE, 3: BondType.TRIPLE, 4: BondType.AROMATIC, 8: BondType.DATIVE}
    for o, t in exp.items():
        keys.append(f'table|bond|{o}')
        if R._bond_map.get(o) != t:
            out.append((f'c20:table:_bond_map[{o}]', f'_bond_map[{o}] is {R._bond_map.get(o)}, RDKit type for order {o} is {t}', {'order': o}))
        if R._rdkit_bond_map.get(t) != o:
            out.append((f'c20:table:_rdkit_bond_map[{t}]', f'_rdkit_bond_map[{t}] is {R._rdkit_bond_map.get(t)}, expected {o}', {'type': str(t)}))
    for t in (BondType.ZERO, BondType.UNSPECIFIED):
        if R._rdkit_bond_map.get(t) != 8:
            out.append((f'c20:table:_rdkit_bond_map[{t}]', f'_rdkit_bond_map[{t}] is {R._rdkit_bond_map.get(t)}, expected 8', {'type': str(t)}))
    keys.append('table|stereo-constants')
    if (R._chiral_cw, R._chiral_ccw, R._cis, R._trans) != (ChiralType.CHI_TETRAHEDRAL_CW, ChiralType.CHI_TETRAHEDRAL_CCW, BondStereo.STEREOZ, BondStereo.STEREOE):
        out.append(('c20:table:stereo-constants', 'CW/CCW or Z/E constants are not RDKit\'s CHI_TETRAHEDRAL_CW/CCW, STEREOZ/STEREOE',
                    {'cw': str(R._chiral_cw), 'ccw': str(R._chiral_ccw), 'cis': str(R._cis), 'trans': str(R._trans)}))
    return out, keys


def table_lemmas(run):
    out, keys = table_findings()
    for k in keys:
        run.case(1, key=k)
    for key, what, wit in out:
        run.violation(key, what, witness={'replay': 'table', **wit})


def chunks(xs, k):
    xs = list(xs)
    return [xs[i:i + k] for i in range(0, len(xs), k)]


def bounded(run):
    from bounded import domains as D
    quick = run.tier == 'quick'
    n_corpus = 300 if quick else 4200
    corpus = D.corpus_sample(n_corpus, 'c20')
    r = D.rnd('c20')
    items = []
    for i, s in enumerate(corpus):
        for form in ('kekule', 'aromatic'):
            items.append({'smiles': s, 'form': form, 'seed': i, 'coords': i % 3 == 0, 'offset': r.choice([0, 0, 0, 50, 1000])})
    atl = sorted({str(m) for g, el, od, m in D.decorated_atlas(6, trials=3 if quick else 6, tag='c20-atlas', elements=('C', 'C', 'N', 'O', 'S', 'P', 'Cl'))})
    extra = atl + DECOR + COORD + STEREO
    for i, s in enumerate(extra):
        for form in ('kekule', 'aromatic'):
            items.append({'smiles': s, 'form': form, 'seed': i, 'coords': i % 2 == 0, 'offset': 0})
    run.bound(f'seeded corpus sample {n_corpus} of 4200, {len(atl)} valence-valid decorated atlas graphs <= 6 nodes, {len(DECOR)} isotope/charge/radical/'
              f'aromatic decorations, {len(COORD)} coordinate-bond complexes, {len(STEREO)} stereo generator molecules (carbon centres, stereo double bonds, '
              f'explicit hydrogens, allenes/cumulenes as unsupported labels); each in Kekule and aromatic (thiele) form; one seeded renumbering of the '
              f'chython molecule (offsets 0/7/100; input offsets 0/50/1000) and one RenumberAtoms permutation of the RDKit molecule per relation; '
              f'2D coordinates (clean2d / Compute2DCoords) on every 3rd corpus and every 2nd generator molecule; random atom map numbers on 30 % of RDKit atoms')
    run.assume('RDKit (MolFromSmiles, SanitizeMol, AssignStereochemistry, MolToSmiles canonicalisation, CW/CCW and STEREOZ/E semantics) is the trusted oracle',
               'accepted by both toolkits: the library parses the SMILES without valence errors and with every hydrogen count assigned; RDKit parses and '
               'sanitises the library\'s canonical SMILES (coordinate-bond complexes: RDKit sanitises the converted molecule); others are counted and skipped',
               'domain filter (DESIGN C01/C20, fixed before the check): a molecule with a stereo label on a centre / double-bond end two of whose substituents '
               'are constitutionally equivalent (oracles.iso.orbits) is outside the claim for canonical-string comparisons - counted as gap_hits; symmetric cages '
               '(gap 2) only for comparisons of the library\'s canonical strings',
               'bond orders are compared modulo RDKit\'s aromaticity perception in SanitizeMol: an order 1/2 bond may be AROMATIC in the result; order 4 must be '
               'AROMATIC; order 8 must be DATIVE (ZERO accepted when reading)',
               'hydrogen counts one-directional: the library\'s assigned count must equal RDKit\'s total count',
               'allene labels and cumulene cis/trans labels are documented as not transferred; RDKit-only centres (non-carbon) are outside the library\'s model: '
               'the inverse relation on RDKit\'s side is checked for molecules whose RDKit centres are all carbon')
    table_lemmas(run)
    tasks = chunks(items, 10)
    res = pmap(w_items, tasks)
    stats, fam = {}, {}
    for n, keys, samples, vs, st in res:
        run.case(n)
        for k in keys:
            run.case(0, key=k)
        for s in samples:
            run.case(0, sample=s)
        for k, x in st.items():
            stats[k] = stats.get(k, 0) + x
        for v in vs:
            fam.setdefault(v[0], []).append(v)
    run.notes['c20_counts'] = stats
    run.notes['gap_hits'] = stats.get('gap_hits', 0)
    for f in sorted(fam):
        vs = sorted(fam[f], key=lambda v: (len(v[3]['args']['smiles']), v[1]))
        seen = set()
        for v in vs:
            if v[1] in seen:
                continue
            seen.add(v[1])
            if len(seen) > 3:
                break
            run.violation(v[1], v[2] + (f' [{len(vs)} cases in family {f}]' if len(vs) > 1 else ''), witness=v[3], native=v[4])


def replay(rec):
    env.setup()
    w = rec.get('witness') or {}
    if w.get('replay') != 'check_one':
        return not table_findings()[0]
    vs, info, m = check_one(w['args'])
    for v in vs:
        print('  still:', v[2][:300])
    return not vs
