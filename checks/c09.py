"""C09 - accelerated (compiled) matcher and reference matcher return the same mappings (DESIGN §2 C09).
P over X: words built by the real regions of _cython_compiled_structure/_cython_compiled_query == published layout; the mask tests cut
out of the de-cythonised _isomorphism.pyx on those words <=> the documented clauses (= __eq__, C08); T: struct sizes; any-metal mask
over the 118 elements; B: translated .pyx matcher vs Python matcher on (query, molecule) pairs through the real import switch."""
import struct

from vlib import env
import tables
from checks.common import anchored, make_replay, t_oblig, bounded_part, want, contract_sources
from pysym.harness import run_cases

LEVEL = 'proof'
replay = make_replay('C09')
FINISH = dict(
    rule='P/X: one obligation per path of the real word-building regions, per pure bit-level lemma, per element for the any-metal mask; '
         'B: (query, molecule) pairs, non-trivial = at least one mapping',
    explanation='F: no memoised value read by this property\'s observables survives an edit it depends on (one obligation per covered mutator x cached key); The per-atom / per-bond / per-closure regions of the two word builders are cut from the AST of the current isomorphism.py and '
                'executed on proxies (all paths); their words equal the published layout; on layout words the mask test equals the documented '
                'clauses; the test expressions of the de-cythonised .pyx equal that mask test. Together with C08 (__eq__ == clauses) this is '
                'predicate equivalence per atom, bond and closure on the documented domain.',
    trusted_base=['CPython 3.12', 'z3 5.1', 'pysym proxies and LoopCut (guarded unrolling over finite universes)',
                  'cyx translation of _isomorphism.pyx (syntactic; Cython/C semantics as stated in DESIGN §1.4)',
                  'struct native layout little-endian x86-64'])


def main(run):
    env.setup(pyx=True)
    from contracts import isobits, query as Q
    import chython.algorithms.isomorphism as iso
    with anchored(run, 'C09/regions'):
        for k, t in isobits.region_texts().items():
            run.under_contract('chython/algorithms/isomorphism.py' if k != 'pyx_tests' else 'chython/algorithms/_isomorphism.pyx', k, t)
    if want(run, 'T'):
      with anchored(run, 'C09/T'):
        # struct formats == packed struct sizes of the .pyx
        from cyx import translate, runtime
        tree, text, decls, structs = translate.build(env.read('chython/algorithms/_isomorphism.pyx'))
        for name, fields in structs.items():
            runtime.STRUCTS[name] = [tuple(f) for f in fields]
        code = {'unsigned long long': 'Q', 'unsigned int': 'I'}
        for sname, fmt_obj, pyname in (('atom_t', iso.m_atom_struct, 'm_atom_struct'), ('q_atom_t', iso.q_atom_struct, 'q_atom_struct'),
                                       ('bond_t', iso.bond_struct, 'bond_struct')):
            fmt = ''.join(code.get(t, '?') for _, t in structs[sname])
            t_oblig(run, f'struct-format[{pyname}]==packed-struct[{sname}]', fmt_obj.format == fmt and fmt_obj.size == runtime.sizeof(sname)
                    == struct.calcsize('=' + fmt), witness={'python': fmt_obj.format, 'pyx': fmt, 'size': fmt_obj.size})
        t_oblig(run, 'struct-format[header]', iso.header_struct.format == 'I' and iso.header_struct.size == 4)
        # any-metal masks vs the reference metal list, all 118 elements (concrete enumeration on the real region)
        from pysym import regions
        S = isobits._iso_src()
        from chython.periodictable import Element, AnyMetal
        for cls in sorted(Element.__subclasses__(), key=lambda c: c.atomic_number.fget(None) or 0):
            z = cls.atomic_number.fget(None)
            if not z:
                continue
            a = object.__new__(cls)
            a._charge, a._is_radical, a._implicit_hydrogens, a._neighbors, a._heteroatoms, a._hybridization = 0, False, 0, 2, 0, 1
            a._isotope, a._ring_sizes, a._in_ring = None, set(), False
            q = AnyMetal()
            bw = isobits._words_from(regions.run_region(S['s_atom'], vars(S['mod']), a=a, n=1, i=0, mapping={}, numbers=[], bits1=[], bits2=[], bits3=[], bits4=[]))
            mw = isobits._words_from(regions.run_region(S['q_atom'], vars(S['mod']), a=q, b=None, masks1=[], masks2=[], masks3=[], masks4=[]))
            fast = bool(mw[0] & bw[0]) and (mw[1] & bw[1] == bw[1]) and (mw[2] & bw[2] == bw[2]) and bool(mw[3] & bw[3])
            slow = bool(q == a)
            t_oblig(run, f'any-metal-mask[{cls.__name__}]', fast == slow == (z not in Q.NONMETALS), key=f'any-metal-mask:{cls.__name__}',
                    what=f'any-metal query vs {cls.__name__} (Z={z}): compiled mask test {fast}, Python __eq__ {slow}, reference {"metal" if z not in Q.NONMETALS else "non-metal"}',
                    witness={'element': cls.__name__, 'Z': z, 'mask_test': fast, 'python_eq': slow})
    if want(run, 'P'):
      with anchored(run, 'C09/P'):
        run_cases(run, 'contracts.isobits', engine='P/X')
    if want(run, 'F'):
      with anchored(run, 'C09/F'):
        # the observables of this property are (or read) memoised values: no covered mutator leaves one of them stale (engine F restricted to the keys these observables read)
        from checks.fpart import run_F
        run_F(run, entry_points=['_cython_compiled_structure', '_cython_compiled_query', 'get_mapping', '_compiled_query'])
    bounded_part(run, 'C09')
    run.assume('documented layout domain: Z 1..118, isotope offset -8..+8 relative to mdl_isotope, charge -4..4, implicit hydrogens 0..4 (known), '
               'neighbours/heteroatoms 0..14, hybridisation 1..4, ring sizes 3..65',
               'mdl_isotope is a function of the atomic number (query and atom of one element share it)',
               'the search skeleton of the .pyx generator (stack discipline) is covered by the bounded part only')
    return FINISH
