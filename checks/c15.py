"""C15 - see DESIGN.md §2 C15.  Deductive parts (contracts/) are added to this module as they are built; the bounded stand-in is checks/b15.py."""
from vlib import env
from checks.common import anchored, bounded_part, want, contract_sources, make_replay, t_oblig
from pysym.harness import run_cases

LEVEL = 'exploration'
DEDUCTIVE = [('contracts.hashes', ('Dynamic', 'CANARY'))]          # (contract module, case-name filter) run by engine P
FINISH = dict(rule='deductive: one obligation per path / table key; B: see run.bound entries of checks/b15.py',
              explanation='T: dynamic token tables injective and disjoint from static tokens; P: DynamicBond/DynamicElement hashed tuples and is_dynamic <=> the two sides differ, all values; B: role-order independence, round trip, exact dynamic labels vs independent diff',
              trusted_base=['CPython', 'z3', 'pysym', 'oracles/o15_diff.py'])
replay = make_replay('C15')


def deductive(run):
    for mod, flt in DEDUCTIVE:
        run_cases(run, mod, select=(lambda c, flt=flt: flt is None or any(x in c.name for x in flt)))


def main(run):
    env.setup()
    if want(run, 'T'):
      with anchored(run, 'C15/T'):
        from contracts import tablelemmas
        tablelemmas.C15(run)
    if want(run, 'P') or want(run, 'T'):
      with anchored(run, 'C15/P'):
        deductive(run)
    bounded_part(run, 'C15')
    return FINISH
