"""C12 - stereo signs are permutation-consistent and agree with an independent toolkit (DESIGN §2 C12).
T: the two permutation tables; P: the three sign translators for every neighbour order / hydrogen slot with symbolic atom numbers;
P (NRA): geometric sign functions; B (checks/b12.py): SMILES marks and wedges against RDKit."""
import itertools

from vlib import env
import tables
from checks.common import anchored, make_replay, t_oblig, bounded_part, want, contract_sources
from pysym.harness import run_cases

LEVEL = 'proof'
replay = make_replay('C12')
FINISH = dict(
    rule='P/T: one obligation per path of the real function (all paths enumerated) or per table key; '
         'B: spellings / molecules with stereo elements, non-trivial = has at least one stereo element',
    explanation='F: no memoised value read by this property\'s observables survives an edit it depends on (one obligation per covered mutator x cached key); Table lemmas by complete enumeration; sign translators and geometric sign functions executed symbolically on the real '
                'function objects (symbolic pairwise-distinct atom numbers, symbolic stored sign, real-valued coordinates), every path '
                'discharged by z3; agreement with RDKit is bounded only.',
    trusted_base=['CPython 3.12', 'z3 5.1 (BV, nlsat)', 'pysym proxies (unit-checked against CPython at setup)',
                  'floats treated as reals in the geometric obligations', 'RDKit (bounded part only)'])


def parity(p):
    return sum(1 for i in range(len(p)) for j in range(i + 1, len(p)) if p[i] > p[j]) % 2 == 1


def main(run):
    env.setup()
    import chython.algorithms.stereo as st
    contract_sources(run, [('chython/algorithms/stereo.py', q) for q in
                           ('MoleculeStereo._translate_tetrahedron_sign', 'MoleculeStereo._translate_cis_trans_sign',
                            'MoleculeStereo._translate_allene_sign', '_pyramid_sign', '_cis_trans_sign', '_allene_sign')])
    if want(run, 'T'):
      with anchored(run, 'C12/T'):
        tree = tables.module_ast('chython/algorithms/stereo.py')
        tt = tables.literal_assign(tree, '_tetrahedron_translate')
        at = tables.literal_assign(tree, '_alkene_translate')
        run.under_contract('chython/algorithms/stereo.py', '_tetrahedron_translate', repr(sorted(tt.items())))
        run.under_contract('chython/algorithms/stereo.py', '_alkene_translate', repr(sorted(at.items())))
        t_oblig(run, 'tetrahedron_translate/ast==module', tt == st._tetrahedron_translate and at == st._alkene_translate)
        keys = [k for k in itertools.permutations(range(4), 3)]
        t_oblig(run, 'tetrahedron_translate/keys-are-the-24-ordered-triples', set(tt) == set(keys) and len(tt) == 24,
                witness={'extra': sorted(set(tt) - set(keys)), 'missing': sorted(set(keys) - set(tt))})
        for k in keys:
            d = ({0, 1, 2, 3} - set(k)).pop()
            t_oblig(run, f'tetrahedron_translate[{k}]==odd-permutation', tt.get(k) is parity((*k, d)), key=f'tetrahedron_translate:{k}',
                    what=f'_tetrahedron_translate[{k}] = {tt.get(k)} but the permutation {(*k, d)} is {"odd" if parity((*k, d)) else "even"}',
                    witness={'key': k, 'value': tt.get(k)})
        akeys = [(a, b) for a in (0, 2) for b in (1, 3)] + [(b, a) for a in (0, 2) for b in (1, 3)]
        t_oblig(run, 'alkene_translate/keys-pair-the-two-ends', set(at) == set(akeys) and len(at) == 8,
                witness={'extra': sorted(set(at) - set(akeys)), 'missing': sorted(set(akeys) - set(at))})
        for k in akeys:
            a = k[0] if k[0] in (0, 2) else k[1]
            b = k[1] if k[0] in (0, 2) else k[0]
            exp = (a == 2) ^ (b == 3)
            t_oblig(run, f'alkene_translate[{k}]==single-end-exchange', at.get(k) is exp, key=f'alkene_translate:{k}',
                    what=f'_alkene_translate[{k}] = {at.get(k)}, expected {exp} (flip iff exactly one end uses its second substituent)',
                    witness={'key': k, 'value': at.get(k)})
    if want(run, 'P'):
      with anchored(run, 'C12/P'):
        run_cases(run, 'contracts.stereo')
    if want(run, 'F'):
      with anchored(run, 'C12/F'):
        # the observables of this property are (or read) memoised values: no covered mutator leaves one of them stale (engine F restricted to the keys these observables read)
        from checks.fpart import run_F
        run_F(run, entry_points=['stereogenic_tetrahedrons', 'stereogenic_allenes', 'stereogenic_cis_trans', '_translate_tetrahedron_sign', '_translate_cis_trans_sign', '_translate_allene_sign', '_wedge_map', 'add_wedge', 'calculate_cis_trans_from_2d', '_chiral_morgan', 'fix_stereo'])
    bounded_part(run, 'C12')
    run.assume('atom numbers enter the sign translators only through == / tuple.index (checked: the stub atoms raise on any other use)',
               'geometric sign functions: IEEE floats treated as real numbers (no rounding, no overflow)',
               'the wedge write/read identity and the first-atom rule are covered by the bounded part only')
    return FINISH
