"""C05 bounded stand-in (engine B): Kekule <-> aromatic conversions.

Contracts (from the property statement; DESIGN.md §2 C05), attached to the real kekule() / thiele() / enumerate_kekule():
  K  kekule(): same atoms, same bonded pairs, same charges / radicals (charges may change only on atoms matched by the repair
     rules of aromatics/_rules.py, total charge never), same formula and per-atom total H where the input had them, no bond of
     order 4 left, check_valence() == [], labels and hydrogen counts refreshed (hybridization from the bond orders; hydrogen count
     == re-derivation from the element tables), returns True iff the input had an aromatic bond or a repair rule matched,
     second call returns False and changes nothing; for aromatic spellings RDKit's Kekule form has the same per-atom H / charge.
  T  thiele(): same atoms, pairs, charges, radicals, formula; per-atom H unchanged (with fix_tautomers=False everywhere, by default
     everywhere except on N atoms), labels refreshed, every aromatic bond is a ring bond, second call changes nothing;
     kekule() of the result is a valid Kekule form that aromatises to the same string (stability of the cycle).
  E  enumerate_kekule(): every form satisfies K's post-condition, forms pairwise distinct, kekule()'s own form is among them when the
     enumeration is complete, and thiele(form_i) is one and the same canonical string == thiele(kekule(m))  (the last clause only for
     ring systems without unsaturated four-membered rings).
  N  numbering independence: canonical aromatic string after kekule(); thiele() is the same for renumbered copies.
  S  spelling independence: the aromatic and the Kekule spelling of one generated molecule normalise to the same canonical string.
"""
import itertools
from collections import Counter

from vlib import env
from vlib.report import pmap

RULE = ('non-trivial = distinct canonical molecules that have at least one aromatic ring after kekule(); thiele() (a bond of order 4); '
        'evaluations = input spellings driven through all contracts')
MAXFORMS = 32
MAXV = 300      # violations returned per work item (the parent reports one minimal witness per contract and template family)


def _setup():
    env.setup()
    from rdkit import RDLogger
    RDLogger.DisableLog('rdApp.*')


def canon(m, stereo):
    return str(m) if stereo else format(m, '!s')


def same(a, b, stereo, stats=None):
    """same molecule: equal canonical strings, or (strings differ) isomorphic by the independent attribute-aware enumerator - a
    canonical-string difference between isomorphic molecules belongs to property C01 and is only counted here"""
    if canon(a, stereo) == canon(b, stereo):
        return True
    from oracles import iso
    if iso.is_isomorphic(a, b):
        if stats is not None:
            stats.append((canon(a, stereo), canon(b, stereo)))
        return True
    return False


def rule_atoms(m):
    """atoms whose charge the repair rules of aromatics/_rules.py may set, on the input as given (re-run of the rule queries)"""
    from chython.algorithms.aromatics._rules import rules
    out = set()
    hit = False
    for q, af, bf, mm in rules:
        for mp in q.get_mapping(m, automorphism_filter=False):
            hit = True
            out.update(mp[n] for n in af)
    return out, hit


def post_kekule(k, ref, tag, allowed, name='K'):
    """post-condition of a Kekule form k against the snapshot ref of the input"""
    from oracles import o05_graph as G
    from oracles import o04_valence as V
    bad = []
    atoms, pairs, charges, radicals, hs = G.snapshot(k)
    ratoms, rpairs, rcharges, rradicals, rhs = ref
    if atoms != ratoms:
        bad.append((f'{name}1-atoms', f'{tag}: atom set changed'))
    if pairs != rpairs:
        bad.append((f'{name}2-bonded-pairs', f'{tag}: bonded pairs changed: {sorted(map(sorted, pairs ^ rpairs))}'))
    ch = sorted(n for n in charges if charges[n] != rcharges.get(n) and n not in allowed)
    if ch:
        bad.append((f'{name}3-charges', f'{tag}: charges changed on atoms {ch} not named by a repair rule'))
    if sum(charges.values()) != sum(rcharges.values()):
        bad.append((f'{name}3-total-charge', f'{tag}: total charge {sum(rcharges.values())} -> {sum(charges.values())}'))
    if radicals != rradicals:
        bad.append((f'{name}3-radicals', f'{tag}: radical flags changed'))
    o4 = sorted(sorted(e) for e, o in G.orders(k).items() if o == 4)
    if o4:
        bad.append((f'{name}4-aromatic-bond-left', f'{tag}: bonds of order 4 left: {o4[:4]}'))
    cv = k.check_valence()
    if cv:
        bad.append((f'{name}5-valence', f'{tag}: check_valence() = {cv}'))
    dh = sorted((n, rhs[n], hs[n]) for n in hs if rhs.get(n) is not None and hs[n] != rhs[n] and n not in allowed)
    if dh:
        bad.append((f'{name}6-atom-hydrogens', f'{tag}: per-atom total hydrogens changed (atom, before, after): {dh}'))
    # labels / hydrogens refreshed
    for n, a in k.atoms():
        os_ = [b.order for b in k._bonds[n].values()]
        if a.hybridization != G.hybridization(os_):
            bad.append((f'{name}9-hybridization-label', f'{tag}: atom {n} hybridization label {a.hybridization}, bonds {sorted(os_)}'))
            break
    if not o4:
        for n, a in k.atoms():
            envn = [(b.order, k._atoms[x].atomic_symbol) for x, b in k._bonds[n].items() if b.order != 8]
            exp = V.expected(a.atomic_symbol, a.charge, a.is_radical, envn)
            if a.implicit_hydrogens != exp:
                bad.append((f'{name}9-hydrogens-stale', f'{tag}: atom {n} {a.atomic_symbol} implicit_hydrogens={a.implicit_hydrogens}, '
                            f'bonds give {exp}'))
                break
    return bad


def check_molecule(m0, tag, stereo=False, seed=0, n_renumber=2, rdkit_smiles=None, c01=None):
    """all contracts on the parsed (not normalised) input m0; returns (violations [(contract, what)], (canonical aromatic string, aromatic
    normal form) or None / "rejected", has aromatic ring)"""
    import random
    from oracles import o05_graph as G
    from bounded import domains
    from chython.exceptions import InvalidAromaticRing
    bad = []
    ref = G.snapshot(m0)
    ref_formula = G.formula(m0)
    in_orders = G.orders(m0)
    had_aromatic = any(o == 4 for o in in_orders.values())
    allowed, rule_hit = rule_atoms(m0.copy())
    four = G.has_unsaturated_four_ring(m0)
    gap = getattr(c01, 'gap', None)

    def uniqueness(contract, what):
        """clauses that presuppose one aromatic form per molecule: for ring systems with an unsaturated four-membered ring the property
        records that Kekule forms may aromatise differently (biphenylene-type gap) - counted as gap hit, never a violation"""
        if four:
            if gap is not None:
                gap.append((contract, tag))
        else:
            bad.append((contract, what))

    # ---- K
    k = m0.copy()
    try:
        ret = k.kekule()
    except InvalidAromaticRing as e:
        # rejecting an input is allowed by the property; it is a violation only where the independent toolkit kekulises the same text
        if rdkit_smiles is not None:
            from rdkit import Chem
            if Chem.MolFromSmiles(rdkit_smiles) is not None:
                return [('K0-rejected-valid-ring', f'{tag}: kekule() raises InvalidAromaticRing ({e}); RDKit kekulises this input')], None, False
        return [], 'rejected', False
    bad += post_kekule(k, ref, tag, allowed)
    if ref_formula is not None and G.formula(k) != ref_formula:
        bad.append(('K6-formula', f'{tag}: formula {ref_formula} -> {G.formula(k)}'))
    if k.check_valence() == [] and {x: y for x, y in k.brutto.items() if y} != G.formula(k):
        bad.append(('K6-brutto-cache', f'{tag}: brutto {k.brutto} != atoms {G.formula(k)}'))
    if bool(ret) != (had_aromatic or rule_hit):
        bad.append(('K8-return', f'{tag}: kekule() returned {ret}, input had aromatic bonds: {had_aromatic}, repair rule matched: {rule_hit}'))
    if not had_aromatic and not rule_hit and G.orders(k) != in_orders:
        bad.append(('K8-kekule-input-changed', f'{tag}: input without aromatic bonds was changed by kekule()'))
    k2 = k.copy()
    ret2 = k2.kekule()
    if ret2 or G.orders(k2) != G.orders(k) or G.snapshot(k2) != G.snapshot(k) or canon(k2, stereo) != canon(k, stereo):
        bad.append(('K7-idempotent', f'{tag}: second kekule() returned {ret2} / changed the molecule: {canon(k, stereo)} -> {canon(k2, stereo)}'))
    if rdkit_smiles is not None and had_aromatic and not any(c == 'K6-atom-hydrogens' for c, _ in bad):
        from rdkit import Chem
        r = Chem.MolFromSmiles(rdkit_smiles)
        if r is not None and r.GetNumAtoms() == len(k):
            for (n, a), ra in zip(k.atoms(), r.GetAtoms()):
                if a.atomic_number != ra.GetAtomicNum():
                    raise RuntimeError(f'atom order mismatch chython / RDKit for {rdkit_smiles}')
                th = None if a.implicit_hydrogens is None else a.implicit_hydrogens + a.explicit_hydrogens
                if n not in allowed and (th != ra.GetTotalNumHs() or a.charge != ra.GetFormalCharge()):
                    bad.append(('K10-rdkit-atom', f'{tag}: atom {n} {a.atomic_symbol}: after kekule() H={th} charge={a.charge}; '
                                f'RDKit H={ra.GetTotalNumHs()} charge={ra.GetFormalCharge()}'))
                    break
    if any(c.startswith(('K1', 'K2', 'K3', 'K4', 'K5', 'K6')) for c, _ in bad):
        return bad, None, False     # the Kekule form is not the input molecule: the later clauses have no premise
    kref = G.snapshot(k)
    kformula = G.formula(k)

    # ---- T
    a = k.copy()
    tret = a.thiele()
    at = G.snapshot(a)
    if at[0] != kref[0] or at[1] != kref[1]:
        bad.append(('T1-connectivity', f'{tag}: thiele() changed atoms / bonded pairs'))
    if at[2] != kref[2] or at[3] != kref[3]:
        bad.append(('T1-charges-radicals', f'{tag}: thiele() changed charges / radicals'))
    if G.formula(a) != kformula:
        bad.append(('T1-formula', f'{tag}: thiele() changed the formula {kformula} -> {G.formula(a)}'))
    dh = sorted((n, kref[4][n], at[4][n]) for n in at[4] if at[4][n] != kref[4][n] and a._atoms[n].atomic_number != 7)
    if dh:
        bad.append(('T1-atom-hydrogens', f'{tag}: thiele() changed hydrogens of non-nitrogen atoms (atom, before, after): {dh}'))
    aro_orders = G.orders(a)
    has_ring = any(o == 4 for o in aro_orders.values())
    if bool(tret) != has_ring:
        bad.append(('T8-return', f'{tag}: thiele() returned {tret} but aromatic bonds present: {has_ring}'))
    rb = G.ring_bond_set(a)
    off = sorted(sorted(e) for e, o in aro_orders.items() if o == 4 and e not in rb)
    if off:
        bad.append(('T5-aromatic-bond-outside-ring', f'{tag}: aromatic bonds that are not ring bonds: {off[:4]}'))
    for n, at_ in a.atoms():
        os_ = [b.order for b in a._bonds[n].values()]
        if at_.hybridization != G.hybridization(os_):
            bad.append(('T3-hybridization-label', f'{tag}: after thiele() atom {n} hybridization label {at_.hybridization}, bonds {sorted(os_)}'))
            break
        if 4 in os_ and sum(1 for o in os_ if o == 4) < 2:
            bad.append(('T5-single-aromatic-bond', f'{tag}: atom {n} has exactly one aromatic bond'))
            break
    sa = canon(a, stereo)
    a2 = a.copy()
    a2.thiele()
    if G.orders(a2) != aro_orders or G.snapshot(a2) != at or canon(a2, stereo) != sa:
        bad.append(('T2-idempotent', f'{tag}: second thiele() changed the molecule: {sa} -> {canon(a2, stereo)}'))
    nt = k.copy()
    nt.thiele(fix_tautomers=False)
    ntt = G.snapshot(nt)
    if ntt[4] != kref[4] or ntt[2] != kref[2]:
        bad.append(('T1-atom-hydrogens-no-tautomer-fix', f'{tag}: thiele(fix_tautomers=False) changed per-atom hydrogens / charges'))
    # stability of the cycle
    b = a.copy()
    try:
        b.kekule()
        pb = post_kekule(b, at, tag + ' [kekule of thiele form]', set(), name='C')
        bad += pb
        b.thiele()
        if not same(b, a, stereo, c01):
            uniqueness('C-cycle-stable', f'{tag}: thiele(kekule(thiele(m))) = {canon(b, stereo)} != thiele(m) = {sa}')
    except InvalidAromaticRing as e:
        bad.append(('C-cycle-rejected', f'{tag}: kekule() of the aromatic form {sa} raises InvalidAromaticRing: {e}'))

    # ---- E (inputs whose every atom has a hydrogen count: the aromatic normal form, and the input itself when it qualifies)
    sources = [('normal form', a, at)]
    if had_aromatic and all(h is not None for h in ref[4].values()):
        sources.append(('input', m0, ref))
    for label, src, sref in sources:
        e0 = src.copy()
        forms = list(itertools.islice(e0.enumerate_kekule(), MAXFORMS + 1))
        complete = len(forms) <= MAXFORMS
        forms = forms[:MAXFORMS]
        if has_ring and not forms:
            bad.append(('E0-no-forms', f'{tag}: enumerate_kekule() on the {label} yields nothing although aromatic bonds are present'))
        seen = {}
        kk = src.copy()
        kk.kekule()
        korders = tuple(sorted((tuple(sorted(e)), o) for e, o in G.orders(kk).items()))
        differ = []
        for i, f in enumerate(forms):
            pf = post_kekule(f, sref, f'{tag} [{label}: enumerated form {i}]', allowed if label == 'input' else set(), name='E')
            if G.formula(f) != G.formula(src):
                pf.append(('E6-formula', f'{tag} [{label}: enumerated form {i}]: formula {G.formula(src)} -> {G.formula(f)}'))
            if pf:
                bad += pf[:2]
                break
            fo = tuple(sorted((tuple(sorted(e)), o) for e, o in G.orders(f).items()))
            if fo in seen:
                bad.append(('E2-duplicate-forms', f'{tag}: {label}: enumerated forms {seen[fo]} and {i} are identical'))
                break
            seen[fo] = i
            if not four:
                f.thiele()
                if not same(f, a, stereo, c01):
                    differ.append((i, canon(f, stereo)))
        if forms and complete and korders not in seen and not any(c.startswith('E') for c, _ in bad):
            bad.append(('E4-kekule-form-not-enumerated', f'{tag}: {label}: the form chosen by kekule() {canon(kk, stereo)} is not among the {len(forms)} enumerated forms'))
        if differ:
            bad.append(('E3-forms-aromatise-differently', f'{tag}: {label}: thiele(kekule(m)) = {sa}; of {len(forms)} enumerated forms these aromatise differently: {differ[:4]}'))

    # ---- N (premise: a unique aromatic form - not evaluated when E3 already failed for this input)
    r = random.Random(f'{seed}:{tag}')
    for i in range(0 if any(c == 'E3-forms-aromatise-differently' for c, _ in bad) else n_renumber):
        c, mp = domains.renumber(m0, r, offset=r.choice((0, 0, 7)))
        try:
            c.kekule()
            c.thiele()
        except InvalidAromaticRing as e:
            bad.append(('N-numbering', f'{tag}: renumbered copy {mp} is rejected ({e}), original normalises to {sa}'))
            break
        inv = {v: k_ for k_, v in mp.items()}
        c.remap(inv)
        if not same(c, a, stereo, c01):
            uniqueness('N-numbering', f'{tag}: renumbered copy {mp} normalises to {canon(c, stereo)}, original to {sa}')
            break
    return bad, (sa, a), has_ring


# ---- workers ----------------------------------------------------------------------------------------------------------------------
def check_smiles(s, stereo=False, rdkit=True, c01=None):
    from chython import smiles
    m0 = smiles(s)
    return check_molecule(m0, s, stereo=stereo, seed=env.SEED, rdkit_smiles=s if rdkit else None, c01=c01)


class _Side(list):
    gap = None


class _Acc:
    def __init__(self):
        self.n = 0
        self.keys, self.samples, self.viol = [], [], []
        self.stats = Counter()
        self.c01 = _Side()
        self.c01.gap = []

    def one(self, tag, wit, fn, sample=None):
        """run fn(c01 list) -> check_molecule result; book-keeping; returns (canonical string, molecule) or None"""
        try:
            bad, res, ring = fn(self.c01)
        except RuntimeError:
            raise
        except Exception as e:  # an exception of the library on a domain input is a violation with the input as witness
            bad, res, ring = [('X-exception', f'{tag}: {type(e).__name__}: {e}')], None, False
        self.n += 1
        if res == 'rejected':
            self.stats['rejected_InvalidAromaticRing'] += 1
            res = None
        if ring:
            self.keys.append(res[0])
            self.stats['with_aromatic_ring'] += 1
            if not self.samples:
                self.samples.append(dict(sample or {}, input=tag, aromatic_form=res[0]))
        for c, what in bad:
            if len(self.viol) < MAXV:
                self.viol.append((f'{c}:{tag}', what, wit, what))
            self.stats['violations'] += 1
        return res

    def result(self):
        if self.c01:
            self.stats['canonical_string_differs_for_isomorphic_molecules(C01)'] += len(self.c01)
        for c, _ in self.c01.gap:
            self.stats[f'gap_hits_unsaturated_four_ring.{c}'] += 1
        return self.n, self.keys, self.samples, self.viol, dict(self.stats), list(self.c01[:3])


def w_generated(chunk):
    _setup()
    acc = _Acc()
    for name, pat, aro, kek, fam in chunk:
        res = {}
        for label, s in (('aromatic', aro), ('kekule', kek)):
            if s is None:
                continue
            wit = {'kind': 'smiles', 'smiles': s, 'template': name, 'family': fam, 'pattern': pat, 'spelling': label}
            res[label] = acc.one(s, wit, lambda c01, s=s: check_smiles(s, c01=c01), {'template': name})
        if len(res) == 2 and None not in res.values() and not same(res['aromatic'][1], res['kekule'][1], False, acc.c01):
            from oracles import o05_graph as G
            if G.has_unsaturated_four_ring(res['kekule'][1]):
                acc.c01.gap.append(('S-spelling', aro))
                continue
            acc.stats['violations'] += 1
            if len(acc.viol) < MAXV:
                acc.viol.append((f'S-spelling:{aro}', f'{name} [{pat}]: aromatic spelling {aro} normalises to {res["aromatic"][0]}, '
                                 f'Kekule spelling {kek} to {res["kekule"][0]}',
                                 {'kind': 'pair', 'aromatic': aro, 'kekule': kek, 'template': name, 'family': fam}, [res['aromatic'][0], res['kekule'][0]]))
    return acc.result()


def w_corpus(chunk):
    _setup()
    acc = _Acc()
    for s in chunk:
        acc.one(s, {'kind': 'smiles', 'smiles': s}, lambda c01, s=s: check_smiles(s, c01=c01))
    return acc.result()


def w_sdf(idx):
    _setup()
    from chython import SDFRead
    acc = _Acc()
    with SDFRead(env.repo_path('test/arenes.sdf')) as f:
        ms = list(f)
    for i in idx:
        tag = f'arenes.sdf#{i}'
        acc.one(tag, {'kind': 'sdf', 'file': 'test/arenes.sdf', 'index': i},
                lambda c01, i=i, tag=tag: check_molecule(ms[i], tag, seed=env.SEED, c01=c01))
    return acc.result()


# ---- entry points ------------------------------------------------------------------------------------------------------------------
def bounded(run):
    import os
    from bounded import domains
    from oracles import o05_domain as D
    thorough = run.tier == 'thorough'
    stats = Counter()
    vcount = Counter()
    c01_samples = []

    families = {}

    def collect(results, label):
        for n, keys, samples, viol, st, c01 in results:
            c01_samples.extend(c01)
            run.case(n)
            for k in keys:
                run.case(0, key=k)
            for s in samples:
                run.case(0, sample=s)
            for k, v in st.items():
                stats[f'{label}.{k}'] += v
            for key, what, wit, native in viol:
                contract = key.split(':', 1)[0]
                vcount[contract] += 1
                fam = (contract, wit.get('family') or key)
                families.setdefault(fam, []).append((key, what, wit, native))

    def report():
        """one violation per (contract, template family): the minimal witness (shortest, then smallest key); the rest is counted"""
        for fam, lst in sorted(families.items()):
            lst.sort(key=lambda x: (len(x[0]), x[0]))
            key, what, wit, native = lst[0]
            more = f' [+{len(lst) - 1} further inputs of the template family {fam[1]} violate the same contract]' if len(lst) > 1 else ''
            run.violation(key, what + more, witness=wit, native=native)

    gen = list(D.generate(domains.rnd('c05-gen'), n_random=6 if thorough else 3, pairs=thorough))
    nchunks = 256 if thorough else 64
    collect(pmap(w_generated, [gen[i::nchunks] for i in range(nchunks) if gen[i::nchunks]]), 'generated')
    run.bound(f'generator: {len(D.TEMPLATES)} ring templates (benzenoids, 5/6-ring heterocycles with N O S P B Se, charged rings, quinoid rings, '
              f'fused systems up to 4-5 rings) x substituent patterns over {D.SUBSTITUENTS} (unsubstituted, every single substitution, '
              f'{"every pair on templates with <= 6 positions, 6" if thorough else "3"} seeded multi-substitutions, perfluoro) = {len(gen)} molecules, '
              f'each as aromatic SMILES and as Kekule SMILES where both exist')
    sm = domains.corpus_sample(None if thorough else 300, 'c05')
    collect(pmap(w_corpus, [sm[i::64] for i in range(64) if sm[i::64]]), 'corpus')
    run.bound(f'corpus: {len(sm)} of the 4200 SMILES of pach/lipophilicity.csv (seeded sample in the quick tier)')
    extra = []
    p = env.repo_path('test/heterocycles_charges.smi')
    if os.path.exists(p):
        extra = [l.split()[0] for l in open(p) if l.strip()]
        collect(pmap(w_corpus, [extra[i::8] for i in range(8) if extra[i::8]]), 'heterocycles_charges')
        run.bound(f'test/heterocycles_charges.smi: {len(extra)} charged fused heterocycles')
    p = env.repo_path('test/arenes.sdf')
    nsdf = 0
    if os.path.exists(p):
        try:
            from chython import SDFRead
            with SDFRead(p) as f:
                nsdf = len(list(f))
        except Exception as e:   # unreadable file: domain part skipped, stated
            run.notes['arenes_sdf_unreadable'] = repr(e)
        if nsdf:
            collect(pmap(w_sdf, [list(range(nsdf))[i::16] for i in range(16)]), 'arenes')
            run.bound(f'test/arenes.sdf: {nsdf} polycyclic arenes given with aromatic bonds')
    report()
    run.bound(f'enumerate_kekule(): first {MAXFORMS} forms per molecule; 2 seeded renumberings per molecule')
    run.assume('canonical strings are compared without stereo marks (format spec "!s"): stereo label canonicalisation is property C01, not C05',
               'charges / hydrogens may change only on atoms that a repair rule of aromatics/_rules.py (re-run on the input by the checker) names in its atom fix',
               'thiele() may move hydrogens between nitrogen atoms (documented fix_tautomers); with fix_tautomers=False no hydrogen moves',
               'RDKit 2026.03 kekulisation of the same aromatic SMILES is trusted for per-atom hydrogen counts / charges where RDKit accepts the input (one-directional)',
               'hydrogen re-derivation from the element tables: oracles/o04_valence.py (see C04)',
               'the clause "all enumerated Kekule forms aromatise identically" is skipped for inputs with an unsaturated four-membered ring '
               '(own detection on the input graph: a 4-cycle with an atom bearing a double/triple/aromatic bond) - recorded gap of the property; '
               'the clauses that follow from it (numbering independence, spelling independence, stability of the thiele-kekule-thiele cycle) are '
               'evaluated there too but differences are only counted as gap_hits_unsaturated_four_ring',
               'the enumerated-forms clauses are evaluated on inputs whose every atom has a hydrogen count (the aromatic normal form after kekule(); thiele(), '
               'and the input itself when it qualifies): straight after parsing, aromatic heteroatoms written without H have no count and the library '
               'documents them as pyrrole-or-pyridine ambiguous',
               'kekule() may reject an input (InvalidAromaticRing) - counted; it is a violation only where RDKit kekulises the same SMILES text',
               'one violation is reported per (contract, template family) with the minimal witness (shortest, then smallest key); further witnesses of the '
               'family are counted in the message')
    run.notes['c05_bounded_stats'] = dict(stats)
    run.notes['c05_violations_per_contract'] = dict(vcount)
    run.notes['c05_isomorphic_but_different_canonical_strings(C01 matter, not counted here)'] = c01_samples[:6]


def replay(rec):
    _setup()
    w = rec.get('witness') or {}
    want = rec['key'].split(':', 1)[0]
    if w.get('kind') == 'smiles':
        try:
            bad, _, _ = check_smiles(w['smiles'])
        except Exception as e:
            print('exception', repr(e))
            return want != 'X-exception' and False
    elif w.get('kind') == 'pair':
        from bounded import domains
        a, k = domains.parse(w['aromatic']), domains.parse(w['kekule'])
        print('  ', a, '|', k)
        return same(a, k, False)
    elif w.get('kind') == 'sdf':
        from chython import SDFRead
        with SDFRead(env.repo_path(w['file'])) as f:
            ms = list(f)
        bad, _, _ = check_molecule(ms[w['index']], f'arenes.sdf#{w["index"]}', seed=rec.get('seed', 0))
    else:
        return False
    hit = [x for x in bad if x[0] == want]
    for x in hit:
        print('  ', x[1])
    return not hit
