"""C05 bounded stand-in (engine B): Kekule <-> aromatic conversions.

Contracts (from the property statement; DESIGN.md §2 C05), attached to the real kekule() / thiele() / enumerate_kekule():
  K  kekule(): same atoms, same bonded pairs, same charges / radicals (charges may change only on atoms matched by the repair
     rules of aromatics/_rules.py, total charge never), same formula and per-atom total H where the input had them, no bond of
     order 4 left, check_valence() == [], labels and hydrogen counts refreshed (hybridization from the bond orders; hydrogen count
     == re-derivation from the element tables), returns True iff the input had an aromatic bond or a repair rule matched,
     second call returns False and changes nothing; for aromatic spellings RDKit's Kekule form has the same per-atom H / charge.
  T  thiele(): same atoms, pairs, charges, radicals, formula; per-atom H unchanged (with fix_tautomers=False everywhere, by default
     everywhere except on N atoms), labels refreshed, every aromatic bond is a ring bond, second call changes nothing;
     kekule() of the result is a valid Kekule form that aromatises to the same string (stability of the cycle).
  E  enumerate_kekule(): every form satisfies K's post-condition, forms pairwise distinct, kekule()'s own form is among them when the
     enumeration is complete, and thiele(form_i) is one and the same canonical string == thiele(kekule(m))  (the last clause only for
     ring systems without unsaturated four-membered rings).
  N  numbering independence: canonical aromatic string after kekule(); thiele() is the same for renumbered copies.
  S  spelling independence: the aromatic and the Kekule spelling of one generated molecule normalise to the same canonical string.
Coverage audit extension (same contracts, wider domain: options, call sequences, input classes of oracles/o05_classes.py):
  B  kekule(buffer_size=b) for other values of the only keyword: K's post-condition on the input; on the aromatic normal form
     (every hydrogen count known) the result aromatises back to the same form.
  TF thiele(fix_tautomers=False): T's post-condition in full (not only the hydrogen clause), stability of the cycle with that option,
     same aromatic bonds as the default call whenever the default call moved no hydrogen, and (sampled in the quick tier) every
     enumerated form aromatises to the same form with that option too.
  TD thiele() called directly on a parsed input that still has aromatic bonds (aromatic or mixed spelling, no kekule() first): same
     atoms, pairs, charges, radicals, known hydrogens (except N); second call changes nothing; kekule(); thiele() of the result is the
     one aromatic form of the molecule.
  E5 enumerate_kekule() consumed lazily: a form already handed out is not changed by the later steps of the generator.
  N  additionally: atom numbers > 999 with gaps, descending numbers, and a rebuilt container whose atom / bond / neighbour
     insertion order is shuffled (remap() alone keeps the insertion order, i.e. the traversal start of the search).
"""
import itertools
from collections import Counter

from vlib import env
from vlib.report import pmap

RULE = ('non-trivial = distinct canonical molecules that have at least one aromatic ring after kekule(); thiele() (a bond of order 4); '
        'evaluations = input spellings driven through all contracts')
MAXFORMS = 32
THOROUGH = [False]     # set by bounded() before the workers are forked
BUFFERS = {False: ((0, 1), (0,)), True: ((0, 1, 2, 3, 50), (0, 1, 3))}     # tier -> (on the input, on the aromatic normal form)
MAXV = 300      # violations returned per work item (the parent reports one minimal witness per contract and template family)


def _setup():
    env.setup()
    from rdkit import RDLogger
    RDLogger.DisableLog('rdApp.*')


def canon(m, stereo):
    if not len(m):      # the SMILES writer has no empty string (not a matter of this property)
        return ''
    return str(m) if stereo else format(m, '!s')


def same(a, b, stereo, stats=None, sb=None):
    """same molecule: equal canonical strings, or (strings differ) isomorphic by the independent attribute-aware enumerator - a
    canonical-string difference between isomorphic molecules belongs to property C01 and is only counted here
    (sb: canonical string of b computed before by the caller)"""
    if canon(a, stereo) == (canon(b, stereo) if sb is None else sb):
        return True
    from oracles import iso
    if iso.is_isomorphic(a, b):
        if stats is not None:
            stats.append((canon(a, stereo), canon(b, stereo) if sb is None else sb))
        return True
    return False


def rule_atoms(m):
    """atoms whose charge the repair rules of aromatics/_rules.py may set, on the input as given (re-run of the rule queries)"""
    from chython.algorithms.aromatics._rules import rules
    out = set()
    hit = False
    for q, af, bf, mm in rules:
        for mp in q.get_mapping(m, automorphism_filter=False):
            hit = True
            out.update(mp[n] for n in af)
    return out, hit


def post_kekule(k, ref, tag, allowed, name='K'):
    """post-condition of a Kekule form k against the snapshot ref of the input"""
    from oracles import o05_graph as G
    from oracles import o04_valence as V
    bad = []
    atoms, pairs, charges, radicals, hs = G.snapshot(k)
    ratoms, rpairs, rcharges, rradicals, rhs = ref
    if atoms != ratoms:
        bad.append((f'{name}1-atoms', f'{tag}: atom set changed'))
    if pairs != rpairs:
        bad.append((f'{name}2-bonded-pairs', f'{tag}: bonded pairs changed: {sorted(map(sorted, pairs ^ rpairs))}'))
    ch = sorted(n for n in charges if charges[n] != rcharges.get(n) and n not in allowed)
    if ch:
        bad.append((f'{name}3-charges', f'{tag}: charges changed on atoms {ch} not named by a repair rule'))
    if sum(charges.values()) != sum(rcharges.values()):
        bad.append((f'{name}3-total-charge', f'{tag}: total charge {sum(rcharges.values())} -> {sum(charges.values())}'))
    if radicals != rradicals:
        bad.append((f'{name}3-radicals', f'{tag}: radical flags changed'))
    o4 = sorted(sorted(e) for e, o in G.orders(k).items() if o == 4)
    if o4:
        bad.append((f'{name}4-aromatic-bond-left', f'{tag}: bonds of order 4 left: {o4[:4]}'))
    cv = [n for n in k.check_valence() if k._atoms[n].implicit_hydrogens is not None]   # no count at all: reported below (K9)
    if cv:
        bad.append((f'{name}5-valence', f'{tag}: check_valence() = {cv}'))
    dh = sorted((n, rhs[n], hs[n]) for n in hs if rhs.get(n) is not None and hs[n] != rhs[n] and n not in allowed)
    if dh:
        bad.append((f'{name}6-atom-hydrogens', f'{tag}: per-atom total hydrogens changed (atom, before, after): {dh}'))
    # labels / hydrogens refreshed
    for n, a in k.atoms():
        os_ = [b.order for b in k._bonds[n].values()]
        if a.hybridization != G.hybridization(os_):
            bad.append((f'{name}9-hybridization-label', f'{tag}: atom {n} hybridization label {a.hybridization}, bonds {sorted(os_)}'))
            break
    if not o4:
        for n, a in k.atoms():
            envn = [(b.order, k._atoms[x].atomic_symbol) for x, b in k._bonds[n].items() if b.order != 8]
            exp = V.expected(a.atomic_symbol, a.charge, a.is_radical, envn)
            if a.implicit_hydrogens != exp:
                none = sorted(x for x, y in k.atoms() if y.implicit_hydrogens is None)
                bad.append((f'{name}9-hydrogens-stale', f'{tag}: atom {n} {a.atomic_symbol} implicit_hydrogens={a.implicit_hydrogens}, '
                            f'bonds give {exp}' + (f'; atoms left without a hydrogen count: {none}, check_valence() = {k.check_valence()}'
                                                   if none else '')))
                break
    return bad


def post_thiele(k, kref, kformula, tag, fix, name, stereo):
    """post-condition of thiele() (fix=True: default call; fix=False: fix_tautomers=False) on the Kekule form k;
    returns (violations, aromatic form, its snapshot, its bond orders, has aromatic bond, canonical string)"""
    from oracles import o05_graph as G
    bad = []
    call = 'thiele()' if fix else 'thiele(fix_tautomers=False)'
    a = k.copy()
    tret = a.thiele() if fix else a.thiele(fix_tautomers=False)
    at = G.snapshot(a)
    if at[0] != kref[0] or at[1] != kref[1]:
        bad.append((f'{name}1-connectivity', f'{tag}: {call} changed atoms / bonded pairs'))
    if at[2] != kref[2] or at[3] != kref[3]:
        bad.append((f'{name}1-charges-radicals', f'{tag}: {call} changed charges / radicals'))
    if G.formula(a) != kformula:
        bad.append((f'{name}1-formula', f'{tag}: {call} changed the formula {kformula} -> {G.formula(a)}'))
    if fix:
        dh = sorted((n, kref[4][n], at[4][n]) for n in at[4] if at[4][n] != kref[4][n] and a._atoms[n].atomic_number != 7)
        if dh:
            bad.append((f'{name}1-atom-hydrogens', f'{tag}: {call} changed hydrogens of non-nitrogen atoms (atom, before, after): {dh}'))
    elif at[4] != kref[4] or at[2] != kref[2]:
        bad.append(('T1-atom-hydrogens-no-tautomer-fix', f'{tag}: {call} changed per-atom hydrogens / charges'))
    aro_orders = G.orders(a)
    has_ring = any(o == 4 for o in aro_orders.values())
    if bool(tret) != has_ring:
        bad.append((f'{name}8-return', f'{tag}: {call} returned {tret} but aromatic bonds present: {has_ring}'))
    rb = G.ring_bond_set(a)
    off = sorted(sorted(e) for e, o in aro_orders.items() if o == 4 and e not in rb)
    if off:
        bad.append((f'{name}5-aromatic-bond-outside-ring', f'{tag}: after {call} aromatic bonds that are not ring bonds: {off[:4]}'))
    for n, at_ in a.atoms():
        os_ = [b.order for b in a._bonds[n].values()]
        if at_.hybridization != G.hybridization(os_):
            bad.append((f'{name}3-hybridization-label', f'{tag}: after {call} atom {n} hybridization label {at_.hybridization}, bonds {sorted(os_)}'))
            break
        if 4 in os_ and sum(1 for o in os_ if o == 4) < 2:
            bad.append((f'{name}5-single-aromatic-bond', f'{tag}: after {call} atom {n} has exactly one aromatic bond'))
            break
    sa = canon(a, stereo)
    a2 = a.copy()
    a2.thiele() if fix else a2.thiele(fix_tautomers=False)
    if G.orders(a2) != aro_orders or G.snapshot(a2) != at or canon(a2, stereo) != sa:
        bad.append((f'{name}2-idempotent', f'{tag}: second {call} changed the molecule: {sa} -> {canon(a2, stereo)}'))
    return bad, a, at, aro_orders, has_ring, sa


def bfs_rebuild(m, start):
    """fresh container, same atom numbers and attributes, atoms inserted in breadth-first order from `start` (bonds in that order too)"""
    from chython.containers import MoleculeContainer
    from chython.containers.bonds import Bond
    order, seen, i = [start], {start}, 0
    while len(order) < len(m):
        if i == len(order):      # next component
            x = next(n for n in m if n not in seen)
            order.append(x)
            seen.add(x)
        cur = order[i]
        i += 1
        for nb in m._bonds[cur]:
            if nb not in seen:
                seen.add(nb)
                order.append(nb)
    new = MoleculeContainer()
    for n in order:
        a = m._atoms[n]
        new.add_atom(type(a)(a.isotope, charge=a.charge, is_radical=a.is_radical, x=a.x, y=a.y, implicit_hydrogens=a.implicit_hydrogens), n,
                     _skip_calculation=True)
    done = set()
    for n in order:
        for k, b in m._bonds[n].items():
            if (k, n) not in done:
                done.add((n, k))
                new.add_bond(n, k, Bond(b.order), _skip_calculation=True)
    new.calc_labels()
    new._changed = None
    return new


def special_numbering(m0, r, kind):
    """(copy, description, map back to the numbers of m0 or None): numbering classes that domains.renumber() does not produce"""
    from bounded import domains
    nums = sorted(m0)
    if kind == 'descending>999':          # first atom gets the largest number, all numbers > 999
        mp = {n: 1000 + len(nums) - i for i, n in enumerate(nums)}
    elif kind == 'gaps>999':              # random numbers with gaps, up to four digits
        mp = dict(zip(nums, r.sample(range(1000, 9000), len(nums))))
    elif kind == 'insertion-order':       # same numbers, fresh container with shuffled atom / bond / neighbour insertion order
        return domains.rebuild(m0, r), 'rebuilt with shuffled insertion order', None
    else:
        raise ValueError(kind)
    c = m0.copy()
    c.remap(mp)
    return c, f'{kind} {mp}', {v: k_ for k_, v in mp.items()}


def check_molecule(m0, tag, stereo=False, seed=0, n_renumber=2, rdkit_smiles=None, c01=None, full=False):
    """all contracts on the parsed (not normalised) input m0; returns (violations [(contract, what)], (canonical aromatic string, aromatic
    normal form) or None / "rejected", has aromatic ring).  full: evaluate the sampled clauses (EF, all numbering classes) always"""
    import random
    from oracles import o05_graph as G
    from bounded import domains
    from chython.exceptions import InvalidAromaticRing
    bad = []
    thorough = THOROUGH[0]
    full = full or thorough
    ref = G.snapshot(m0)
    ref_formula = G.formula(m0)
    in_orders = G.orders(m0)
    had_aromatic = any(o == 4 for o in in_orders.values())
    allowed, rule_hit = rule_atoms(m0.copy())
    four = G.has_unsaturated_four_ring(m0)
    gap = getattr(c01, 'gap', None)

    def uniqueness(contract, what):
        """clauses that presuppose one aromatic form per molecule: for ring systems with an unsaturated four-membered ring the property
        records that Kekule forms may aromatise differently (biphenylene-type gap) - counted as gap hit, never a violation"""
        if four:
            if gap is not None:
                gap.append((contract, tag))
        else:
            bad.append((contract, what))

    # ---- K
    k = m0.copy()
    try:
        ret = k.kekule()
    except InvalidAromaticRing as e:
        # rejecting an input is allowed by the property; it is a violation only where the independent toolkit kekulises the same text
        if rdkit_smiles is not None:
            from rdkit import Chem
            if Chem.MolFromSmiles(rdkit_smiles) is not None:
                return [('K0-rejected-valid-ring', f'{tag}: kekule() raises InvalidAromaticRing ({e}); RDKit kekulises this input')], None, False
        return [], 'rejected', False
    bad += post_kekule(k, ref, tag, allowed)
    if ref_formula is not None and G.formula(k) != ref_formula:
        bad.append(('K6-formula', f'{tag}: formula {ref_formula} -> {G.formula(k)}'))
    if k.check_valence() == [] and {x: y for x, y in k.brutto.items() if y} != G.formula(k):
        bad.append(('K6-brutto-cache', f'{tag}: brutto {k.brutto} != atoms {G.formula(k)}'))
    if bool(ret) != (had_aromatic or rule_hit):
        bad.append(('K8-return', f'{tag}: kekule() returned {ret}, input had aromatic bonds: {had_aromatic}, repair rule matched: {rule_hit}'))
    if not had_aromatic and not rule_hit and G.orders(k) != in_orders:
        bad.append(('K8-kekule-input-changed', f'{tag}: input without aromatic bonds was changed by kekule()'))
    k2 = k.copy()
    ret2 = k2.kekule()
    if ret2 or G.orders(k2) != G.orders(k) or G.snapshot(k2) != G.snapshot(k) or canon(k2, stereo) != canon(k, stereo):
        bad.append(('K7-idempotent', f'{tag}: second kekule() returned {ret2} / changed the molecule: {canon(k, stereo)} -> {canon(k2, stereo)}'))
    if rdkit_smiles is not None and had_aromatic and not any(c == 'K6-atom-hydrogens' for c, _ in bad):
        from rdkit import Chem
        rd = Chem.MolFromSmiles(rdkit_smiles)
        if rd is not None and rd.GetNumAtoms() == len(k):
            for (n, a), ra in zip(k.atoms(), rd.GetAtoms()):
                if a.atomic_number != ra.GetAtomicNum():
                    raise RuntimeError(f'atom order mismatch chython / RDKit for {rdkit_smiles}')
                th = None if a.implicit_hydrogens is None else a.implicit_hydrogens + a.explicit_hydrogens
                rh = ra.GetTotalNumHs(includeNeighbors=True)     # hydrogen atoms kept in the graph ([2H]) count on both sides
                if n not in allowed and (th != rh or a.charge != ra.GetFormalCharge()):
                    bad.append(('K10-rdkit-atom', f'{tag}: atom {n} {a.atomic_symbol}: after kekule() H={th} charge={a.charge}; '
                                f'RDKit H={rh} charge={ra.GetFormalCharge()}'))
                    break
    if any(c.startswith(('K1', 'K2', 'K3', 'K4', 'K5', 'K6', 'K9-hydrogens')) for c, _ in bad):
        return bad, None, False     # the Kekule form is not the input molecule: the later clauses have no premise
    kref = G.snapshot(k)
    kformula = G.formula(k)

    # ---- B: the keyword of kekule() on the input (any value must give a Kekule form of the input; contract names of K)
    for bs in BUFFERS[thorough][0]:
        kb = m0.copy()
        try:
            rb_ = kb.kekule(buffer_size=bs)
        except InvalidAromaticRing as e:
            bad.append(('B-buffer-rejected', f'{tag}: kekule(buffer_size={bs}) raises InvalidAromaticRing ({e}) but kekule() finds a form'))
            continue
        bad += post_kekule(kb, ref, f'{tag} [kekule(buffer_size={bs})]', allowed)
        if bool(rb_) != bool(ret):
            bad.append(('B-buffer-return', f'{tag}: kekule(buffer_size={bs}) returned {rb_}, kekule() returned {ret}'))

    # ---- T (default call) and TF (fix_tautomers=False)
    pt, a, at, aro_orders, has_ring, sa = post_thiele(k, kref, kformula, tag, True, 'T', stereo)
    bad += pt
    pt, a_nt, at_nt, nt_orders, nt_ring, sa_nt = post_thiele(k, kref, kformula, tag, False, 'TF', stereo)
    bad += pt
    moved = at[4] != at_nt[4]
    if not moved and nt_orders != aro_orders:
        uniqueness('TF-differs-from-default', f'{tag}: the default thiele() moved no hydrogen but gives {sa}, thiele(fix_tautomers=False) gives {sa_nt}')
    # stability of the cycle
    for fix, x, xt, sx, name in ((True, a, at, sa, 'C'), (False, a_nt, at_nt, sa_nt, 'CF')):
        if not fix and nt_orders == aro_orders and at == at_nt:
            continue      # same molecule object state as the default form: nothing new to run
        b = x.copy()
        try:
            b.kekule()
            bad += post_kekule(b, xt, tag + (' [kekule of thiele form]' if fix else ' [kekule of thiele(fix_tautomers=False) form]'), set(), name=name)
            b.thiele() if fix else b.thiele(fix_tautomers=False)
            if not same(b, x, stereo, c01, sx):
                uniqueness(f'{name}-cycle-stable', f'{tag}: thiele(kekule(thiele(m))) = {canon(b, stereo)} != thiele(m) = {sx}'
                           + ('' if fix else ' (all with fix_tautomers=False)'))
        except InvalidAromaticRing as e:
            bad.append((f'{name}-cycle-rejected', f'{tag}: kekule() of the aromatic form {sx} raises InvalidAromaticRing: {e}'))
    # the keyword of kekule() on the aromatic normal form (every hydrogen count known): must come back to the same form
    for bs in BUFFERS[thorough][1]:
        b = a.copy()
        try:
            b.kekule(buffer_size=bs)
            bad += post_kekule(b, at, f'{tag} [kekule(buffer_size={bs}) of thiele form]', set(), name='CB')
            b.thiele()
            if not same(b, a, stereo, c01, sa):
                uniqueness('CB-cycle-stable', f'{tag}: thiele(kekule(thiele(m), buffer_size={bs})) = {canon(b, stereo)} != thiele(m) = {sa}')
        except InvalidAromaticRing as e:
            bad.append(('CB-cycle-rejected', f'{tag}: kekule(buffer_size={bs}) of the aromatic form {sa} raises InvalidAromaticRing: {e}'))

    # ---- TD: thiele() straight on the parsed input that still has aromatic bonds (aromatic or mixed spelling)
    if had_aromatic:
        d = m0.copy()
        d.thiele()
        ds = G.snapshot(d)
        if ds[0] != ref[0] or ds[1] != ref[1]:
            bad.append(('TD1-connectivity', f'{tag}: thiele() on the parsed input changed atoms / bonded pairs'))
        if ds[2] != ref[2] or ds[3] != ref[3]:
            bad.append(('TD1-charges-radicals', f'{tag}: thiele() on the parsed input changed charges / radicals'))
        dh = sorted((n, ref[4][n], ds[4][n]) for n in ds[4] if ref[4][n] is not None and ds[4][n] != ref[4][n] and d._atoms[n].atomic_number != 7)
        if dh:
            bad.append(('TD1-atom-hydrogens', f'{tag}: thiele() on the parsed input changed known hydrogens of non-nitrogen atoms '
                        f'(atom, before, after): {dh}'))
        d2 = d.copy()
        d2.thiele()
        if G.orders(d2) != G.orders(d) or G.snapshot(d2) != ds:
            bad.append(('TD2-idempotent', f'{tag}: second thiele() on the parsed input changed the molecule: {canon(d, stereo)} -> {canon(d2, stereo)}'))
        if not moved:    # a hydrogen moved by the tautomer fix on a half-aromatic input may pick another tautomer: no claim there
            try:
                d.kekule()
                d.thiele()
                if not same(d, a, stereo, c01, sa):
                    uniqueness('TD-normalises-differently', f'{tag}: thiele(); kekule(); thiele() gives {canon(d, stereo)}, kekule(); thiele() gives {sa}')
            except InvalidAromaticRing as e:
                bad.append(('TD-rejected', f'{tag}: after thiele() on the parsed input kekule() raises InvalidAromaticRing: {e}'))

    # ---- E (inputs whose every atom has a hydrogen count: the aromatic normal form, and the input itself when it qualifies)
    ef = (full or random.Random(f'{seed}:ef:{tag}').random() < .25) and not moved and not four
    sources = [('normal form', a, at)]
    if had_aromatic and all(h is not None for h in ref[4].values()):
        sources.append(('input', m0, ref))
    for label, src, sref in sources:
        e0 = src.copy()
        forms, at_yield = [], []
        for f in itertools.islice(e0.enumerate_kekule(), MAXFORMS + 1):     # consumed lazily: state of each form when handed out
            forms.append(f)
            at_yield.append(tuple(sorted((tuple(sorted(e)), o) for e, o in G.orders(f).items())))
        complete = len(forms) <= MAXFORMS
        forms = forms[:MAXFORMS]
        if has_ring and not forms:
            bad.append(('E0-no-forms', f'{tag}: enumerate_kekule() on the {label} yields nothing although aromatic bonds are present'))
        seen = {}
        kk = src.copy()
        kk.kekule()
        korders = tuple(sorted((tuple(sorted(e)), o) for e, o in G.orders(kk).items()))
        differ, differ_nt = [], []
        for i, f in enumerate(forms):
            pf = post_kekule(f, sref, f'{tag} [{label}: enumerated form {i}]', allowed if label == 'input' else set(), name='E')
            if G.formula(f) != G.formula(src):
                pf.append(('E6-formula', f'{tag} [{label}: enumerated form {i}]: formula {G.formula(src)} -> {G.formula(f)}'))
            if pf:
                bad += pf[:2]
                break
            fo = tuple(sorted((tuple(sorted(e)), o) for e, o in G.orders(f).items()))
            if fo != at_yield[i]:
                bad.append(('E5-form-changed-after-yield', f'{tag}: {label}: enumerated form {i} was changed by the later steps of the generator'))
                break
            if fo in seen:
                bad.append(('E2-duplicate-forms', f'{tag}: {label}: enumerated forms {seen[fo]} and {i} are identical'))
                break
            seen[fo] = i
            if not four:
                if ef:
                    f2 = f.copy()
                    f2.thiele(fix_tautomers=False)
                    if not same(f2, a_nt, stereo, c01, sa_nt):
                        differ_nt.append((i, canon(f2, stereo)))
                f.thiele()
                if not same(f, a, stereo, c01, sa):
                    differ.append((i, canon(f, stereo)))
        if forms and complete and korders not in seen and not any(c.startswith('E') for c, _ in bad):
            bad.append(('E4-kekule-form-not-enumerated', f'{tag}: {label}: the form chosen by kekule() {canon(kk, stereo)} is not among the {len(forms)} enumerated forms'))
        if differ:
            bad.append(('E3-forms-aromatise-differently', f'{tag}: {label}: thiele(kekule(m)) = {sa}; of {len(forms)} enumerated forms these aromatise differently: {differ[:4]}'))
        elif differ_nt:
            bad.append(('EF3-forms-aromatise-differently', f'{tag}: {label}: thiele(kekule(m), fix_tautomers=False) = {sa_nt}; of {len(forms)} enumerated '
                        f'forms these aromatise differently with fix_tautomers=False: {differ_nt[:4]}'))

    # ---- N (premise: a unique aromatic form - not evaluated when E3 already failed for this input)
    r = random.Random(f'{seed}:{tag}')
    kinds = ['random'] * n_renumber
    special = ['insertion-order', 'gaps>999', 'descending>999']
    kinds += special if full else ['insertion-order', r.choice(special[1:])]
    ncontract, nnote = 'N-numbering', ''
    # independent predicate on the input: several ring N whose hydrogen count the input leaves open (no [nH] / MDL aromatic bonds), of which
    # kekule() had to give a hydrogen to a proper subset - WHICH of them is not determined by the input.  Own contract name, and a
    # deterministic family of traversal starts (insertion order = breadth-first order from every atom) instead of the seeded ones.
    open_n = {n for n, x in m0.atoms() if x.atomic_number == 7 and ref[4][n] is None and any(o == 4 for o in G.adjacency(m0)[n].values())}
    got_h = {n for n in open_n if kref[4][n]}
    if len(open_n) > 1 and got_h and got_h != open_n:
        ncontract = 'N-numbering-undetermined-NH'
        nnote = (f'; the input leaves the hydrogen count of the ring N atoms {sorted(open_n)} open, kekule() put the hydrogen on {sorted(got_h)} '
                 f'in the original order')
        kinds = [('bfs', x) for x in sorted(m0)[:40]]
    if any(c == 'E3-forms-aromatise-differently' for c, _ in bad):
        kinds = []
    for kind in kinds:
        if kind[0] == 'bfs':
            c, mp, inv = bfs_rebuild(m0, kind[1]), f'rebuilt copy with the atoms inserted in breadth-first order from atom {kind[1]}', None
        elif kind == 'random':
            c, mp = domains.renumber(m0, r, offset=r.choice((0, 0, 7)))
            inv, mp = {v: k_ for k_, v in mp.items()}, f'renumbered copy {mp}'
        else:
            c, mp, inv = special_numbering(m0, r, kind)
            mp = f'copy with numbering {mp}'
        try:
            c.kekule()
            c.thiele()
        except InvalidAromaticRing as e:
            bad.append((ncontract, f'{tag}: {mp} is rejected ({e}), original normalises to {sa}'))
            break
        if inv is not None:
            c.remap(inv)
        if not same(c, a, stereo, c01, sa):
            uniqueness(ncontract, f'{tag}: {mp} normalises to {canon(c, stereo)}, original to {sa}' + nnote)
            break
    return bad, (sa, a), has_ring


# ---- workers ----------------------------------------------------------------------------------------------------------------------
def check_smiles(s, stereo=False, rdkit=True, c01=None, full=False):
    from chython import smiles
    m0 = smiles(s)
    return check_molecule(m0, s, stereo=stereo, seed=env.SEED, rdkit_smiles=s if rdkit else None, c01=c01, full=full)


class _Side(list):
    gap = None


class _Acc:
    def __init__(self):
        self.n = 0
        self.keys, self.samples, self.viol = [], [], []
        self.stats = Counter()
        self.c01 = _Side()
        self.c01.gap = []

    def one(self, tag, wit, fn, sample=None):
        """run fn(c01 list) -> check_molecule result; book-keeping; returns (canonical string, molecule) or None"""
        try:
            bad, res, ring = fn(self.c01)
        except RuntimeError:
            raise
        except Exception as e:  # an exception of the library on a domain input is a violation with the input as witness
            bad, res, ring = [('X-exception', f'{tag}: {type(e).__name__}: {e}')], None, False
        self.n += 1
        if res == 'rejected':
            self.stats['rejected_InvalidAromaticRing'] += 1
            res = None
        if ring:
            self.keys.append(res[0])
            self.stats['with_aromatic_ring'] += 1
            if not self.samples:
                self.samples.append(dict(sample or {}, input=tag, aromatic_form=res[0]))
        for c, what in bad:
            if len(self.viol) < MAXV:
                self.viol.append((f'{c}:{tag}', what, wit, what))
            self.stats['violations'] += 1
        return res

    def result(self):
        if self.c01:
            self.stats['canonical_string_differs_for_isomorphic_molecules(C01)'] += len(self.c01)
        for c, _ in self.c01.gap:
            self.stats[f'gap_hits_unsaturated_four_ring.{c}'] += 1
        return self.n, self.keys, self.samples, self.viol, dict(self.stats), list(self.c01[:3])


def w_generated(chunk):
    _setup()
    acc = _Acc()
    for name, pat, aro, kek, fam, *opt in chunk:       # opt (entries of oracles/o05_classes.py): RDKit usable for this text
        rdk, full = (opt[0], True) if opt else (True, False)
        res = {}
        for label, s in (('aromatic', aro), ('kekule', kek)):
            if s is None:
                continue
            wit = {'kind': 'smiles', 'smiles': s, 'template': name, 'family': fam, 'pattern': pat, 'spelling': label}
            if opt:
                wit.update(rdkit=rdk, full=True)
            res[label] = acc.one(s, wit, lambda c01, s=s: check_smiles(s, rdkit=rdk, c01=c01, full=full), {'template': name})
        if len(res) == 2 and None not in res.values() and not same(res['aromatic'][1], res['kekule'][1], False, acc.c01):
            from oracles import o05_graph as G
            if G.has_unsaturated_four_ring(res['kekule'][1]):
                acc.c01.gap.append(('S-spelling', aro))
                continue
            acc.stats['violations'] += 1
            if len(acc.viol) < MAXV:
                acc.viol.append((f'S-spelling:{aro}', f'{name} [{pat}]: aromatic spelling {aro} normalises to {res["aromatic"][0]}, '
                                 f'Kekule spelling {kek} to {res["kekule"][0]}',
                                 {'kind': 'pair', 'aromatic': aro, 'kekule': kek, 'template': name, 'family': fam}, [res['aromatic'][0], res['kekule'][0]]))
    return acc.result()


def w_trivial(chunk):
    """inputs without a ring double bond system (and the empty molecule): every contract applies; K8 / T8 demand that both
    conversions report False and change nothing"""
    _setup()
    from chython.containers import MoleculeContainer
    acc = _Acc()
    for s in chunk:
        if s == '':
            acc.one('<empty molecule>', {'kind': 'empty'}, lambda c01: check_molecule(MoleculeContainer(), '<empty molecule>', seed=env.SEED, c01=c01, full=True))
        else:
            acc.one(s, {'kind': 'smiles', 'smiles': s, 'full': True}, lambda c01, s=s: check_smiles(s, c01=c01, full=True))
    return acc.result()


def w_corpus(chunk):
    _setup()
    acc = _Acc()
    for s in chunk:
        acc.one(s, {'kind': 'smiles', 'smiles': s}, lambda c01, s=s: check_smiles(s, c01=c01))
    return acc.result()


def w_sdf(idx):
    _setup()
    from chython import SDFRead
    acc = _Acc()
    with SDFRead(env.repo_path('test/arenes.sdf')) as f:
        ms = list(f)
    for i in idx:
        tag = f'arenes.sdf#{i}'
        acc.one(tag, {'kind': 'sdf', 'file': 'test/arenes.sdf', 'index': i},
                lambda c01, i=i, tag=tag: check_molecule(ms[i], tag, seed=env.SEED, c01=c01))
    return acc.result()


# ---- entry points ------------------------------------------------------------------------------------------------------------------
def w_peri(chunk):
    """aromatic form of one Kekule structure must not depend on the atom order (peri-fused aza tautomers, oracles/o05_peri.py)"""
    _setup()
    from chython import smiles
    from oracles import o05_peri as P
    n, keys, viol = 0, [], []
    for smi, k in chunk:
        res = {}
        for t in P.spellings(smi, k, env.SEED):
            try:
                m = smiles(t)
                m.thiele()
                res.setdefault(format(m, '!s'), t)
            except Exception as e:
                viol.append((f'X-exception:peri:{smi}', f'{type(e).__name__}: {e} while reading / aromatising the Kekule spelling {t} of {smi}',
                             {'kind': 'peri', 'structure': smi, 'spelling': t}))
                break
            n += 1
        if len(res) > 1:
            forms = sorted(res.items())
            viol.append((f'N-numbering-peri:{smi}', f'{smi}: thiele() of the same Kekule structure gives {len(res)} aromatic forms depending on the atom order: '
                                                     f'{forms[0][0]} from {forms[0][1]}, {forms[1][0]} from {forms[1][1]}',
                         {'kind': 'peri', 'structure': smi, 'spellings': [v for _, v in forms]}))
        elif res and next(iter(res)) != format(smiles(smi), '!s'):
            keys.append(f'peri:{smi}')          # non-trivial: aromatising moved something relative to the RDKit spelling
    return n, keys, viol


def bounded(run):
    import os
    from bounded import domains
    from oracles import o05_domain as D
    from oracles import o05_classes as X
    thorough = run.tier == 'thorough'
    THOROUGH[0] = thorough          # read by the forked workers
    stats = Counter()
    vcount = Counter()
    c01_samples = []

    families = {}

    def collect(results, label):
        for n, keys, samples, viol, st, c01 in results:
            c01_samples.extend(c01)
            run.case(n)
            for k in keys:
                run.case(0, key=k)
            for s in samples:
                run.case(0, sample=s)
            for k, v in st.items():
                stats[f'{label}.{k}'] += v
            for key, what, wit, native in viol:
                contract = key.split(':', 1)[0]
                vcount[contract] += 1
                fam = (contract, 'undetermined-NH' if contract == 'N-numbering-undetermined-NH' else wit.get('family') or key)
                families.setdefault(fam, []).append((key, what, wit, native))

    def report():
        """one violation per (contract, template family): the minimal witness (shortest, then smallest key); the rest is counted"""
        for fam, lst in sorted(families.items()):
            lst.sort(key=lambda x: (len(x[0]), x[0]))
            key, what, wit, native = lst[0]
            more = f' [+{len(lst) - 1} further inputs of the template family {fam[1]} violate the same contract]' if len(lst) > 1 else ''
            run.violation(key, what + more, witness=wit, native=native)

    gen = list(D.generate(domains.rnd('c05-gen'), n_random=6 if thorough else 3, pairs=thorough))
    nchunks = 256 if thorough else 64
    collect(pmap(w_generated, [gen[i::nchunks] for i in range(nchunks) if gen[i::nchunks]]), 'generated')
    run.bound(f'generator: {len(D.TEMPLATES)} ring templates (benzenoids, 5/6-ring heterocycles with N O S P B Se, charged rings, quinoid rings, '
              f'fused systems up to 4-5 rings) x substituent patterns over {D.SUBSTITUENTS} (unsubstituted, every single substitution, '
              f'{"every pair on templates with <= 6 positions, 6" if thorough else "3"} seeded multi-substitutions, perfluoro) = {len(gen)} molecules, '
              f'each as aromatic SMILES and as Kekule SMILES where both exist')
    cls = list(X.generate(thorough))
    collect(pmap(w_generated, [cls[i::32] for i in range(32) if cls[i::32]]), 'classes')
    fams = Counter(c[4] for c in cls)
    run.bound(f'input classes of oracles/o05_classes.py: {len(cls)} molecules in {len(fams)} classes ({", ".join(f"{k} {v}" for k, v in sorted(fams.items()))}), '
              'each in one or two spellings, all sampled clauses evaluated')
    triv = X.TRIVIAL + ['']
    collect(pmap(w_trivial, [triv[i::4] for i in range(4)]), 'trivial')
    run.bound(f'{len(triv)} inputs without ring double bond system (single atoms, acyclic, saturated rings, two components, the empty molecule)')
    sm = domains.corpus_sample(None if thorough else 300, 'c05')
    collect(pmap(w_corpus, [sm[i::64] for i in range(64) if sm[i::64]]), 'corpus')
    run.bound(f'corpus: {len(sm)} of the 4200 SMILES of pach/lipophilicity.csv (seeded sample in the quick tier)')
    extra = []
    p = env.repo_path('test/heterocycles_charges.smi')
    if os.path.exists(p):
        extra = [l.split()[0] for l in open(p) if l.strip()]
        collect(pmap(w_corpus, [extra[i::8] for i in range(8) if extra[i::8]]), 'heterocycles_charges')
        run.bound(f'test/heterocycles_charges.smi: {len(extra)} charged fused heterocycles')
    p = env.repo_path('test/arenes.sdf')
    nsdf = 0
    if os.path.exists(p):
        try:
            from chython import SDFRead
            with SDFRead(p) as f:
                nsdf = len(list(f))
        except Exception as e:   # unreadable file: domain part skipped, stated
            run.notes['arenes_sdf_unreadable'] = repr(e)
        if nsdf:
            collect(pmap(w_sdf, [list(range(nsdf))[i::16] for i in range(16)]), 'arenes')
            run.bound(f'test/arenes.sdf: {nsdf} polycyclic arenes given with aromatic bonds')
    from oracles import o05_peri as P
    peri = P.structures()
    korders = 30 if thorough else 12
    for n, keys, viol in pmap(w_peri, [[(x, korders) for x in peri[i::16]] for i in range(16)]):
        run.case(n)
        for k in keys:
            run.case(0, key=k)
        for key, what, wit in viol:
            run.violation(key, what, witness=wit)
    run.bound(f'peri-fused aza tautomers: {len(peri)} structures (8 frameworks with a five-membered ring, one or two CH -> N, every tautomer RDKit '
              f'enumerates that has an N-H) x {korders} seeded atom orders as Kekule strings: one aromatic form per structure')
    report()
    run.bound(f'enumerate_kekule(): first {MAXFORMS} forms per molecule; 2 seeded renumberings per molecule + shuffled insertion order + '
              f'{"numbers with gaps > 999 and descending numbers > 999" if thorough else "one of (numbers with gaps > 999, descending numbers > 999)"}; '
              f'kekule(buffer_size) for {BUFFERS[thorough][0]} on the input and {BUFFERS[thorough][1]} on the aromatic normal form (default 7 everywhere else); '
              f'thiele(fix_tautomers=False) on every molecule, its enumerated-forms clause on '
              f'{"every molecule" if thorough else "a seeded quarter of the molecules and on all input classes"}')
    run.assume('canonical strings are compared without stereo marks (format spec "!s"): stereo label canonicalisation is property C01, not C05',
               'charges / hydrogens may change only on atoms that a repair rule of aromatics/_rules.py (re-run on the input by the checker) names in its atom fix',
               'thiele() may move hydrogens between nitrogen atoms (documented fix_tautomers); with fix_tautomers=False no hydrogen moves',
               'RDKit 2026.03 kekulisation of the same aromatic SMILES is trusted for per-atom hydrogen counts / charges where RDKit accepts the input (one-directional)',
               'hydrogen re-derivation from the element tables: oracles/o04_valence.py (see C04)',
               'the clause "all enumerated Kekule forms aromatise identically" is skipped for inputs with an unsaturated four-membered ring '
               '(own detection on the input graph: a 4-cycle with an atom bearing a double/triple/aromatic bond) - recorded gap of the property; '
               'the clauses that follow from it (numbering independence, spelling independence, stability of the thiele-kekule-thiele cycle) are '
               'evaluated there too but differences are only counted as gap_hits_unsaturated_four_ring',
               'the enumerated-forms clauses are evaluated on inputs whose every atom has a hydrogen count (the aromatic normal form after kekule(); thiele(), '
               'and the input itself when it qualifies): straight after parsing, aromatic heteroatoms written without H have no count and the library '
               'documents them as pyrrole-or-pyridine ambiguous',
               'kekule() may reject an input (InvalidAromaticRing) - counted; it is a violation only where RDKit kekulises the same SMILES text',
               'K5 (valence) looks at atoms that have a hydrogen count; an atom left without any count after kekule() is reported once, as K9-hydrogens-stale',
               'RDKit is no oracle for mis-drawn rings / repair-rule inputs (classes marked nordkit): a rejection of such a text by kekule() is only counted',
               'thiele(fix_tautomers=False) must give the same aromatic bonds as thiele() whenever thiele() moved no hydrogen (one aromatic form per molecule); '
               'where the default call moved a hydrogen the two results are different tautomers and are not compared, and the clauses TD-normalises / EF3 are not evaluated',
               'one violation is reported per (contract, template family) with the minimal witness (shortest, then smallest key); further witnesses of the '
               'family are counted in the message')
    run.notes['c05_bounded_stats'] = dict(stats)
    run.notes['c05_violations_per_contract'] = dict(vcount)
    run.notes['c05_isomorphic_but_different_canonical_strings(C01 matter, not counted here)'] = c01_samples[:6]


def replay(rec):
    _setup()
    w = rec.get('witness') or {}
    want = rec['key'].split(':', 1)[0]
    if w.get('kind') == 'smiles':
        try:
            bad, _, _ = check_smiles(w['smiles'], rdkit=w.get('rdkit', True), full=w.get('full', False))
        except Exception as e:
            print('exception', repr(e))
            return want != 'X-exception' and False
    elif w.get('kind') == 'peri':
        from chython import smiles
        forms = set()
        for t in w.get('spellings') or [w.get('spelling')]:
            m = smiles(t)
            m.thiele()
            forms.add(format(m, '!s'))
        print('aromatic forms:', sorted(forms))
        return len(forms) == 1
    elif w.get('kind') == 'empty':
        from chython.containers import MoleculeContainer
        bad, _, _ = check_molecule(MoleculeContainer(), '<empty molecule>', seed=rec.get('seed', 0), full=True)
    elif w.get('kind') == 'pair':
        from bounded import domains
        a, k = domains.parse(w['aromatic']), domains.parse(w['kekule'])
        print('  ', a, '|', k)
        return same(a, k, False)
    elif w.get('kind') == 'sdf':
        from chython import SDFRead
        with SDFRead(env.repo_path(w['file'])) as f:
            ms = list(f)
        bad, _, _ = check_molecule(ms[w['index']], f'arenes.sdf#{w["index"]}', seed=rec.get('seed', 0))
    else:
        return False
    hit = [x for x in bad if x[0] == want]
    for x in hit:
        print('  ', x[1])
    return not hit
