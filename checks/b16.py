"""C16 bounded stand-in (engine B): template application edits exactly what the template names.

The contracts are attached to the REAL `BaseReactor._patcher` at run time (class attribute rebound to a wrapper; `BaseReactor.__init__`
is wrapped too, only to remember pattern / replacement / delete_atoms on the instance), so every product made by Transformer,
Reactor, the deprotection functions and the prepared reactors passes through the same post-condition:

 pre-state  S = input molecule (Reactor: union of the chosen reactants), mu = match pattern atom -> atom of S
 post-state N = product, mu' = mapping after the call
   mapping    mu' extends mu by exactly the replacement atoms that are not in the pattern
   numbers    new atoms get numbers that do not occur in S, pairwise different
   deleted    atoms(N) = atoms(S) - removed + new, removed = oracles.o16_deleted.removed_atoms(S, del0, remain): the matched,
              unmasked atoms absent from the replacement (none with delete_atoms=False) plus exactly the fragments that lose every
              path to a remaining matched atom
   frame      every surviving atom NOT named by the replacement keeps number, element, isotope, charge, radical, implicit H, its
              neighbour set (minus removed atoms) and bond orders, tetrahedral configuration and cis/trans configuration
   named      atoms named by the replacement: [A] keeps element+isotope of the matched atom, otherwise element+isotope of the
              replacement; charge and radical of the replacement; H count of the replacement for new atoms; the bonds among patched
              atoms are exactly the replacement's bonds with the requested order
   stereo     a stereo label in the replacement is the sign relative to (replacement neighbour order, then surviving old neighbours)
              [documented mechanism of `_patcher`]; without it a named centre keeps its configuration when its neighbour set is
              unchanged and loses the label when it changed
   valence    S valence-valid (check_valence() == []) => N valence-valid
 The post-condition is evaluated twice per patch: on the real product, and on the product of a twin reactor that differs only in
 `_fix_rings = False`.  On the twin the frame is exact.  With ring fixing (kekule + thiele on the product, documented Reactor
 behaviour) bond orders / H counts may be re-labelled inside ring blocks that contain a patched atom or a neighbour of a removed
 atom - only there differences within {1, 2, 4} are tolerated on the real product.

 plus, outside the wrapper:
   get_deleted  `BaseReactor._get_deleted` == removed_atoms on every graph of the atlas x every labelling of its nodes by
                {unmatched, deleted, remaining} x 3 adjacency orders
   count        Transformer: one product per mapping of the pattern (automorphism filter on / off), in the same order
   identity     identity templates (replacement = the pattern's atoms, [A:n] or same element, same bonds; masked-only; delete_atoms=False)
                give product == input and atom-by-atom identical attributes and bonds
   reactor      set of products (canonical strings) independent of reactant order, of reactant numbering (renumbered copies, disjoint
                or colliding numbers), unaffected by a spectator molecule; atom numbers of one reaction's products pairwise disjoint;
                one-shot products are among the exhaustive-mode products
   overlap      fix_mapping_overlap: results pairwise disjoint, each the same molecule as its input, first one untouched
   deprotect    exposed deprotection functions reach a fixpoint (no rule of the group matches the result)

 Coverage audit (bounded/d16_extra.py lists what the first version never reached) added, under the same statement:
   input-mutated / yield-mutated   the patched structure (snapshot taken BEFORE the patch: the frame pre-state), the caller's molecules and
                products already yielded are not changed by later work of the generator
   valence-h    "products are valence-valid" read with the library's own table (C04, check_implicit): a stored hydrogen count of a
                product atom without aromatic bonds is one the valence rules allow, when the same atom's count was allowed in the input
                (check_valence() only sees atoms without any count)
   stereo-frame-allene / -cumulene  labelled allenes / cumulenes none of whose atoms is named and whose environment is unchanged keep
                their configuration; stereo-override-bond: a label on a replacement bond is the sign relative to the replacement neighbours
   numbering    Transformer: the multiset of products (automorphism filter off) does not depend on the numbering of the input
                (descending / gaps / > 999); products compared atom by atom under the original numbers, no canonical strings
   golden       hand-derived expected products for every replacement feature (molecule replacement, radical, isotope, charge, bond and
                atom stereo labels, new / removed / triple bonds, delete_atoms=False, fix_aromatic_rings / fix_tautomers keywords) and the
                repository's own test examples of reactor/test (not runnable in this environment), compared as the tests compare
   metadata     copy_metadata=True copies the input's meta into a fresh dict, default leaves the product's meta empty (docstring)
   reactor-count   one-shot Reactor: the patched matches are exactly the unions of one mapping per pattern over every assignment of
                reactants to patterns (honours automorphism_filter);  reactor-limit1: polymerise_limit=1 gives the one-shot product sets;
                reactor-sameobject: the same molecule object passed twice behaves as two copies
   apply-all    deprotection.apply_all == the groups applied in order; returns the input when no rule matches
   deprotect-shipped  the examples / decoys shipped in the deprotection rows (the repository's test_deprotection, not runnable here)
   prepared     PreparedReactor one_shot=False / check_alerts=False / excess=[0]: unique numbers, valence, one-shot sets are among them
"""
import copy
import itertools
import types
from collections import Counter

from vlib import env
from vlib.report import pmap
from bounded import domains
from oracles.o16_deleted import removed_atoms
from bounded.d16_extra import T_EXTRA, FIXED_EXTRA, GOLDEN, GOLDEN_R, SHIPPED_T, SHIPPED_R, R_EXTRA

RULE = ('bounded: frame post-condition on BaseReactor._patcher for every product of synthetic, deprotection and reaction templates over a '
        'corpus sample; _get_deleted == reachability oracle on all small labelled graphs; relational contracts on Transformer/Reactor')

# ------------------------------------------------------------------------------------------------------------- templates
T_SYN = [  # Transformer templates, one per patcher branch
    dict(name='ident-any', p='[C:1]-[O:2]', r='[A:1]-[A:2]', identity=True, branch='any-atom reuse'),
    dict(name='ident-elem', p='[C:1]-[N:2]', r='[C:1]-[N:2]', identity=True, branch='existing atom rebuilt from element'),
    dict(name='ident-arom', p='[C;a:1]:[C;a:2]', r='[A:1]:[A:2]', identity=True, branch='aromatic bond in replacement'),
    dict(name='ident-nodelete', p='[C:1]-[Cl,Br,F:2]', r='[A:1]', kw={'delete_atoms': False}, identity=True, branch='delete_atoms=False'),
    dict(name='ident-masked', p='[C;M]-[O:1]', r='[A:1]', identity=True, branch='masked atom'),
    dict(name='stereo-keep', p='[A;M][C;h1;z1:1]([A;M])[A;M]', r='[A:1]', identity=True, branch='stereo translated'),
    dict(name='subst-new', p='[C;z1:1]-[Cl,Br:2]', r='[A:1]-[O:3]', branch='new atom + deleted atom'),
    dict(name='subst-elem', p='[C:1]-[Cl,Br:2]', r='[A:1]-[F:2]', branch='existing atom replaced by element'),
    dict(name='del-fragment', p='[C:1]-[O;z1:2]', r='[A:1]', branch='deleted atom with fragments'),
    dict(name='del-ring-n', p='[N;z1:1]-[C:2]', r='[A:2]', branch='deleted atom inside rings'),
    dict(name='demethyl', p='[C;a;M][O:1]-[C;D1]', r='[A:1]', branch='masked + deleted'),
    dict(name='ester-hydrolysis', p='[C;M](=[O;M])[O:1]-[C;z1:2]', r='[A:1]', branch='masked + deleted fragment'),
    dict(name='charge', p='[N;D1;z1:1]-[C:2]', r='[A;+:1]-[A:2]', branch='charge from replacement'),
    dict(name='n-oxide', p='[N;D3;z1;x0:1]', r='[A;+:1]-[O;-:2]', branch='charged new atom'),
    dict(name='dehydro', p='[C;z1;h1,h2,h3:1]-[C;z1;h1,h2,h3:2]', r='[A:1]=[A:2]', branch='bond order from replacement'),
    dict(name='add-atom', p='[C;D1;h3:1]', r='[A:1]-[F:2]', branch='new atom'),
    dict(name='add-atom-h0', p='[C;D1;h3:1]', r='[A:1]-[N;h0:2]', branch='new atom with H count from the replacement'),
    dict(name='add-chain', p='[O;D1;z1:1]-[C:2]', r='[A:2]-[A:1]-[C:3](=[O:4])-[C:5]', branch='several new atoms bonded to each other'),
    dict(name='stereo-set', p='[A;M][C;h1;z1:1]([A;M])[A;M]', r='[A;@:1]', branch='stereo override'),
    dict(name='stereo-set2', p='[A;M][C;h1;z1:1]([A;M])[A;M]', r='[A;@@:1]', branch='stereo override'),
    dict(name='stereo-invert', p='[A;M][C;@;h1;z1:1]([A;M])[A;M]', r='[A;@@:1]', branch='stereo override on stereo match'),
    dict(name='subst-stereo-centre', p='[C;h1;z1:1]-[O;D1:2]', r='[A:1]-[N:3]', branch='reaction centre loses label'),
]
R_SYN = [  # Reactor templates
    dict(name='amide', ps=('[C:1](=[O:2])-[O;D1:3]', '[N;D1;z1:4]-[C:5]'), rs=('[A:1](=[A:2])-[A:4]-[A:5]',), branch='two reactants'),
    dict(name='ether+hx', ps=('[C;z1:1]-[O;D1:2]', '[C;z1:3]-[Cl,Br:4]'), rs=('[A:1]-[A:2]-[A:3]', '[A:4]'), branch='two products (split)'),
    dict(name='subst-exh', ps=('[C;z1:1]-[Cl,Br:2]',), rs=('[A:1]-[O:3]',), kw={'one_shot': False, 'polymerise_limit': 3}, branch='exhaustive'),
    dict(name='amide-exh', ps=('[C:1](=[O:2])-[O;D1:3]', '[N;D1;z1:4]-[C:5]'), rs=('[A:1](=[A:2])-[A:4]-[A:5]',),
         kw={'one_shot': False, 'polymerise_limit': 2}, branch='exhaustive, two reactants'),
]
# small fixed inputs so that every synthetic branch is hit whatever the sample (stereo, rings through the deleted atom, dihalides...)
FIXED = ['CC[C@H](O)N', 'C[C@H](OC)CBr', 'C/C=C/CBr', 'CC=[C@]=CCBr', 'C1CN2CCC1CC2', 'CN1CCC(O)CC1', 'C1CC2CCN1CC2', 'C[C@@H]1CCCN1C',
         'ClCCCl', 'BrCC(C)Cl', 'CC(=O)O', 'OC(=O)CCC(=O)O', 'NCC', 'NCCN', 'OCC', 'OC(=O)c1ccccc1', 'C[C@H](N)C(=O)O', 'COc1ccccc1',
         'CC(=O)OCC', 'C[C@H](O)c1ccccc1', 'C[C@H](F)[C@@H](C)O', 'OC1CC2CCC1O2', 'C1COC2CCC1N2C', 'F/C=C/C[C@H](C)O', 'CC(C)OC(=O)C',
         'C[C@@H](Cl)CO', 'OC[C@H]1CCCO1', 'CC(C)(C)OC(=O)NCC', 'COC(=O)CCN', '[Na+].CC(=O)[O-].OCCCl']
SPECTATOR = 'c1ccccc1F'

K_CHECK = 8     # patches per template call that get the full post-condition (all get the count contract)
CAP_R = 80      # reactions consumed per Reactor call
T_REACTOR = [4.]  # seconds per Reactor call (quick; thorough 12)
MAXV = 4        # violations reported per work item and clause

# ----------------------------------------------------------------------------------------------------------- wrapper state
_ORIG = {}
_CTX = {}
_LOG = []       # mu0 of every patch in the current call
_VIOL = []
_STAT = Counter()
_BUDGET = [0]


def install():
    """attach the contracts to the real functions (idempotent)"""
    from chython.reactor.base import BaseReactor
    if _ORIG:
        return
    _ORIG['init'] = BaseReactor.__init__
    _ORIG['patcher'] = BaseReactor._patcher

    def __init__(self, pattern, replacement, delete_atoms, fix_rings, fix_tautomers):
        _ORIG['init'](self, pattern, replacement, delete_atoms, fix_rings, fix_tautomers)
        self._b16 = (pattern, replacement, delete_atoms)

    def _patcher(self, structure, mapping):
        mu0 = dict(mapping)
        _LOG.append(mu0)
        check = _BUDGET[0] > 0
        snap = snapshot(structure) if check else None  # the frame's pre-state
        new = _ORIG['patcher'](self, structure, mapping)
        if check:
            _BUDGET[0] -= 1
            if snapshot(structure) != snap:
                fire('input-mutated', f'the structure handed to the patcher was changed by the patch (match {mu0}): {diff_snap(snap, snapshot(structure))}',
                     mapping=mu0)
            # fix_aromatic_rings=False requested through the public keyword: the frame is exact whatever the instance attribute says
            post_condition(self, structure, mu0, dict(mapping), new, exact=not self._fix_rings or bool(_CTX.get('exact')), mode='real')
            if self._fix_rings:
                twin = copy.copy(self)
                twin._fix_rings = False
                m2 = dict(mu0)
                n2 = _ORIG['patcher'](twin, structure, m2)
                post_condition(twin, structure, mu0, m2, n2, exact=True, mode='twin')
        return new

    BaseReactor.__init__ = __init__
    BaseReactor._patcher = _patcher


def place(m):
    """distinct coordinates (inputs read from SMILES have none): the frame also covers xy"""
    for n, a in m._atoms.items():
        a.xy = (n % 23 * .7 + .1, n % 7 * 1.3 + n // 23 * .01)


def snapshot(m):
    """every stored attribute of a molecule that C16 talks about, in storage order"""
    bonds = m._bonds
    return tuple((n, a.atomic_number, a.isotope, a.charge, a.is_radical, a.implicit_hydrogens, a.stereo,
                  tuple((k, b.order, b.stereo) for k, b in bonds[n].items())) for n, a in m._atoms.items())


def diff_snap(a, b):
    if len(a) != len(b):
        return f'{len(a)} atoms -> {len(b)} atoms'
    for x, y in zip(a, b):
        if x != y:
            return f'atom record {x} -> {y}'
    return 'no difference'


def fire(clause, what, family=None, **native):
    """one key per (clause, template, input): the automorphism-filter variant and the twin without ring fixing only add to the text.
    family: key of a root-cause family decided by an independent predicate on the input (see the call sites)"""
    base = clause.split('/')[0]
    k = family or f'{base}:{_CTX.get("template")}:{_CTX.get("input")}'
    if sum(1 for v in _VIOL if v['key'].startswith(base + ':')) >= MAXV or any(v['key'] == k for v in _VIOL):
        return
    _VIOL.append({'key': k, 'what': f'{clause}: template {_CTX.get("template")}{_CTX.get("variant", "")} on {_CTX.get("input")}: {what}',
                  'witness': {'job': _CTX.get('job'), 'clause': clause}, 'native': native})


# ------------------------------------------------------------------------------------------------------- the post-condition
def _region(N, seeds):
    """ring blocks of N containing a seed atom, plus the seeds, plus one shell of neighbours (for H shifts)"""
    import networkx as nx
    g = nx.Graph()
    g.add_nodes_from(N._atoms)
    g.add_edges_from((n, m) for n, m, _ in N.bonds())
    reg = set(x for x in seeds if x in N._atoms)
    grew = True
    blocks = [b for b in nx.biconnected_components(g) if len(b) > 2]
    while grew:  # fused / spiro chains of blocks reached from a seed
        grew = False
        for b in blocks:
            if b & reg and not b <= reg:
                reg |= b
                grew = True
    shell = set(reg)
    for x in reg:
        shell.update(N._bonds[x])
    return reg, shell


def template_of(rx):
    """(pattern, replacement, delete_atoms) of a reactor; reactors built before install() are reconstructed from their public state"""
    t = getattr(rx, '_b16', None)
    if t is None:
        from functools import reduce
        from operator import or_
        pat = rx._pattern if hasattr(rx, '_pattern') else reduce(or_, rx._patterns)
        t = rx._b16 = (pat, rx._replacement, not isinstance(rx._to_delete, tuple))
    return t


def post_condition(rx, S, mu0, mu1, N, exact, mode):
    from chython.periodictable import AnyElement, Element
    P, Rp, delete = template_of(rx)
    sa_, na_ = S._atoms, N._atoms
    sb_, nb_ = S._bonds, N._bonds
    rnums = list(Rp)
    new_pat = [n for n in rnums if n not in mu0]
    named_old = {mu0[n]: n for n in rnums if n in mu0}
    tag = '' if mode == 'real' else '/no-ring-fix'
    h_exact = bool(_CTX.get('h_exact'))  # fix_tautomers=False requested: ring fixing moves no hydrogen
    _STAT['patches'] += 1

    # mapping, numbers
    if any(mu1.get(k) != v for k, v in mu0.items()) or set(mu1) != set(mu0) | set(new_pat):
        fire('mapping' + tag, f'mapping after the call {mu1} is not the match {mu0} extended by the new atoms {new_pat}')
        return
    new_nums = [mu1[n] for n in new_pat]
    if len(set(new_nums)) != len(new_nums) or any(x in sa_ for x in new_nums):
        fire('numbers' + tag, f'new atoms got numbers {new_nums}; input numbers {sorted(sa_)}', numbers=new_nums)
    # deleted
    matched = set(mu0.values())
    del0 = {mu0[n] for n, a in P.atoms() if not a.masked and n not in Rp._atoms} if delete else set()
    D = removed_atoms(sb_, del0, matched - del0)
    expected = (set(sa_) - D) | set(new_nums)
    if set(na_) != expected:
        fire('deleted' + tag, f'match {mu0}: removed atoms {sorted(set(sa_) - set(na_))}, the template names {sorted(del0)} and the fragments '
             f'without a path to a remaining matched atom make {sorted(D)}; unexpected atoms {sorted(set(na_) - expected - set(sa_))}',
             removed=sorted(set(sa_) - set(na_)), expected=sorted(D), mapping=mu0)
        D = set(sa_) - set(na_)  # reported once; the frame below is judged against what was actually removed
    if D - del0:
        _STAT['fragment-deleted'] += 1
    patched = set(named_old) | set(new_nums)
    reg = None

    def region():
        nonlocal reg
        if reg is None:
            seeds = set(patched)
            for d in D:
                seeds.update(k for k in sb_[d] if k not in D)
            reg = _region(N, seeds)
        return reg

    # frame
    for v, sa in sa_.items():
        if v in D or v in named_old or v not in na_:
            continue
        na = na_[v]
        if (sa.atomic_number, sa.isotope, sa.charge, sa.is_radical) != (na.atomic_number, na.isotope, na.charge, na.is_radical):
            fire('frame-attr' + tag, f'atom {v} not named by the template changed from {sa!r}/{sa.charge}/{sa.is_radical} to '
                 f'{na!r}/{na.charge}/{na.is_radical}', atom=v, mapping=mu0)
        if (sa.x, sa.y) != (na.x, na.y):
            fire('frame-xy' + tag, f'atom {v} not named by the template moved from {(sa.x, sa.y)} to {(na.x, na.y)}', atom=v, mapping=mu0)
        if sa.implicit_hydrogens != na.implicit_hydrogens and (exact or h_exact or v not in region()[1]):
            fire('frame-h' + tag, f'atom {v} not named by the template: implicit H {sa.implicit_hydrogens} -> {na.implicit_hydrogens}',
                 atom=v, mapping=mu0)
        sn = {k: b.order for k, b in sb_[v].items() if k not in D}
        nn = {k: b.order for k, b in nb_[v].items()}
        if set(sn) != set(nn):
            fire('frame-neighbours' + tag, f'atom {v} not named by the template: neighbours {sorted(sn)} -> {sorted(nn)}', atom=v, mapping=mu0)
        else:
            for k in sn:
                if sn[k] != nn[k] and (exact or not (v in region()[0] and k in region()[0] and {sn[k], nn[k]} <= {1, 2, 4})):
                    fire('frame-order' + tag, f'bond {v}-{k} of an atom not named by the template: order {sn[k]} -> {nn[k]}', bond=[v, k], mapping=mu0)
                    break
    # named atoms
    for n in rnums:
        ra = Rp._atoms[n]
        v = mu1[n]
        if v not in na_:
            continue
        na = na_[v]
        if isinstance(ra, AnyElement):
            src = sa_[mu0[n]]
            exp = (src.atomic_number, src.isotope, ra.charge, ra.is_radical)
        else:
            exp = (ra.atomic_number, ra.isotope, ra.charge, ra.is_radical)
        if (na.atomic_number, na.isotope, na.charge, na.is_radical) != exp:
            fire('named-attr' + tag, f'replacement atom {n} -> {v}: (Z, isotope, charge, radical) = '
                 f'{(na.atomic_number, na.isotope, na.charge, na.is_radical)}, template requests {exp}', atom=v, mapping=mu0)
        if exact and n not in mu0:
            eh = ra.implicit_hydrogens if isinstance(ra, Element) else (ra.implicit_hydrogens[0] if ra.implicit_hydrogens else None)
            if eh is not None and na.implicit_hydrogens != eh:
                fire('named-h' + tag, f'new atom {n} -> {v}: implicit H {na.implicit_hydrogens}, template requests {eh}', atom=v)
    for n, m in itertools.combinations(rnums, 2):
        rb = Rp._bonds[n].get(m)
        vn, vm = mu1[n], mu1[m]
        if vn not in na_ or vm not in na_:
            continue
        b = nb_[vn].get(vm)
        if rb is None:
            if b is not None:
                fire('named-bond' + tag, f'patched atoms {vn},{vm} are bonded ({b.order}) but the replacement has no bond {n}-{m}', mapping=mu0)
        elif b is None:
            fire('named-bond' + tag, f'replacement bond {n}-{m} ({int(rb)}) is missing between {vn},{vm}', mapping=mu0)
        elif b.order != int(rb) and (exact or not (b.order == 4 or int(rb) == 4)):
            fire('named-bond' + tag, f'replacement bond {n}-{m} requests order {int(rb)}, product has {b.order}', mapping=mu0)
    # tetrahedral stereo
    st_s, st_n = S.stereogenic_tetrahedrons, N.stereogenic_tetrahedrons
    for v, sa in sa_.items():
        if sa.stereo is None or v not in na_ or v not in st_s:
            continue
        n = named_old.get(v)
        if n is not None and Rp._atoms[n].stereo is not None:
            continue
        na = na_[v]
        if set(sb_[v]) != set(nb_[v]):
            if n is None:
                _STAT['unnamed-centre-lost-a-neighbour'] += 1  # property text: atoms not named keep their stereo; nothing asserted
            elif na.stereo is not None:
                fire('stereo-stale' + tag, f'centre {v} changed its neighbours {sorted(sb_[v])} -> {sorted(nb_[v])} and has no label in the '
                     f'replacement but still carries the label {na.stereo}', atom=v, mapping=mu0)
            else:
                _STAT['stereo-flushed'] += 1
        elif na.stereo is not None:
            e = st_s[v]
            if v not in st_n or set(st_n[v]) != set(e):
                fire('stereo-frame' + tag, f'centre {v}: label kept although its stereogenic environment changed', atom=v, mapping=mu0)
            elif N._translate_tetrahedron_sign(v, e) != sa.stereo:
                fire('stereo-frame' + tag, f'centre {v} (neighbours unchanged, no label in the replacement) is inverted', atom=v, mapping=mu0)
            else:
                _STAT['stereo-kept' + ('-named' if n is not None else '')] += 1
        else:
            _STAT['stereo-dropped'] += 1
    for n in rnums:
        ra = Rp._atoms[n]
        if ra.stereo is None:
            continue
        v = mu1[n]
        if v not in na_ or na_[v].stereo is None or v not in st_n:
            _STAT['override-dropped'] += 1
            continue
        rest = [k for k in sb_[v] if k not in patched and k not in D] if n in mu0 else []
        e = [k for k in [mu1[k] for k in Rp._bonds[n]] + rest if na_[k].atomic_number != 1]
        if set(e) != set(st_n[v]) or len(e) != len(st_n[v]):
            fire('stereo-override' + tag, f'centre {v}: environment {st_n[v]} is not replacement neighbours + old neighbours {e}', atom=v)
        elif N._translate_tetrahedron_sign(v, e) != ra.stereo:
            fire('stereo-override' + tag, f'centre {v}: sign relative to (replacement neighbours, old neighbours) = {e} is not the '
                 f'replacement label {ra.stereo}', atom=v, mapping=mu0)
        else:
            _STAT['override-set'] += 1
    # allenes and longer cumulenes of the untouched remainder (no atom of the chain named, environment unchanged)
    cum_s = S.stereogenic_cumulenes
    if cum_s:
        cum_n = N.stereogenic_cumulenes
        for path, e in cum_s.items():
            if len(path) == 2:
                continue  # plain double bonds: below
            odd = len(path) % 2
            c, c2 = path[len(path) // 2], path[len(path) // 2 - 1]
            lab = sa_[c].stereo if odd else sb_[c2][c].stereo
            if lab is None:
                continue
            if any(x in named_old or x not in na_ for x in path):
                _STAT['cumulene-named-or-removed'] += 1
                continue
            if any(set(sb_[x]) != set(nb_[x]) for x in path):
                _STAT['cumulene-env-changed'] += 1
                continue
            nl = na_[c].stereo if odd else nb_[c2][c].stereo
            if nl is None:
                _STAT['cumulene-dropped'] += 1
                continue
            kind = 'allene' if odd else 'cumulene'
            pn = path if path in cum_n else path[::-1]
            if pn not in cum_n or {x for x in cum_n[pn] if x is not None} != {x for x in e if x is not None}:
                fire(f'stereo-frame-{kind}' + tag, f'{kind} {list(path)}: label kept although its stereogenic environment changed', atoms=list(path), mapping=mu0)
                continue
            try:
                if odd:
                    s1, s2 = S._translate_allene_sign(c, e[0], e[1]), N._translate_allene_sign(c, e[0], e[1])
                else:
                    s1, s2 = S._translate_cis_trans_sign(path[0], path[-1], e[0], e[1]), N._translate_cis_trans_sign(path[0], path[-1], e[0], e[1])
            except KeyError:
                continue
            if s1 != s2:
                fire(f'stereo-frame-{kind}' + tag, f'{kind} {list(path)} (no atom named, environment unchanged) changed its configuration', atoms=list(path), mapping=mu0)
            else:
                _STAT[kind + '-kept'] += 1
    # stereo label on a replacement bond: sign relative to the replacement neighbours (one on each end: unambiguous)
    for n, m in itertools.combinations(rnums, 2):
        rb = Rp._bonds[n].get(m)
        if rb is None or rb.stereo is None:
            continue
        a, b = mu1[n], mu1[m]
        if a not in na_ or b not in nb_[a]:
            continue
        rn, rm = [k for k in Rp._bonds[n] if k != m], [k for k in Rp._bonds[m] if k != n]
        if len(rn) != 1 or len(rm) != 1:
            _STAT['override-bond-ambiguous'] += 1
            continue
        if nb_[a][b].stereo is None:
            _STAT['override-bond-dropped'] += 1
            continue
        try:
            sg = N._translate_cis_trans_sign(a, b, mu1[rn[0]], mu1[rm[0]])
        except KeyError:
            fire('stereo-override-bond' + tag, f'double bond {a}={b}: labelled, but the replacement neighbours {mu1[rn[0]]},{mu1[rm[0]]} are not its substituents', bond=[a, b])
            continue
        if sg != rb.stereo:
            fire('stereo-override-bond' + tag, f'double bond {a}={b}: sign relative to the replacement neighbours ({mu1[rn[0]]},{mu1[rm[0]]}) is not the '
                 f'replacement label {rb.stereo}', bond=[a, b], mapping=mu0)
        else:
            _STAT['override-bond-set'] += 1
    # cis-trans
    for (a, b), e in S.stereogenic_cis_trans.items():
        if b not in sb_[a] or sb_[a][b].stereo is None or a not in na_ or b not in na_ or b not in nb_[a]:
            continue
        na, nb = named_old.get(a), named_old.get(b)
        if na is not None and nb is not None and (rb := Rp._bonds[na].get(nb)) is not None and rb.stereo is not None:
            continue
        bond = nb_[a][b]
        same = set(sb_[a]) == set(nb_[a]) and set(sb_[b]) == set(nb_[b]) and bond.order == sb_[a][b].order
        if not same:
            if bond.stereo is not None:
                fire('stereo-stale-bond' + tag, f'double bond {a}={b}: environment changed, no label in the replacement, label still {bond.stereo}',
                     bond=[a, b], mapping=mu0)
        elif bond.stereo is not None:
            try:
                s1 = S._translate_cis_trans_sign(a, b, e[0], e[1])
                s2 = N._translate_cis_trans_sign(a, b, e[0], e[1])
            except KeyError:
                continue
            if s1 != s2:
                fire('stereo-frame-bond' + tag, f'double bond {a}={b} (environment unchanged) changed its configuration', bond=[a, b], mapping=mu0)
            else:
                _STAT['cis-trans-kept'] += 1
    # valence
    if mode == 'real' and not S.check_valence():
        bad = N.check_valence()
        if bad:
            fire('valence', f'valence-valid input, product atoms {bad} have no valid valence', atoms=bad, mapping=mu0)
    # valence, stored hydrogen counts (library's own valence table, C04): allowed in the input => allowed in the product
    if mode == 'real':
        requested = {mu1[n] for n in new_pat if Rp._atoms[n].implicit_hydrogens not in (None, ())}  # H count dictated by the template
        for v, na in na_.items():
            h = na.implicit_hydrogens
            if h is None or v in requested or any(b.order == 4 for b in nb_[v].values()):
                continue
            unnamed = v in sa_ and v not in named_old
            if unnamed:
                sa = sa_[v]
                if sa.implicit_hydrogens is None or any(b.order == 4 for b in sb_[v].values()) or not S.check_implicit(v, sa.implicit_hydrogens):
                    continue
            if not N.check_implicit(v, h):
                # root-cause family, decided on the input and the template only: an atom the template does not name is bonded to an atom
                # that is removed, survives (another path to a remaining matched atom) and carries the hydrogen count it had
                dangling = unnamed and any(k in D for k in sb_[v]) and h == sa_[v].implicit_hydrogens
                fire('valence-h', f'match {mu0}: product atom {v} ({na.atomic_symbol}, bonds {sorted((k, b.order) for k, b in nb_[v].items())}) stores '
                     f'{h} implicit H, which the valence rules do not allow' + (' (unnamed neighbour of a removed atom keeps its old count)' if dangling else ''),
                     family='valence-h:unnamed-neighbour-of-removed-atom' if dangling else None, atom=v, mapping=mu0)


# ------------------------------------------------------------------------------------------------------------- jobs
_TCACHE = {}


def transformer_of(job):
    from chython import smarts, smiles, Transformer
    from chython.reactor import deprotection
    k = (job['kind'], job.get('name'), job.get('group'), job.get('rule'), job.get('af', True))
    if k not in _TCACHE:
        if job['kind'] == 'syn':
            spec = next(t for t in T_SYN + T_EXTRA if t['name'] == job['name'])
            repl = smiles(spec['rmol']) if 'rmol' in spec else smarts(spec['r'])
            _TCACHE[k] = (Transformer(smarts(spec['p']), repl, automorphism_filter=job['af'], **spec.get('kw', {})), spec)
        else:
            r, p, *_ = getattr(deprotection, '_' + job['group'])[job['rule']]
            _TCACHE[k] = (Transformer(smarts(r), smarts(p)), {'name': f'{job["group"]}[{job["rule"]}]', 'p': r, 'r': p})
    return _TCACHE[k]


def reactor_of(job):
    """flip: the other mode (one-shot <-> exhaustive); lim1: exhaustive mode with polymerise_limit=1 (boundary of the documented range)"""
    from chython import smarts, smiles, Reactor
    from chython.reactor import reactions
    k = ('R', job['kind'], job['name'], job.get('idx'), job.get('flip', False), job.get('lim1', False))
    if k not in _TCACHE:
        if job['kind'] == 'rsyn':
            spec = next(t for t in R_SYN + R_EXTRA if t['name'] == job['name'])
            kw = dict(spec.get('kw', {}))
            if job.get('lim1'):
                kw.update(one_shot=False, polymerise_limit=1)
            elif job.get('flip'):
                kw['one_shot'] = not kw.get('one_shot', True)
                kw.setdefault('polymerise_limit', 2)
            prods = tuple(smiles(x) for x in spec['rmols']) if 'rmols' in spec else tuple(smarts(x) for x in spec['rs'])
            _TCACHE[k] = Reactor(tuple(smarts(x) for x in spec['ps']), prods, **kw)
        else:
            pr = getattr(reactions, job['name'])
            if job.get('lim1'):
                R0 = pr.rxn_os[job['idx']]
                _TCACHE[k] = Reactor(R0._patterns, R0._products, one_shot=False, polymerise_limit=1, automorphism_filter=False)
            else:
                _TCACHE[k] = (pr.rxn_ms if job.get('flip') else pr.rxn_os)[job['idx']]
    return _TCACHE[k]


def spec_kw(job):
    if job['kind'] == 'rsyn':
        return next(t for t in R_SYN + R_EXTRA if t['name'] == job['name']).get('kw', {})
    return {}


REN_MODES = ('reverse', 'gaps', 'big')


def renumbered(m, mode):
    """copy of m with other atom numbers (storage order kept): descending / with gaps / descending and > 999"""
    nums = list(m)
    mp = {'reverse': lambda i: len(nums) - i, 'gaps': lambda i: 7 * i + 3, 'big': lambda i: 1999 - 2 * i}[mode]
    c = m.copy()
    c.remap({n: mp(i) for i, n in enumerate(nums)})
    return c


def job_input(job):
    """the molecule a Transformer job runs on (replay)"""
    t = job['input']
    m = domains.parse(t[4:], normalise=False) if t.startswith('raw:') else domains.parse(t)
    if job.get('ren'):
        m = renumbered(m, job['ren'])
    return m


def exact_same(p, m):
    """None or text: atom-by-atom identity of two molecules (numbers, attributes, bonds)"""
    if set(p._atoms) != set(m._atoms):
        return f'atom numbers differ: {sorted(set(p._atoms) ^ set(m._atoms))}'
    for n, a in m._atoms.items():
        b = p._atoms[n]
        if (a.atomic_number, a.isotope, a.charge, a.is_radical, a.implicit_hydrogens) != \
                (b.atomic_number, b.isotope, b.charge, b.is_radical, b.implicit_hydrogens):
            return f'atom {n} differs: {a!r} H{a.implicit_hydrogens} vs {b!r} H{b.implicit_hydrogens}'
        if {k: x.order for k, x in m._bonds[n].items()} != {k: x.order for k, x in p._bonds[n].items()}:
            return f'bonds of atom {n} differ'
    return None


def run_transformer(job, m, text, out):
    """all Transformer-level contracts for one (template, molecule); wrapper contracts fire through _VIOL"""
    T, spec = transformer_of(job)
    name = spec['name']
    kw = spec.get('kw', {})
    ren = job.get('ren')
    _CTX.update(template=name, input=text + (f' [numbering {ren}]' if ren else ''), job={**job, 'input': text},
                variant=('' if job.get('af', True) else ' (automorphism_filter=False)'),
                exact=kw.get('fix_aromatic_rings') is False, h_exact=kw.get('fix_tautomers') is False)
    del _LOG[:]
    _BUDGET[0] = K_CHECK
    m.meta['b16'] = text
    place(m)
    before = snapshot(m)
    prods, sigs = [], []
    try:
        for p in T(m):
            prods.append(p)
            if len(sigs) < K_CHECK:
                sigs.append(snapshot(p))
    except Exception as e:
        fire('raises', f'template application raised {type(e).__name__}: {e}', error=repr(e), mapping=_LOG[-1] if _LOG else None)
        _BUDGET[0] = 0
        return []
    _BUDGET[0] = 0
    if snapshot(m) != before:
        fire('input-mutated', f'the input molecule was changed by the template application: {diff_snap(before, snapshot(m))}')
    for j, (p, sg) in enumerate(zip(prods, sigs)):
        if snapshot(p) != sg:
            fire('yield-mutated', f'product {j} changed after it was yielded: {diff_snap(sg, snapshot(p))}')
            break
    for p in prods[:K_CHECK]:  # docstring of Transformer: copy_metadata
        if kw.get('copy_metadata'):
            if p.meta != m.meta or p.meta is m.meta:
                fire('metadata', f'copy_metadata=True: product meta {dict(p.meta)} (shared dict: {p.meta is m.meta}), input meta {dict(m.meta)}')
        elif p.meta:
            fire('metadata', f'copy_metadata not requested: product meta {dict(p.meta)}')
    maps = list(T._pattern.get_mapping(m, automorphism_filter=job.get('af', True), _cython=False))
    out[0] += 1
    if len(prods) != len(maps) or _LOG != maps:
        fire('count', f'{len(prods)} products for {len(maps)} mappings of the pattern (patched mappings {_LOG[:3]}, search gives {maps[:3]})',
             products=len(prods), mappings=len(maps))
    if not prods:
        return prods
    if spec.get('identity'):
        for p in prods[:K_CHECK]:
            d = None if p == m else f'product {p} != input {m}'
            d = d or exact_same(p, m)
            out[0] += 1
            if d:
                fire('identity', d, product=str(p))
                break
    for p in prods[:K_CHECK]:
        if len(set(p)) != len(list(p)):
            fire('numbers', 'duplicate atom numbers in product')
    out[1].append(f'{name}|{text}')
    out[1].append(f'branch:{spec.get("branch", "built-in deprotection")}|{text}')
    out[0] += min(len(prods), K_CHECK) * 2
    return prods


def signature(p, back):
    """numbering-independent record of a product: atoms of the input are called by their ORIGINAL numbers (back: product number -> original
    number), new atoms by their rank; attributes, bonds and every stereo label as the sign relative to the neighbours sorted by these names
    (no canonical string involved: C01 has a numbering-dependent tie for one labelled centre of two constitutionally equivalent ones)"""
    new = sorted(n for n in p._atoms if n not in back)
    lab = {n: (0, back[n]) if n in back else (1, new.index(n)) for n in p._atoms}
    atoms = sorted((lab[n], a.atomic_number, a.isotope, a.charge, a.is_radical, a.implicit_hydrogens) for n, a in p._atoms.items())
    bonds = sorted((min(lab[n], lab[k]), max(lab[n], lab[k]), b.order) for n, k, b in p.bonds())
    st = []
    tet, alle = p.stereogenic_tetrahedrons, p.stereogenic_allenes

    def first(*ks):
        return min((k for k in ks if k is not None), key=lab.get)
    for n, a in p._atoms.items():
        if a.stereo is None:
            continue
        if n in tet:
            st.append(('t', lab[n], p._translate_tetrahedron_sign(n, sorted(tet[n], key=lab.get))))
        elif n in alle:
            e = alle[n]
            x, y = first(e[0], e[2]), first(e[1], e[3])
            if lab[y] < lab[x]:
                x, y = y, x
            st.append(('a', lab[n], p._translate_allene_sign(n, x, y)))
        else:
            st.append(('?', lab[n], a.stereo))
    for (a, b), e in p.stereogenic_cis_trans.items():
        c1, c2 = p._stereo_cis_trans_centers[a]
        if p._bonds[c1][c2].stereo is None:
            continue
        st.append(('c', tuple(sorted((lab[a], lab[b]))), p._translate_cis_trans_sign(a, b, first(e[0], e[2]), first(e[1], e[3]))))
    return tuple(atoms), tuple(bonds), tuple(sorted(st))


def numbering_contract(base, got, out, m, m2):
    """Transformer: the multiset of products does not depend on the numbering of the input (context = the renumbered job).
    m2 is renumbered(m, mode): same storage order, other numbers"""
    out[0] += 1
    a = Counter(signature(p, dict(zip(m2, m))) for p in got)
    b = Counter(signature(p, {n: n for n in m}) for p in base)
    if a != b:
        fire('numbering', f'products change with the numbering of the input ({len(got)} / {len(base)} products; compared atom by atom under the '
             f'original numbers, stereo as signs on neighbours sorted by original number): only renumbered '
             f'{sorted({str(p) for p in got if b[signature(p, dict(zip(m2, m)))] != a[signature(p, dict(zip(m2, m)))]})[:3]}, only original '
             f'{sorted({str(p) for p in base if b[signature(p, {n: n for n in m})] != a[signature(p, {n: n for n in m})]})[:3]}',
             renumbered=sorted(str(p) for p in got)[:8], original=sorted(str(p) for p in base)[:8])


def prodkey(r):
    return tuple(sorted(str(p) for p in r.products))


def prodkey_flat(r):
    return tuple(sorted(format(p, '!s') for p in r.products))


def iso_equal(x, y):
    """two reactions have the same products, judged without canonical strings where the strings differ (oracles.o01_stereo: isomorphism
    including configuration) - C01 has numbering-dependent strings outside its two gaps (known family c01:partially-labelled-twin)"""
    from oracles.o01_stereo import stereo_isomorphic
    px, py = sorted(x.products, key=lambda q: format(q, '!s')), sorted(y.products, key=lambda q: format(q, '!s'))
    return len(px) == len(py) and all(str(a) == str(b) or (format(a, '!s') == format(b, '!s') and stereo_isomorphic(a, b) is True)
                                      for a, b in zip(px, py))


def same_sets(base, got):
    """compare two lists of reactions as sets of product tuples.  Returns (equal, only_in_got, only_in_base).
    Canonical strings are C01's business and have two documented gaps (DESIGN section 2 C01: stereo labels on centres with constitutionally
    equivalent substituents; symmetric cages).  When the full strings differ only for products inside a gap (oracles.o01_gaps, the fixed
    predicates of C01) the comparison falls back to stereo-free strings for those and the case is counted as gap hit."""
    from oracles.o01_gaps import gaps
    a, b = {prodkey(x): x for x in got}, {prodkey(x): x for x in base}
    if set(a) == set(b):
        return True, [], []
    da, db = [a[k] for k in set(a) - set(b)], [b[k] for k in set(b) - set(a)]
    if all(any(any(gaps(p)) for p in x.products) for x in da + db) and \
            {prodkey_flat(x) for x in got} == {prodkey_flat(x) for x in base}:
        _STAT['c01-gap-hits'] += 1
        return True, [], []
    if all(any(iso_equal(x, y) for y in base) for x in da) and all(any(iso_equal(x, y) for y in got) for x in db):
        _STAT['c01-string-tie-hits'] += 1
        return True, [], []
    return False, sorted(set(a) - set(b)), sorted(set(b) - set(a))


def subset_sets(small, big):
    """product tuples of the reactions `small` are among those of `big` (same treatment of the two documented gaps of C01 as same_sets).
    Returns (ok, missing keys)"""
    from oracles.o01_gaps import gaps
    a, b = {prodkey(x): x for x in small}, {prodkey(x) for x in big}
    miss = [k for k in a if k not in b]
    if not miss:
        return True, []
    if all(any(any(gaps(p)) for p in a[k].products) for k in miss) and {prodkey_flat(a[k]) for k in miss} <= {prodkey_flat(x) for x in big}:
        _STAT['c01-gap-hits'] += 1
        return True, []
    if all(any(iso_equal(a[k], y) for y in big) for k in miss):
        _STAT['c01-string-tie-hits'] += 1
        return True, []
    return False, sorted(miss)


def without_spectator(rs, sp):
    """the reactions with one product equal to the spectator removed (None: a reaction lacks it)"""
    out = []
    for x in rs:
        ps = list(x.products)
        for j, q in enumerate(ps):
            if str(q) == sp:
                del ps[j]
                break
        else:
            return None
        out.append(types.SimpleNamespace(products=ps))
    return out


def call_reactor(R, mols):
    """reactions of one call, at most CAP_R and at most T_REACTOR[0] seconds (exhaustive mode with polymerise_limit 10 can explode);
    a truncated list is never used in a set comparison"""
    import time
    t0 = time.time()
    rs, sigs = [], []
    capped = False
    for x in R(*mols):
        rs.append(x)
        if len(sigs) < K_CHECK:
            sigs.append(tuple(snapshot(p) for p in x.products))
        if len(rs) >= CAP_R or time.time() - t0 > T_REACTOR[0]:
            capped = True
            break
    for j, (x, sg) in enumerate(zip(rs, sigs)):  # later work of the generator must not touch what it already yielded
        if tuple(snapshot(p) for p in x.products) != sg:
            fire('yield-mutated', f'products of reaction {j} changed after the reaction was yielded')
            break
    return rs, capped


def expected_matches(R, mols):
    """one-shot Reactor: multiset of matches = for every assignment of reactants to the patterns, one mapping per pattern, united"""
    from itertools import permutations, product
    from chython.reactor.reactor import fix_mapping_overlap
    ss = fix_mapping_overlap(mols)
    exp = Counter()
    for chosen in permutations(range(len(ss)), len(R._patterns)):
        lists = [list(q.get_mapping(ss[c], automorphism_filter=R._automorphism_filter, _cython=False)) for q, c in zip(R._patterns, chosen)]
        for combo in product(*lists):
            d = {}
            for x in combo:
                d.update(x)
            exp[frozenset(d.items())] += 1
    return exp


def run_reactor(job, texts, out):
    """Reactor-level relational contracts for one reactant tuple"""
    R = reactor_of(job)
    name = job['name'] + (f'[{job["idx"]}]' if 'idx' in job else '')
    kw = spec_kw(job)
    _CTX.update(template=name, input=' + '.join(texts), job={**job, 'inputs': list(texts)}, variant='',
                exact=kw.get('fix_aromatic_rings') is False, h_exact=kw.get('fix_tautomers') is False)
    r = domains.rnd('b16r' + name + '|'.join(texts))
    mols = [domains.parse(t) for t in texts]
    valid = not any(m.check_valence() for m in mols)
    for m in mols:
        place(m)
    before = [snapshot(m) for m in mols]
    del _LOG[:]
    _BUDGET[0] = K_CHECK
    try:
        base, capped = call_reactor(R, mols)
    except Exception as e:
        fire('raises', f'reactor raised {type(e).__name__}: {e}', error=repr(e))
        _BUDGET[0] = 0
        return 0
    _BUDGET[0] = 0
    log0 = list(_LOG)
    out[0] += 1
    if [snapshot(m) for m in mols] != before:
        fire('input-mutated', 'a reactant molecule of the caller was changed by the Reactor call')
    if R._one_shot and not capped:  # one product per distinct match
        exp = expected_matches(R, mols)
        got = Counter(frozenset(x.items()) for x in log0)
        out[0] += 1
        if exp != got:
            fire('reactor-count', f'{sum(got.values())} patched matches, the patterns have {sum(exp.values())} (automorphism_filter='
                 f'{R._automorphism_filter}); only patched {[dict(x) for x in (got - exp)][:2]}, never patched {[dict(x) for x in (exp - got)][:2]}',
                 patched=sum(got.values()), expected=sum(exp.values()))
    if not base:
        return 0
    bset = Counter(prodkey(x) for x in base)
    if any(v > 1 for v in bset.values()):
        fire('reactor-duplicates', f'the same product set is yielded more than once: {[k for k, v in bset.items() if v > 1][:2]}')
    for x in base:
        c = Counter(n for p in x.products for n in p)
        if any(v > 1 for v in c.values()):
            fire('reactor-numbers', f'products of one reaction share atom numbers {[n for n, v in c.items() if v > 1][:6]}: {x}', reaction=str(x))
        if valid and any(p.check_valence() for p in x.products):
            fire('valence', f'valence-valid reactants, invalid product in {x}', reaction=str(x))
        out[0] += 2
    if capped:
        _STAT['reactor-capped'] += 1
        out[1].append(f'{name}|{_CTX["input"]}')
        return len(base)
    variants = []
    if len(mols) > 1:
        variants.append(('order', [domains.parse(t) for t in reversed(texts)]))
    ren = []
    for i, t in enumerate(texts):
        c, _ = domains.renumber(domains.parse(t), r, offset=r.choice((0, 3, 50)))
        ren.append(c)
    variants.append(('numbering', ren))
    dis = []
    for i, t in enumerate(texts):  # pairwise disjoint numbers: fix_mapping_overlap has nothing to do
        c = domains.parse(t)
        c.remap({n: n + 1000 * (i + 1) for n in list(c)})
        dis.append(c)
    variants.append(('disjoint-numbers', dis))
    if len(texts) == 2 and texts[0] == texts[1]:  # the same object twice: fix_mapping_overlap has to copy it
        one = domains.parse(texts[0])
        variants.append(('sameobject', [one, one]))
    for vn, ms in variants:
        try:
            got, cp = call_reactor(R, ms)
        except Exception as e:
            fire('raises', f'reactor raised {type(e).__name__}: {e} on variant {vn}', error=repr(e))
            continue
        out[0] += 1
        _STAT['reactor-capped'] += cp
        if not cp:
            ok, oa, ob = same_sets(base, got)
            if not ok:
                fire('reactor-' + vn, f'product set changes with reactant {vn}: only in variant {oa[:2]}, only in base {ob[:2]}', variant=oa[:6], base=ob[:6])
    # spectator
    sp = domains.parse(SPECTATOR)
    if not any(p <= sp for p in R._patterns):
        pos = r.choice((0, len(mols)))  # spectator first or last
        try:
            got, cp = call_reactor(R, mols[:pos] + [sp] + mols[pos:])
        except Exception as e:
            fire('raises', f'reactor raised {type(e).__name__}: {e} with a spectator molecule', error=repr(e))
            got, cp = [], True
        out[0] += 1
        if not cp:
            rest = without_spectator(got, str(sp))
            ok, oa, ob = same_sets(base, rest) if rest is not None else (False, ['a reaction without the spectator among its products'], [])
            if not ok:
                fire('reactor-spectator', f'with spectator {sp}: products besides the spectator only with it {oa[:2]}, only without it {ob[:2]}')
            for x in got:
                c = Counter(n for p in x.products for n in p)
                if any(v > 1 for v in c.values()):
                    fire('reactor-numbers', f'products + spectator share atom numbers {[n for n, v in c.items() if v > 1][:6]}', reaction=str(x))
    # one-shot vs exhaustive
    R2 = reactor_of({**job, 'flip': True})
    try:
        other, cp = call_reactor(R2, mols)
    except Exception as e:
        fire('raises', f'reactor (other mode) raised {type(e).__name__}: {e}', error=repr(e))
        other, cp = [], True
    out[0] += 1
    _STAT['reactor-capped'] += cp
    if not cp:
        ok, miss = subset_sets(*((base, other) if R._one_shot else (other, base)))
        if not ok:
            fire('reactor-modes', f'one-shot products missing from exhaustive mode: {miss[:2]}')
        # boundary of the documented range: polymerise_limit=1 allows no second stage
        R3 = reactor_of({**job, 'lim1': True})
        try:
            lim, cp3 = call_reactor(R3, mols)
        except Exception as e:
            fire('raises', f'reactor (polymerise_limit=1) raised {type(e).__name__}: {e}', error=repr(e))
            lim, cp3 = [], True
        out[0] += 1
        _STAT['reactor-capped'] += cp3
        if not cp3:
            ok, oa, ob = same_sets([x for x in (base if R._one_shot else other)], lim)
            if not ok:
                fire('reactor-limit1', f'exhaustive mode with polymerise_limit=1 differs from one-shot mode: only with limit 1 {oa[:2]}, only one-shot {ob[:2]}')
    out[1].append(f'{name}|{_CTX["input"]}')
    out[1].append(f'branch:{job.get("branch", "built-in reaction")}|{_CTX["input"]}')
    return len(base)


def overlap_contract(texts, out):
    from chython.reactor.reactor import fix_mapping_overlap
    _CTX.update(template='fix_mapping_overlap', input=' + '.join(texts), job={'kind': 'overlap', 'inputs': list(texts)}, variant='')
    ms = [domains.parse(t) for t in texts]
    out[0] += 1
    try:
        res = fix_mapping_overlap(ms)
    except Exception as e:  # total on any list of molecules
        fire('overlap', f'fix_mapping_overlap raised {type(e).__name__}: {e}', error=repr(e))
        return
    c = Counter(n for m in res for n in m)
    if any(v > 1 for v in c.values()):
        fire('overlap', f'numbers still collide: {[n for n, v in c.items() if v > 1][:6]}')
    def same(a, b):
        if len(a) != len(b):
            return False
        if str(a) == str(b):
            return True
        from oracles.o01_gaps import gaps  # canonical strings of renumbered copies: C01 with its two documented gaps
        if any(gaps(a)) and format(a, '!s') == format(b, '!s'):
            _STAT['c01-gap-hits'] += 1
            return True
        return False
    if len(res) != len(ms) or not all(same(a, b) for a, b in zip(ms, res)) or res[0] is not ms[0]:
        fire('overlap', 'results are not the input molecules (first one untouched)')
    if any(set(a) != set(domains.parse(t)) for a, t in zip(ms, texts)):
        fire('overlap', 'an input molecule was renumbered in place')


def overlap_variants(texts, out):
    """fix_mapping_overlap on three molecules, partially overlapping numbers with gaps, already disjoint numbers, a single molecule"""
    from chython.reactor.reactor import fix_mapping_overlap
    from oracles.o01_gaps import gaps
    t0, t1 = texts[0], texts[-1]

    def build(kind):
        a, b = domains.parse(t0), domains.parse(t1)
        if kind == 'triple':
            return [a, b, domains.parse(t0)]
        if kind == 'partial':  # b overlaps the upper half of a, numbers with gaps
            b.remap({n: 2 * k + max(1, len(a) // 2) for k, n in enumerate(list(b))})
            return [a, b]
        if kind == 'disjoint':
            b.remap({n: n + 1000 for n in list(b)})
            return [b, a]
        if kind == 'sameobject':
            return [a, a, b]
        return [a]
    for kind in ('triple', 'partial', 'disjoint', 'sameobject', 'single'):
        _CTX.update(template='fix_mapping_overlap', input=f'{t0} + {t1} [{kind}]', job={'kind': 'overlap-variant', 'inputs': list(texts), 'variant': kind},
                    variant='', exact=False, h_exact=False)
        ms = build(kind)
        before = [snapshot(m) for m in ms]
        strs = [str(m) for m in ms]
        out[0] += 1
        try:
            res = fix_mapping_overlap(ms)
        except Exception as e:
            fire('overlap', f'fix_mapping_overlap raised {type(e).__name__}: {e}', error=repr(e))
            continue
        c = Counter(n for m in res for n in m)
        if any(v > 1 for v in c.values()):
            fire('overlap', f'numbers still collide: {[n for n, v in c.items() if v > 1][:6]}')
        if len(res) != len(ms) or res[0] is not ms[0]:
            fire('overlap', 'results are not the input molecules (first one untouched)')
        else:
            for a, b, sa in zip(ms, res, strs):
                if len(a) != len(b) or (str(b) != sa and not (any(gaps(a)) and format(a, '!s') == format(b, '!s'))):
                    fire('overlap', f'result {b} is not the input molecule {sa}')
                    break
        if [snapshot(m) for m in ms] != before:
            fire('overlap', 'an input molecule was renumbered in place')


def prepared_options(job, texts, out):
    """PreparedReactor keywords never passed before: check_alerts=False, one_shot=False, excess=[0]; every call is time-capped, a truncated
    call takes part in no set comparison"""
    import time
    from chython.reactor import reactions
    pr = getattr(reactions, job['name'])
    valid = not any(domains.parse(t).check_valence() for t in texts)

    def consume(**kw):
        _CTX.update(template=f'reactions.{job["name"]}', input=' + '.join(texts) + f' {kw}', job={**job, 'inputs': list(texts), 'prepared': kw},
                    variant='', exact=False, h_exact=False)
        ms = [domains.parse(t) for t in texts]
        keys, t1, capped = [], time.time(), False
        _BUDGET[0] = K_CHECK
        try:
            for x in pr(*ms, **kw):
                c = Counter(k for p in x.products for k in p)
                if any(v > 1 for v in c.values()):
                    fire('reactor-numbers', f'prepared reactor {kw}: products share atom numbers: {x}', reaction=str(x))
                if valid and any(p.check_valence() for p in x.products):
                    fire('valence', f'prepared reactor {kw}: valence-valid reactants, invalid product in {x}', reaction=str(x))
                keys.append(types.SimpleNamespace(products=list(x.products)))
                out[0] += 1
                if len(keys) >= CAP_R or time.time() - t1 > T_PREPARED[0]:
                    capped = True
                    break
        except Exception as e:
            fire('raises', f'prepared reactor {kw} raised {type(e).__name__}: {e}', error=repr(e))
            capped = True
        _BUDGET[0] = 0
        _STAT['prepared-capped'] += capped
        return keys, capped
    base, c0 = consume()
    for kw in ({'check_alerts': False}, {'one_shot': False}, {'one_shot': False, 'excess': [0]}):
        got, c1 = consume(**kw)
        if 'excess' not in kw and not c0 and not c1:
            ok, miss = subset_sets(base, got)
            if not ok:
                fire('prepared', f'products of the default call are missing with {kw}: {miss[:2]}')
        if got:
            out[1].append(f'prepared{sorted(kw)}|{job["name"]}|{" + ".join(texts)}')


# ------------------------------------------------------------------------------------------------------------ work items
T_PREPARED = [2.]
_MOLS = []
_RPAT = []      # distinct reactant patterns of built-in + synthetic reactors: (smarts text, query)
_PAIRS = []
_GRAPHS = []


def _collect(out):
    v = list(_VIOL)
    del _VIOL[:]
    st = dict(_STAT)
    _STAT.clear()
    return out[0], out[1], out[2], v, st


def _mol_item(i):
    from chython.reactor import deprotection
    text, full, ren, fixed = _MOLS[i]
    out = [0, [], []]
    try:
        m = domains.parse(text)
    except Exception:
        return _collect(out) + ([],)
    if full:
        m2 = renumbered(m, ren) if ren else None
        for k, spec in enumerate(T_SYN + T_EXTRA):
            for af in (True, False):
                if not af and m2 is None and k >= len(T_SYN):
                    continue  # the added templates run without the filter only where the numbering contract needs it
                prods = run_transformer({'kind': 'syn', 'name': spec['name'], 'af': af}, m, text, out)
                n = len(prods)
                if n and af and i % 29 == 0 and len(out[2]) < 2:
                    out[2].append({'template': spec['name'], 'pattern': spec['p'], 'replacement': spec.get('r', spec.get('rmol')), 'input': text, 'products': n})
                if m2 is not None and not af:
                    # numbering: all matches (with the filter the surviving one of several matches to the same atoms may depend on the
                    # enumeration order, and a symmetric pattern with an asymmetric replacement then gives another product)
                    got = run_transformer({'kind': 'syn', 'name': spec['name'], 'af': af, 'ren': ren}, m2, text, out)
                    if n <= 200:
                        numbering_contract(prods, got, out, m, m2)
                    if got:
                        out[1].append(f'numbering-{ren}:{spec["name"]}|{text}')
    hit_groups = []
    for g in deprotection._groups:
        for j in range(len(getattr(deprotection, '_' + g))):
            if run_transformer({'kind': 'deprot', 'group': g, 'rule': j}, m, text, out):
                hit_groups.append(g)
    for g in dict.fromkeys(hit_groups):  # exposed functions: fixpoint
        _CTX.update(template=f'deprotection.{g}', input=text, job={'kind': 'deprot-fn', 'group': g, 'input': text}, variant='',
                    exact=False, h_exact=False)
        _BUDGET[0] = K_CHECK
        try:
            res = getattr(deprotection, g)(m)
        except Exception as e:
            fire('raises', f'deprotection.{g} raised {type(e).__name__}: {e}', error=repr(e))
            continue
        finally:
            _BUDGET[0] = 0
        out[0] += 1
        for j in range(len(getattr(deprotection, '_' + g))):
            T, _ = transformer_of({'kind': 'deprot', 'group': g, 'rule': j})
            if T._pattern <= res:
                fire('deprotect-fixpoint', f'rule {j} of {g} still matches the result {res}', result=str(res))
        if m.check_valence() == [] and res.check_valence():
            fire('valence', f'deprotection.{g}: invalid valence in {res}', result=str(res))
        out[1].append(f'deprotection.{g}|{text}')
    if hit_groups or fixed:  # apply_all: on every molecule some rule matches, and on the fixed / shipped molecules
        _CTX.update(template='deprotection.apply_all', input=text, job={'kind': 'deprot-fn', 'group': 'apply_all', 'input': text}, variant='',
                    exact=False, h_exact=False)
        _BUDGET[0] = K_CHECK
        try:
            res = deprotection.apply_all(m)
            _BUDGET[0] = 0
            exp = m
            for g in deprotection._groups:
                exp = getattr(deprotection, g)(exp)
        except Exception as e:
            fire('raises', f'deprotection.apply_all raised {type(e).__name__}: {e}', error=repr(e))
        else:
            out[0] += 1
            if str(res) != str(exp) or exact_same(res, exp):
                fire('apply-all', f'apply_all gives {res}, the groups applied in their order give {exp}', result=str(res))
            if not hit_groups and (res != m or exact_same(res, m)):
                fire('apply-all', f'no rule matches, apply_all returned {res}', result=str(res))
            if m.check_valence() == [] and res.check_valence():
                fire('valence', f'deprotection.apply_all: invalid valence in {res}', result=str(res))
            if hit_groups:
                out[1].append(f'deprotection.apply_all|{text}')
        finally:
            _BUDGET[0] = 0
    cls = [k for k, (s, q) in enumerate(_RPAT) if len(m) <= 40 and q <= m] if full else []
    return _collect(out) + (cls,)


def _pair_item(i):
    import time
    t0 = time.time()
    job, texts = _PAIRS[i]
    out = [0, [], []]
    n = run_reactor(job, texts, out)
    if job['kind'] == 'rbuiltin' and n:
        from chython.reactor import reactions
        _CTX.update(template=f'reactions.{job["name"]}', input=' + '.join(texts), job={**job, 'inputs': list(texts), 'prepared': True}, variant='')
        _BUDGET[0] = K_CHECK
        try:
            ms = [domains.parse(t) for t in texts]
            t1 = time.time()
            for x in itertools.islice(getattr(reactions, job['name'])(*ms), CAP_R):
                if time.time() - t1 > T_REACTOR[0]:
                    break
                c = Counter(k for p in x.products for k in p)
                if any(v > 1 for v in c.values()):
                    fire('reactor-numbers', f'prepared reactor: products share atom numbers: {x}', reaction=str(x))
                out[0] += 1
        except Exception as e:
            fire('raises', f'prepared reactor raised {type(e).__name__}: {e}', error=repr(e))
        _BUDGET[0] = 0
        if i % 4 == 0:
            prepared_options(job, texts, out)
    if n and i % 17 == 0:
        out[2].append({'reactor': job['name'], 'reactants': texts, 'reactions': n})
    overlap_contract(texts, out)
    overlap_variants(texts, out)
    _STAT['seconds'] = round(time.time() - t0, 2)
    return _collect(out)


# ------------------------------------------------------------------------------------- documented / hand-derived examples
_EXTRA = []


def _gin(t):
    return domains.parse(t[4:], normalise=False) if t.startswith('raw:') else domains.parse(t)


def _gkey(ms):
    return tuple(sorted(str(x) + ' ' + format(x, 'h') for x in ms))


def _repl(r):
    from chython import smarts, smiles
    return smiles(r[4:]) if r.startswith('mol:') else smarts(r)


def run_extra(job, out):
    from chython import smarts, smiles, Transformer, Reactor
    from chython.reactor import deprotection
    kind = job['kind']
    _BUDGET[0] = 0
    if kind == 'golden':
        pt, r, kw, t, exp = GOLDEN[job['idx']]
        _CTX.update(template=f'{pt}>>{r} {kw}', input=t, job=job, variant='', exact=False, h_exact=False)
        out[0] += 1
        try:
            got = sorted(_gkey([x]) for x in Transformer(smarts(pt), _repl(r), **kw)(_gin(t)))
        except Exception as e:
            fire('raises', f'template application raised {type(e).__name__}: {e}', error=repr(e))
            return
        e = sorted(_gkey([_gin(x)]) for x in exp)
        if got != e:
            fire('golden', f'products {[x[0] for x in got]}, the template requests {[x[0] for x in e]} (canonical string + string with explicit H counts)',
                 products=[x[0] for x in got])
        out[1].append(f'golden|{pt}>>{r}|{kw}|{t}')
    elif kind == 'golden-r':
        ps, rs, kw, ts, exp = GOLDEN_R[job['idx']]
        _CTX.update(template=f'{".".join(ps)}>>{".".join(rs)} {kw}', input=' + '.join(ts), job=job, variant='', exact=False, h_exact=False)
        out[0] += 1
        try:
            R = Reactor(tuple(smarts(x) for x in ps), tuple(_repl(x) for x in rs), **kw)
            got = sorted(_gkey(x.products) for x in R(*[_gin(t) for t in ts]))
        except Exception as e:
            fire('raises', f'reactor raised {type(e).__name__}: {e}', error=repr(e))
            return
        e = sorted(_gkey([_gin(x) for x in row]) for row in exp)
        if got != e:
            fire('golden', f'reactions give {got}, the template requests {e}', products=[list(x) for x in got])
        out[1].append(f'golden-r|{ps}>>{rs}|{kw}|{ts}')
    elif kind == 'shipped-t':  # chython/reactor/test/test_transformer.py, compared as the test does
        pt, r, t, exp = SHIPPED_T[job['idx']]
        _CTX.update(template=f'{pt}>>{r}', input=t, job=job, variant='', exact=False, h_exact=False)
        out[0] += 1
        try:
            got = {format(x, 'h') for x in Transformer(smarts(pt), smarts(r))(smiles(t))}
        except Exception as e:
            fire('raises', f'template application raised {type(e).__name__}: {e}', error=repr(e))
            return
        e = {format(smiles(x), 'h') for x in exp}
        if got != e:
            fire('golden', f'repository test example: products {sorted(got)}, documented {sorted(e)}', products=sorted(got))
        out[1].append(f'shipped-t|{pt}>>{r}|{t}')
    elif kind == 'shipped-r':  # chython/reactor/test/test_reactor.py
        ps, rs, ts, exp = SHIPPED_R[job['idx']]
        _CTX.update(template=f'{".".join(ps)}>>{".".join(rs)}', input=' + '.join(ts), job=job, variant='', exact=False, h_exact=False)
        out[0] += 1
        try:
            rx = next(Reactor([smarts(x) for x in ps], [smarts(x) for x in rs])(*(smiles(x) for x in ts)), None)
        except Exception as e:
            fire('raises', f'reactor raised {type(e).__name__}: {e}', error=repr(e))
            return
        got = {format(x, 'h') for x in rx.products} if rx is not None else set()
        e = {format(smiles(x), 'h') for x in exp}
        if got != e:
            fire('golden', f'repository test example: products {sorted(got)}, documented {sorted(e)}', products=sorted(got))
        out[1].append(f'shipped-r|{ps}>>{rs}')
    elif kind == 'empty':  # no atoms / fewer molecules than patterns: no product, no error
        from chython import MoleculeContainer
        _CTX.update(template='[C:1]-[Br:2]>>[A:1]-[O:3]', input='empty inputs', job=job, variant='', exact=False, h_exact=False)
        out[0] += 1
        try:
            from chython.reactor.reactor import fix_mapping_overlap
            T = Transformer(smarts('[C:1]-[Br:2]'), smarts('[A:1]-[O:3]'))
            R = Reactor((smarts('[C:1]-[Br:2]'), smarts('[N:3]-[C:4]')), (smarts('[A:1]-[A:3]-[A:4]'),))
            got = [list(T(MoleculeContainer())), list(R()), list(R(smiles('CBr'))), list(R(smiles('CBr'), MoleculeContainer())),
                   list(fix_mapping_overlap([]))]
        except Exception as e:
            fire('raises', f'empty input raised {type(e).__name__}: {e}', error=repr(e))
            return
        if got != [[], [], [], [], []]:
            fire('golden', f'empty molecule / too few reactants: products {got}, expected none')
        out[1].append('golden|empty')
    elif kind == 'deprot-shipped':  # chython/reactor/test/test_deprotection.py: example, answer, decoys of one row; selectivity over all rows
        g, j = job['group'], job['rule']
        q, pr, t, a, *bs = getattr(deprotection, '_' + g)[j]
        _CTX.update(template=f'{g}[{j}]', input=t, job=job, variant='', exact=False, h_exact=False)
        out[0] += 1

        def can(x):
            x = smiles(x)
            x.canonicalize()
            return x
        try:
            tm, am, qq = can(t), can(a), smarts(q)
            if not qq < tm:
                fire('deprotect-shipped', f'the rule does not match its own example {t}')
                return
            o = next(Transformer(qq, smarts(pr))(tm))
            if o != am:
                fire('deprotect-shipped', f'example {t}: product {o}, documented {am}', product=str(o))
            for b in bs:
                if qq < can(b):
                    fire('deprotect-shipped', f'the rule matches its decoy {b}')
            for ren in REN_MODES:  # the same example under other atom numbers
                o2 = getattr(deprotection, g)(renumbered(can(t), ren))
                if o2 != am:
                    fire('deprotect-shipped', f'example {t} numbered {ren}: deprotection.{g} gives {o2}, documented {am}', product=str(o2))
            others = []
            for g2 in deprotection._groups:
                for j2, row in enumerate(getattr(deprotection, '_' + g2)):
                    if len(row) > 2 and (g2, j2) != (g, j) and smarts(row[0]) < tm:
                        others.append(f'{g2}[{j2}]')
            if others:
                fire('deprotect-shipped', f'example {t} is also matched by the rules {others} (the rows are documented as selective)')
        except Exception as e:
            fire('raises', f'deprotection example raised {type(e).__name__}: {e}', error=repr(e))
        out[1].append(f'deprot-shipped|{g}[{j}]')


def _extra_item(i):
    out = [0, [], []]
    run_extra(_EXTRA[i], out)
    return _collect(out)


# --------------------------------------------------------------------------------------------------- _get_deleted, exhaustive
def get_deleted_case(adj, lab):
    """lab: {node: 0 unmatched | 1 deleted | 2 remaining matched}; returns (library set, oracle set)"""
    from chython.reactor.base import BaseReactor
    rx = object.__new__(BaseReactor)
    rx._to_delete = {1000 + v for v, x in lab.items() if x == 1}
    mapping = {1000 + v: v for v, x in lab.items() if x}
    got = BaseReactor._get_deleted(rx, types.SimpleNamespace(_bonds=adj), mapping)
    exp = removed_atoms(adj, {v for v, x in lab.items() if x == 1}, {v for v, x in lab.items() if x == 2})
    return set(got), exp


def adjacency_variants(g):
    nodes = sorted(g.nodes)
    nat = {v + 1: [k + 1 for k in sorted(g[v])] for v in nodes}
    yield 'sorted', {v: {k: 1 for k in ks} for v, ks in nat.items()}
    yield 'reversed', {v: {k: 1 for k in reversed(ks)} for v, ks in reversed(list(nat.items()))}
    yield 'rotated', {v: {k: 1 for k in ks[len(ks) // 2:] + ks[:len(ks) // 2]} for v, ks in nat.items()}


def _gd_item(i):
    g, tag = _GRAPHS[i]
    cases, viol, nbad = 0, [], 0
    nodes = sorted(v + 1 for v in g.nodes)
    variants = list(adjacency_variants(g))
    for labs in itertools.product((0, 1, 2), repeat=len(nodes)):
        if 1 not in labs:
            continue
        lab = dict(zip(nodes, labs))
        for vn, adj in variants:
            try:
                got, exp = get_deleted_case(adj, lab)
            except Exception as e:
                got, exp = {'raised': repr(e)}, None
            cases += 1
            if got != exp:
                nbad += 1
                if not viol:
                    viol.append({'key': f'get_deleted:{tag}:N-MISMATCHES:edges={sorted(tuple(sorted((a + 1, b + 1))) for a, b in g.edges)}:labels={list(labs)}:adjacency={vn}',
                                 'what': f'_get_deleted on graph {tag} edges {sorted((a + 1, b + 1) for a, b in g.edges)}, deleted '
                                         f'{[v for v in nodes if lab[v] == 1]}, remaining matched {[v for v in nodes if lab[v] == 2]}, adjacency order '
                                         f'{vn}: library removes {sorted(got)}, the fragments without a path to a remaining matched atom give {sorted(exp or [])}',
                                 'witness': {'job': {'kind': 'get_deleted', 'adjacency': [[a, list(b)] for a, b in adj.items()], 'labels': lab}, 'clause': 'get_deleted'},
                                 'native': {'library': sorted(got), 'oracle': sorted(exp or [])}})
    for v in viol:  # the key carries the number of failing (labelling, order) cases of this graph: any change shows up as a new key
        v['key'] = v['key'].replace('N-MISMATCHES', f'failing={nbad}/{cases}')
    return cases, [f'gd:{tag}'] if g.number_of_edges() else [], [], viol, {'get_deleted-mismatches': nbad, 'get_deleted-graphs-with-mismatch': len(viol)}


# ---------------------------------------------------------------------------------------------------------------- driver
def bounded(run):
    env.setup()
    install()
    from chython import smarts
    from chython.reactor import reactions, deprotection
    import networkx as nx
    from networkx.generators.atlas import graph_atlas_g
    thorough = run.tier == 'thorough'
    T_REACTOR[0] = 12. if thorough else 4.
    run.assume('oracles/o16_deleted.py: removed atoms = named unmasked matched atoms + components (after their removal) that touched them and '
               'contain no remaining matched atom (plain flood fill)',
               'stereo configurations are compared with the library\'s own sign translation (_translate_tetrahedron_sign / '
               '_translate_cis_trans_sign, C12) on a fixed neighbour order; canonical strings (C01) are the product-set keys of the Reactor contracts',
               'C07 (the matcher) supplies the matches; one product per mapping is checked against pattern.get_mapping(_cython=False)',
               'contract reading 1: a stereo label on an atom NOT named by the template that loses a removed neighbour is not judged (the property '
               'text says atoms not named keep their stereo; the code flushes labels only on named reaction centres) - counted as '
               'unnamed-centre-lost-a-neighbour',
               'contract reading 2: Reactor product sets are compared as sets of canonical strings; when they differ only for products inside the two '
               'documented gaps of C01 or by a numbering-dependent string tie (decided by oracles/o01_stereo.stereo_isomorphic, counted as '
               'c01-string-tie-hits) (oracles/o01_gaps.py, predicates fixed in DESIGN section 2 C01: stereo labels on centres with constitutionally '
               'equivalent substituents, symmetric cages) the stereo-free strings are compared instead and the case is counted as c01-gap-hits',
               'ring fixing on products (kekule + thiele, documented Reactor/Transformer option, default on) may re-label bond orders within {1,2,4} '
               'and move H inside ring blocks that contain a patched atom or a neighbour of a removed atom; everything is exact on the '
               'twin product made with _fix_rings=False from the same match')
    import time
    t0 = time.time()
    sec = run.notes.setdefault('seconds', {})
    slow = run.notes.setdefault('slowest work items', [])
    stats = Counter()
    total = {'n': 0}
    per_clause = Counter()
    hits = Counter()

    def absorb(res):
        for cases, keys, samples, viol, st, *rest in res:
            run.case(cases)
            for k in keys:
                run.case(0, key=k)
                head = k.split('|')[0]
                if head.startswith('branch:'):
                    hits[head[7:]] += 1
                elif head.startswith('numbering-'):
                    hits[head.split(':')[0]] += 1
                elif head.startswith(('golden', 'shipped', 'deprot-shipped', 'prepared', 'deprotection.apply_all')):
                    hits[head] += 1
            for s in samples:
                run.case(0, sample=s)
            stats.update(st)
            for v in sorted(viol, key=lambda x: x['key']):
                cl = v['key'].split(':', 1)[0]
                per_clause[cl] += 1
                if per_clause[cl] <= 12:
                    run.violation(v['key'], v['what'], witness=v['witness'], native=v['native'])
                total['n'] += 1

    # ---- _get_deleted, exhaustive
    gmax = 7 if thorough else 6
    _GRAPHS[:] = [(g, g.name or f'G{i}') for i, g in enumerate(graph_atlas_g())
                  if 1 <= g.number_of_nodes() <= gmax and (g.number_of_nodes() <= 6 or nx.is_connected(g))]
    run.bound(f'_get_deleted: every atlas graph with <= 6 nodes (connected or not){" and every connected graph with 7 nodes" if thorough else ""} '
              f'({len(_GRAPHS)} graphs) x every labelling of the nodes by unmatched / deleted / remaining with >= 1 deleted x 3 adjacency '
              f'insertion orders (sorted, reversed, rotated), exhaustive; first mismatch per graph is reported')
    absorb(pmap(_gd_item, range(len(_GRAPHS)), chunksize=4))
    sec['get_deleted'] = round(time.time() - t0, 1)

    # ---- corpus x templates
    n_full = 1500 if thorough else 150
    n_screen = None if thorough else 900
    full = domains.corpus_sample(n_full, 'b16corpus')
    fullset = set(full)
    tests = []
    for g in deprotection._groups:
        for r, p, *ts in getattr(deprotection, '_' + g):
            tests.extend(ts)
    screen = [s for s in domains.corpus_sample(n_screen, 'b16screen') if s not in fullset]
    ren_every = 2 if thorough else 4
    _MOLS[:] = [(s, True, REN_MODES[k % 3], True) for k, s in enumerate(FIXED + FIXED_EXTRA)] + \
               [(s, True, REN_MODES[k % 3] if k % ren_every == 0 else None, False) for k, s in enumerate(full)] + \
               [(s, False, None, True) for s in dict.fromkeys(tests)] + [(s, False, None, False) for s in screen]
    seen = {}
    for name in reactions.__all__[2:]:
        for R in getattr(reactions, name).rxn_os:
            for q in R._patterns:
                seen.setdefault(str(q), q)
    for spec in R_SYN + R_EXTRA:
        for s in spec['ps']:
            seen.setdefault(s, smarts(s))
    _RPAT[:] = list(seen.items())
    nrules = sum(len(getattr(deprotection, '_' + g)) for g in deprotection._groups)
    for txt in (f'Transformer domain: {len(FIXED) + len(FIXED_EXTRA)} fixed molecules (incl. isotope-labelled, radical, charged, explicit-H, single-atom, '
                f'allene / cumulene, tautomeric inputs) + {len(full)} corpus molecules (seeded) x {len(T_SYN) + len(T_EXTRA)} synthetic templates '
                f'(one per patcher branch / replacement feature / Transformer keyword) x automorphism filter on/off; numbering: every fixed molecule '
                f'and every {ren_every}th corpus molecule once more under other atom numbers (descending / gaps / descending > 999 in turn), filter off, '
                f'product multisets compared when <= 200 products; all {nrules} deprotection rules ({len(deprotection._groups)} groups) x '
                f'(those molecules + the {len(set(tests))} test/decoy molecules shipped with the rules + {len(screen)} further corpus molecules); '
                f'exposed deprotection functions and apply_all on every molecule a rule matched; apply_all also on the fixed and shipped molecules',
                f'full post-condition (real product + twin without ring fixing) on the first {K_CHECK} products of each template application; '
                f'count contract on all of them'):
        run.bound(txt)
    res = pmap(_mol_item, range(len(_MOLS)), chunksize=2)
    absorb(res)
    sec['transformers'] = round(time.time() - t0, 1)

    # ---- reactors: reactant pools from the classification of the full molecules
    # ---- documented / hand-derived examples
    _EXTRA[:] = [{'kind': 'golden', 'idx': k} for k in range(len(GOLDEN))] + [{'kind': 'golden-r', 'idx': k} for k in range(len(GOLDEN_R))] + \
                [{'kind': 'empty'}] + [{'kind': 'shipped-t', 'idx': k} for k in range(len(SHIPPED_T))] + [{'kind': 'shipped-r', 'idx': k} for k in range(len(SHIPPED_R))] + \
                [{'kind': 'deprot-shipped', 'group': g, 'rule': j} for g in deprotection._groups
                 for j, row in enumerate(getattr(deprotection, '_' + g)) if len(row) > 2]
    run.bound(f'examples: {len(GOLDEN)} Transformer and {len(GOLDEN_R)} Reactor template/input pairs with hand-derived expected products (one per '
              f'replacement feature and keyword), the {len(SHIPPED_T) + len(SHIPPED_R)} examples of the repository\'s reactor tests, the '
              f'{sum(1 for j in _EXTRA if j["kind"] == "deprot-shipped")} deprotection rows that ship an example (example -> answer, decoys, selectivity against '
              f'every other row, the example under {len(REN_MODES)} other numberings)')
    absorb(pmap(_extra_item, range(len(_EXTRA)), chunksize=2))
    sec['examples'] = round(time.time() - t0, 1)

    pools = {}
    for (text, *_), r in zip(_MOLS, res):
        for k in r[5]:
            pools.setdefault(_RPAT[k][0], []).append(text)
    r = domains.rnd('b16pairs')
    kpairs = 24 if thorough else 5
    _PAIRS.clear()

    def tuples_for(patterns, k):
        ps = [pools.get(str(q) if not isinstance(q, str) else q, []) for q in patterns]
        if any(not p for p in ps):
            return []
        outp = set()
        for _ in range(k * 4):
            t = tuple(r.choice(p) for p in ps)
            outp.add(t)
            if len(outp) >= k:
                break
        return sorted(outp)
    for spec in R_SYN:
        for t in tuples_for(spec['ps'], kpairs * 3):
            _PAIRS.append(({'kind': 'rsyn', 'name': spec['name'], 'branch': spec['branch']}, list(t)))
    for spec in R_EXTRA:
        for t in tuples_for(spec['ps'], kpairs):
            _PAIRS.append(({'kind': 'rsyn', 'name': spec['name'], 'branch': spec['branch']}, list(t)))
    for spec in R_SYN[:2] + R_EXTRA[:3]:  # the same molecule as both reactants (same object passed twice is one of the variants)
        both = sorted(set(pools.get(spec['ps'][0], [])) & set(pools.get(spec['ps'][1], [])))
        for t in both[:2 if not thorough else 8]:
            _PAIRS.append(({'kind': 'rsyn', 'name': spec['name'], 'branch': 'same molecule twice'}, [t, t]))
    nb = 0
    for name in reactions.__all__[2:]:
        for idx, R in enumerate(getattr(reactions, name).rxn_os):
            for t in tuples_for(R._patterns, kpairs):
                _PAIRS.append(({'kind': 'rbuiltin', 'name': name, 'idx': idx}, list(t)))
                nb += 1
    T_PREPARED[0] = 4. if thorough else 1.
    run.bound(f'PreparedReactor keywords (check_alerts=False, one_shot=False, excess=[0]): every fourth tuple, '
              f'{T_PREPARED[0]} s / {CAP_R} reactions per call; fix_mapping_overlap: every tuple also as triple / partially overlapping numbers with gaps / '
              f'disjoint numbers / same object twice / single molecule; Reactor calls also with polymerise_limit=1, the spectator first or last (seeded)')
    run.bound(f'Reactor domain: {len(R_SYN)} + {len(R_EXTRA)} synthetic reactors (two / three reactants with colliding numbers, two products, exhaustive mode, '
              f'automorphism_filter=False, delete_atoms=False, fix_aromatic_rings=False, fix_tautomers=False, molecule products) and the '
              f'{sum(len(getattr(reactions, n).rxn_os) for n in reactions.__all__[2:])} reactors of the {len(reactions.__all__) - 2} prepared reaction '
              f'collections x reactant tuples drawn (seeded, <= {kpairs} per reactor, {kpairs * 3} per synthetic) from the molecules (<= 40 atoms) of the '
              f'sample that match each reactant pattern: {len(_PAIRS)} tuples ({nb} built-in); each in base / reversed order / renumbered / '
              f'disjoint numbers / with spectator / other mode; at most {CAP_R} reactions / {T_REACTOR[0]} s consumed per call (truncated calls take part in no set comparison; counted as reactor-capped)')
    pres = pmap(_pair_item, range(len(_PAIRS)), chunksize=1)
    absorb(pres)
    sec['reactors'] = round(time.time() - t0, 1)
    for (job, texts), r_ in sorted(zip(_PAIRS, pres), key=lambda x: -x[1][4].get('seconds', 0))[:3]:
        slow.append({'reactor': job['name'], 'reactants': texts, 'seconds': r_[4].get('seconds')})
    run.notes['post-condition statistics'] = dict(stats)
    run.notes['inputs per patcher branch / option / example class (a branch with 0 inputs would be vacuous)'] = \
        {**{t['branch']: 0 for t in T_SYN + T_EXTRA + R_SYN + R_EXTRA}, **dict(hits)}
    run.notes['violations_total_before_cap'] = total['n']
    run.notes['reactor pools'] = {k: len(v) for k, v in pools.items()}


# ---------------------------------------------------------------------------------------------------------------- replay
def replay(rec):
    install()
    job = rec['witness']['job']
    del _VIOL[:]
    out = [0, [], []]
    if job['kind'] == 'get_deleted':
        adj = {int(a): {int(k): 1 for k in ks} for a, ks in job['adjacency']}
        got, exp = get_deleted_case(adj, {int(k): v for k, v in job['labels'].items()})
        return got == exp
    if job['kind'] in ('syn', 'deprot'):
        if job.get('ren'):
            m1, m2 = job_input({**job, 'ren': None}), job_input(job)
            base = run_transformer({k: v for k, v in job.items() if k != 'ren'}, m1, job['input'], out)
            numbering_contract(base, run_transformer(job, m2, job['input'], out), out, m1, m2)
        else:
            run_transformer(job, job_input(job), job['input'], out)
    elif job['kind'] == 'deprot-fn':
        _MOLS[:] = [(job['input'], False, None, True)]
        return not _mol_item(0)[3]
    elif job['kind'] == 'overlap':
        overlap_contract(job['inputs'], out)
    elif job['kind'] == 'overlap-variant':
        overlap_variants(job['inputs'], out)
    elif job['kind'] in ('golden', 'golden-r', 'shipped-t', 'shipped-r', 'deprot-shipped', 'empty'):
        run_extra(job, out)
    else:
        _PAIRS[:] = [({k: v for k, v in job.items() if k not in ('inputs', 'prepared')}, job['inputs'])]
        r = _pair_item(0)
        return not r[3]
    bad = list(_VIOL)
    del _VIOL[:]
    return not bad
