"""C16 bounded stand-in (engine B): template application edits exactly what the template names.

The contracts are attached to the REAL `BaseReactor._patcher` at run time (class attribute rebound to a wrapper; `BaseReactor.__init__`
is wrapped too, only to remember pattern / replacement / delete_atoms on the instance), so every product made by Transformer,
Reactor, the deprotection functions and the prepared reactors passes through the same post-condition:

 pre-state  S = input molecule (Reactor: union of the chosen reactants), mu = match pattern atom -> atom of S
 post-state N = product, mu' = mapping after the call
   mapping    mu' extends mu by exactly the replacement atoms that are not in the pattern
   numbers    new atoms get numbers that do not occur in S, pairwise different
   deleted    atoms(N) = atoms(S) - removed + new, removed = oracles.o16_deleted.removed_atoms(S, del0, remain): the matched,
              unmasked atoms absent from the replacement (none with delete_atoms=False) plus exactly the fragments that lose every
              path to a remaining matched atom
   frame      every surviving atom NOT named by the replacement keeps number, element, isotope, charge, radical, implicit H, its
              neighbour set (minus removed atoms) and bond orders, tetrahedral configuration and cis/trans configuration
   named      atoms named by the replacement: [A] keeps element+isotope of the matched atom, otherwise element+isotope of the
              replacement; charge and radical of the replacement; H count of the replacement for new atoms; the bonds among patched
              atoms are exactly the replacement's bonds with the requested order
   stereo     a stereo label in the replacement is the sign relative to (replacement neighbour order, then surviving old neighbours)
              [documented mechanism of `_patcher`]; without it a named centre keeps its configuration when its neighbour set is
              unchanged and loses the label when it changed
   valence    S valence-valid (check_valence() == []) => N valence-valid
 The post-condition is evaluated twice per patch: on the real product, and on the product of a twin reactor that differs only in
 `_fix_rings = False`.  On the twin the frame is exact.  With ring fixing (kekule + thiele on the product, documented Reactor
 behaviour) bond orders / H counts may be re-labelled inside ring blocks that contain a patched atom or a neighbour of a removed
 atom - only there differences within {1, 2, 4} are tolerated on the real product.

 plus, outside the wrapper:
   get_deleted  `BaseReactor._get_deleted` == removed_atoms on every graph of the atlas x every labelling of its nodes by
                {unmatched, deleted, remaining} x 3 adjacency orders
   count        Transformer: one product per mapping of the pattern (automorphism filter on / off), in the same order
   identity     identity templates (replacement = the pattern's atoms, [A:n] or same element, same bonds; masked-only; delete_atoms=False)
                give product == input and atom-by-atom identical attributes and bonds
   reactor      set of products (canonical strings) independent of reactant order, of reactant numbering (renumbered copies, disjoint
                or colliding numbers), unaffected by a spectator molecule; atom numbers of one reaction's products pairwise disjoint;
                one-shot products are among the exhaustive-mode products
   overlap      fix_mapping_overlap: results pairwise disjoint, each the same molecule as its input, first one untouched
   deprotect    exposed deprotection functions reach a fixpoint (no rule of the group matches the result)
"""
import copy
import itertools
import types
from collections import Counter

from vlib import env
from vlib.report import pmap
from bounded import domains
from oracles.o16_deleted import removed_atoms

RULE = ('bounded: frame post-condition on BaseReactor._patcher for every product of synthetic, deprotection and reaction templates over a '
        'corpus sample; _get_deleted == reachability oracle on all small labelled graphs; relational contracts on Transformer/Reactor')

# ------------------------------------------------------------------------------------------------------------- templates
T_SYN = [  # Transformer templates, one per patcher branch
    dict(name='ident-any', p='[C:1]-[O:2]', r='[A:1]-[A:2]', identity=True, branch='any-atom reuse'),
    dict(name='ident-elem', p='[C:1]-[N:2]', r='[C:1]-[N:2]', identity=True, branch='existing atom rebuilt from element'),
    dict(name='ident-arom', p='[C;a:1]:[C;a:2]', r='[A:1]:[A:2]', identity=True, branch='aromatic bond in replacement'),
    dict(name='ident-nodelete', p='[C:1]-[Cl,Br,F:2]', r='[A:1]', kw={'delete_atoms': False}, identity=True, branch='delete_atoms=False'),
    dict(name='ident-masked', p='[C;M]-[O:1]', r='[A:1]', identity=True, branch='masked atom'),
    dict(name='stereo-keep', p='[A;M][C;h1;z1:1]([A;M])[A;M]', r='[A:1]', identity=True, branch='stereo translated'),
    dict(name='subst-new', p='[C;z1:1]-[Cl,Br:2]', r='[A:1]-[O:3]', branch='new atom + deleted atom'),
    dict(name='subst-elem', p='[C:1]-[Cl,Br:2]', r='[A:1]-[F:2]', branch='existing atom replaced by element'),
    dict(name='del-fragment', p='[C:1]-[O;z1:2]', r='[A:1]', branch='deleted atom with fragments'),
    dict(name='del-ring-n', p='[N;z1:1]-[C:2]', r='[A:2]', branch='deleted atom inside rings'),
    dict(name='demethyl', p='[C;a;M][O:1]-[C;D1]', r='[A:1]', branch='masked + deleted'),
    dict(name='ester-hydrolysis', p='[C;M](=[O;M])[O:1]-[C;z1:2]', r='[A:1]', branch='masked + deleted fragment'),
    dict(name='charge', p='[N;D1;z1:1]-[C:2]', r='[A;+:1]-[A:2]', branch='charge from replacement'),
    dict(name='n-oxide', p='[N;D3;z1;x0:1]', r='[A;+:1]-[O;-:2]', branch='charged new atom'),
    dict(name='dehydro', p='[C;z1;h1,h2,h3:1]-[C;z1;h1,h2,h3:2]', r='[A:1]=[A:2]', branch='bond order from replacement'),
    dict(name='add-atom', p='[C;D1;h3:1]', r='[A:1]-[F:2]', branch='new atom'),
    dict(name='add-atom-h0', p='[C;D1;h3:1]', r='[A:1]-[N;h0:2]', branch='new atom with H count from the replacement'),
    dict(name='add-chain', p='[O;D1;z1:1]-[C:2]', r='[A:2]-[A:1]-[C:3](=[O:4])-[C:5]', branch='several new atoms bonded to each other'),
    dict(name='stereo-set', p='[A;M][C;h1;z1:1]([A;M])[A;M]', r='[A;@:1]', branch='stereo override'),
    dict(name='stereo-set2', p='[A;M][C;h1;z1:1]([A;M])[A;M]', r='[A;@@:1]', branch='stereo override'),
    dict(name='stereo-invert', p='[A;M][C;@;h1;z1:1]([A;M])[A;M]', r='[A;@@:1]', branch='stereo override on stereo match'),
    dict(name='subst-stereo-centre', p='[C;h1;z1:1]-[O;D1:2]', r='[A:1]-[N:3]', branch='reaction centre loses label'),
]
R_SYN = [  # Reactor templates
    dict(name='amide', ps=('[C:1](=[O:2])-[O;D1:3]', '[N;D1;z1:4]-[C:5]'), rs=('[A:1](=[A:2])-[A:4]-[A:5]',), branch='two reactants'),
    dict(name='ether+hx', ps=('[C;z1:1]-[O;D1:2]', '[C;z1:3]-[Cl,Br:4]'), rs=('[A:1]-[A:2]-[A:3]', '[A:4]'), branch='two products (split)'),
    dict(name='subst-exh', ps=('[C;z1:1]-[Cl,Br:2]',), rs=('[A:1]-[O:3]',), kw={'one_shot': False, 'polymerise_limit': 3}, branch='exhaustive'),
    dict(name='amide-exh', ps=('[C:1](=[O:2])-[O;D1:3]', '[N;D1;z1:4]-[C:5]'), rs=('[A:1](=[A:2])-[A:4]-[A:5]',),
         kw={'one_shot': False, 'polymerise_limit': 2}, branch='exhaustive, two reactants'),
]
# small fixed inputs so that every synthetic branch is hit whatever the sample (stereo, rings through the deleted atom, dihalides...)
FIXED = ['CC[C@H](O)N', 'C[C@H](OC)CBr', 'C/C=C/CBr', 'CC=[C@]=CCBr', 'C1CN2CCC1CC2', 'CN1CCC(O)CC1', 'C1CC2CCN1CC2', 'C[C@@H]1CCCN1C',
         'ClCCCl', 'BrCC(C)Cl', 'CC(=O)O', 'OC(=O)CCC(=O)O', 'NCC', 'NCCN', 'OCC', 'OC(=O)c1ccccc1', 'C[C@H](N)C(=O)O', 'COc1ccccc1',
         'CC(=O)OCC', 'C[C@H](O)c1ccccc1', 'C[C@H](F)[C@@H](C)O', 'OC1CC2CCC1O2', 'C1COC2CCC1N2C', 'F/C=C/C[C@H](C)O', 'CC(C)OC(=O)C',
         'C[C@@H](Cl)CO', 'OC[C@H]1CCCO1', 'CC(C)(C)OC(=O)NCC', 'COC(=O)CCN', '[Na+].CC(=O)[O-].OCCCl']
SPECTATOR = 'c1ccccc1F'

K_CHECK = 8     # patches per template call that get the full post-condition (all get the count contract)
CAP_R = 80      # reactions consumed per Reactor call
T_REACTOR = [4.]  # seconds per Reactor call (quick; thorough 12)
MAXV = 4        # violations reported per work item and clause

# ----------------------------------------------------------------------------------------------------------- wrapper state
_ORIG = {}
_CTX = {}
_LOG = []       # mu0 of every patch in the current call
_VIOL = []
_STAT = Counter()
_BUDGET = [0]


def install():
    """attach the contracts to the real functions (idempotent)"""
    from chython.reactor.base import BaseReactor
    if _ORIG:
        return
    _ORIG['init'] = BaseReactor.__init__
    _ORIG['patcher'] = BaseReactor._patcher

    def __init__(self, pattern, replacement, delete_atoms, fix_rings, fix_tautomers):
        _ORIG['init'](self, pattern, replacement, delete_atoms, fix_rings, fix_tautomers)
        self._b16 = (pattern, replacement, delete_atoms)

    def _patcher(self, structure, mapping):
        mu0 = dict(mapping)
        _LOG.append(mu0)
        new = _ORIG['patcher'](self, structure, mapping)
        if _BUDGET[0] > 0:
            _BUDGET[0] -= 1
            post_condition(self, structure, mu0, dict(mapping), new, exact=not self._fix_rings, mode='real')
            if self._fix_rings:
                twin = copy.copy(self)
                twin._fix_rings = False
                m2 = dict(mu0)
                n2 = _ORIG['patcher'](twin, structure, m2)
                post_condition(twin, structure, mu0, m2, n2, exact=True, mode='twin')
        return new

    BaseReactor.__init__ = __init__
    BaseReactor._patcher = _patcher


def fire(clause, what, **native):
    """one key per (clause, template, input): the automorphism-filter variant and the twin without ring fixing only add to the text"""
    base = clause.split('/')[0]
    k = f'{base}:{_CTX.get("template")}:{_CTX.get("input")}'
    if sum(1 for v in _VIOL if v['key'].startswith(base + ':')) >= MAXV or any(v['key'] == k for v in _VIOL):
        return
    _VIOL.append({'key': k, 'what': f'{clause}: template {_CTX.get("template")}{_CTX.get("variant", "")} on {_CTX.get("input")}: {what}',
                  'witness': {'job': _CTX.get('job'), 'clause': clause}, 'native': native})


# ------------------------------------------------------------------------------------------------------- the post-condition
def _region(N, seeds):
    """ring blocks of N containing a seed atom, plus the seeds, plus one shell of neighbours (for H shifts)"""
    import networkx as nx
    g = nx.Graph()
    g.add_nodes_from(N._atoms)
    g.add_edges_from((n, m) for n, m, _ in N.bonds())
    reg = set(x for x in seeds if x in N._atoms)
    grew = True
    blocks = [b for b in nx.biconnected_components(g) if len(b) > 2]
    while grew:  # fused / spiro chains of blocks reached from a seed
        grew = False
        for b in blocks:
            if b & reg and not b <= reg:
                reg |= b
                grew = True
    shell = set(reg)
    for x in reg:
        shell.update(N._bonds[x])
    return reg, shell


def template_of(rx):
    """(pattern, replacement, delete_atoms) of a reactor; reactors built before install() are reconstructed from their public state"""
    t = getattr(rx, '_b16', None)
    if t is None:
        from functools import reduce
        from operator import or_
        pat = rx._pattern if hasattr(rx, '_pattern') else reduce(or_, rx._patterns)
        t = rx._b16 = (pat, rx._replacement, not isinstance(rx._to_delete, tuple))
    return t


def post_condition(rx, S, mu0, mu1, N, exact, mode):
    from chython.periodictable import AnyElement, Element
    P, Rp, delete = template_of(rx)
    sa_, na_ = S._atoms, N._atoms
    sb_, nb_ = S._bonds, N._bonds
    rnums = list(Rp)
    new_pat = [n for n in rnums if n not in mu0]
    named_old = {mu0[n]: n for n in rnums if n in mu0}
    tag = '' if mode == 'real' else '/no-ring-fix'
    _STAT['patches'] += 1

    # mapping, numbers
    if any(mu1.get(k) != v for k, v in mu0.items()) or set(mu1) != set(mu0) | set(new_pat):
        fire('mapping' + tag, f'mapping after the call {mu1} is not the match {mu0} extended by the new atoms {new_pat}')
        return
    new_nums = [mu1[n] for n in new_pat]
    if len(set(new_nums)) != len(new_nums) or any(x in sa_ for x in new_nums):
        fire('numbers' + tag, f'new atoms got numbers {new_nums}; input numbers {sorted(sa_)}', numbers=new_nums)
    # deleted
    matched = set(mu0.values())
    del0 = {mu0[n] for n, a in P.atoms() if not a.masked and n not in Rp._atoms} if delete else set()
    D = removed_atoms(sb_, del0, matched - del0)
    expected = (set(sa_) - D) | set(new_nums)
    if set(na_) != expected:
        fire('deleted' + tag, f'match {mu0}: removed atoms {sorted(set(sa_) - set(na_))}, the template names {sorted(del0)} and the fragments '
             f'without a path to a remaining matched atom make {sorted(D)}; unexpected atoms {sorted(set(na_) - expected - set(sa_))}',
             removed=sorted(set(sa_) - set(na_)), expected=sorted(D), mapping=mu0)
        D = set(sa_) - set(na_)  # reported once; the frame below is judged against what was actually removed
    if D - del0:
        _STAT['fragment-deleted'] += 1
    patched = set(named_old) | set(new_nums)
    reg = None

    def region():
        nonlocal reg
        if reg is None:
            seeds = set(patched)
            for d in D:
                seeds.update(k for k in sb_[d] if k not in D)
            reg = _region(N, seeds)
        return reg

    # frame
    for v, sa in sa_.items():
        if v in D or v in named_old or v not in na_:
            continue
        na = na_[v]
        if (sa.atomic_number, sa.isotope, sa.charge, sa.is_radical) != (na.atomic_number, na.isotope, na.charge, na.is_radical):
            fire('frame-attr' + tag, f'atom {v} not named by the template changed from {sa!r}/{sa.charge}/{sa.is_radical} to '
                 f'{na!r}/{na.charge}/{na.is_radical}', atom=v, mapping=mu0)
        if sa.implicit_hydrogens != na.implicit_hydrogens and (exact or v not in region()[1]):
            fire('frame-h' + tag, f'atom {v} not named by the template: implicit H {sa.implicit_hydrogens} -> {na.implicit_hydrogens}',
                 atom=v, mapping=mu0)
        sn = {k: b.order for k, b in sb_[v].items() if k not in D}
        nn = {k: b.order for k, b in nb_[v].items()}
        if set(sn) != set(nn):
            fire('frame-neighbours' + tag, f'atom {v} not named by the template: neighbours {sorted(sn)} -> {sorted(nn)}', atom=v, mapping=mu0)
        else:
            for k in sn:
                if sn[k] != nn[k] and (exact or not (v in region()[0] and k in region()[0] and {sn[k], nn[k]} <= {1, 2, 4})):
                    fire('frame-order' + tag, f'bond {v}-{k} of an atom not named by the template: order {sn[k]} -> {nn[k]}', bond=[v, k], mapping=mu0)
                    break
    # named atoms
    for n in rnums:
        ra = Rp._atoms[n]
        v = mu1[n]
        if v not in na_:
            continue
        na = na_[v]
        if isinstance(ra, AnyElement):
            src = sa_[mu0[n]]
            exp = (src.atomic_number, src.isotope, ra.charge, ra.is_radical)
        else:
            exp = (ra.atomic_number, ra.isotope, ra.charge, ra.is_radical)
        if (na.atomic_number, na.isotope, na.charge, na.is_radical) != exp:
            fire('named-attr' + tag, f'replacement atom {n} -> {v}: (Z, isotope, charge, radical) = '
                 f'{(na.atomic_number, na.isotope, na.charge, na.is_radical)}, template requests {exp}', atom=v, mapping=mu0)
        if exact and n not in mu0:
            eh = ra.implicit_hydrogens if isinstance(ra, Element) else (ra.implicit_hydrogens[0] if ra.implicit_hydrogens else None)
            if eh is not None and na.implicit_hydrogens != eh:
                fire('named-h' + tag, f'new atom {n} -> {v}: implicit H {na.implicit_hydrogens}, template requests {eh}', atom=v)
    for n, m in itertools.combinations(rnums, 2):
        rb = Rp._bonds[n].get(m)
        vn, vm = mu1[n], mu1[m]
        if vn not in na_ or vm not in na_:
            continue
        b = nb_[vn].get(vm)
        if rb is None:
            if b is not None:
                fire('named-bond' + tag, f'patched atoms {vn},{vm} are bonded ({b.order}) but the replacement has no bond {n}-{m}', mapping=mu0)
        elif b is None:
            fire('named-bond' + tag, f'replacement bond {n}-{m} ({int(rb)}) is missing between {vn},{vm}', mapping=mu0)
        elif b.order != int(rb) and (exact or not (b.order == 4 or int(rb) == 4)):
            fire('named-bond' + tag, f'replacement bond {n}-{m} requests order {int(rb)}, product has {b.order}', mapping=mu0)
    # tetrahedral stereo
    st_s, st_n = S.stereogenic_tetrahedrons, N.stereogenic_tetrahedrons
    for v, sa in sa_.items():
        if sa.stereo is None or v not in na_ or v not in st_s:
            continue
        n = named_old.get(v)
        if n is not None and Rp._atoms[n].stereo is not None:
            continue
        na = na_[v]
        if set(sb_[v]) != set(nb_[v]):
            if n is None:
                _STAT['unnamed-centre-lost-a-neighbour'] += 1  # property text: atoms not named keep their stereo; nothing asserted
            elif na.stereo is not None:
                fire('stereo-stale' + tag, f'centre {v} changed its neighbours {sorted(sb_[v])} -> {sorted(nb_[v])} and has no label in the '
                     f'replacement but still carries the label {na.stereo}', atom=v, mapping=mu0)
            else:
                _STAT['stereo-flushed'] += 1
        elif na.stereo is not None:
            e = st_s[v]
            if v not in st_n or set(st_n[v]) != set(e):
                fire('stereo-frame' + tag, f'centre {v}: label kept although its stereogenic environment changed', atom=v, mapping=mu0)
            elif N._translate_tetrahedron_sign(v, e) != sa.stereo:
                fire('stereo-frame' + tag, f'centre {v} (neighbours unchanged, no label in the replacement) is inverted', atom=v, mapping=mu0)
            else:
                _STAT['stereo-kept' + ('-named' if n is not None else '')] += 1
        else:
            _STAT['stereo-dropped'] += 1
    for n in rnums:
        ra = Rp._atoms[n]
        if ra.stereo is None:
            continue
        v = mu1[n]
        if v not in na_ or na_[v].stereo is None or v not in st_n:
            _STAT['override-dropped'] += 1
            continue
        rest = [k for k in sb_[v] if k not in patched and k not in D] if n in mu0 else []
        e = [k for k in [mu1[k] for k in Rp._bonds[n]] + rest if na_[k].atomic_number != 1]
        if set(e) != set(st_n[v]) or len(e) != len(st_n[v]):
            fire('stereo-override' + tag, f'centre {v}: environment {st_n[v]} is not replacement neighbours + old neighbours {e}', atom=v)
        elif N._translate_tetrahedron_sign(v, e) != ra.stereo:
            fire('stereo-override' + tag, f'centre {v}: sign relative to (replacement neighbours, old neighbours) = {e} is not the '
                 f'replacement label {ra.stereo}', atom=v, mapping=mu0)
        else:
            _STAT['override-set'] += 1
    # cis-trans
    for (a, b), e in S.stereogenic_cis_trans.items():
        if b not in sb_[a] or sb_[a][b].stereo is None or a not in na_ or b not in na_ or b not in nb_[a]:
            continue
        na, nb = named_old.get(a), named_old.get(b)
        if na is not None and nb is not None and (rb := Rp._bonds[na].get(nb)) is not None and rb.stereo is not None:
            continue
        bond = nb_[a][b]
        same = set(sb_[a]) == set(nb_[a]) and set(sb_[b]) == set(nb_[b]) and bond.order == sb_[a][b].order
        if not same:
            if bond.stereo is not None:
                fire('stereo-stale-bond' + tag, f'double bond {a}={b}: environment changed, no label in the replacement, label still {bond.stereo}',
                     bond=[a, b], mapping=mu0)
        elif bond.stereo is not None:
            try:
                s1 = S._translate_cis_trans_sign(a, b, e[0], e[1])
                s2 = N._translate_cis_trans_sign(a, b, e[0], e[1])
            except KeyError:
                continue
            if s1 != s2:
                fire('stereo-frame-bond' + tag, f'double bond {a}={b} (environment unchanged) changed its configuration', bond=[a, b], mapping=mu0)
            else:
                _STAT['cis-trans-kept'] += 1
    # valence
    if mode == 'real' and not S.check_valence():
        bad = N.check_valence()
        if bad:
            fire('valence', f'valence-valid input, product atoms {bad} have no valid valence', atoms=bad, mapping=mu0)


# ------------------------------------------------------------------------------------------------------------- jobs
_TCACHE = {}


def transformer_of(job):
    from chython import smarts, Transformer
    from chython.reactor import deprotection
    k = (job['kind'], job.get('name'), job.get('group'), job.get('rule'), job.get('af', True))
    if k not in _TCACHE:
        if job['kind'] == 'syn':
            spec = next(t for t in T_SYN if t['name'] == job['name'])
            _TCACHE[k] = (Transformer(smarts(spec['p']), smarts(spec['r']), automorphism_filter=job['af'], **spec.get('kw', {})), spec)
        else:
            r, p, *_ = getattr(deprotection, '_' + job['group'])[job['rule']]
            _TCACHE[k] = (Transformer(smarts(r), smarts(p)), {'name': f'{job["group"]}[{job["rule"]}]', 'p': r, 'r': p})
    return _TCACHE[k]


def reactor_of(job):
    from chython import smarts, Reactor
    from chython.reactor import reactions
    k = ('R', job['kind'], job['name'], job.get('idx'), job.get('flip', False))
    if k not in _TCACHE:
        if job['kind'] == 'rsyn':
            spec = next(t for t in R_SYN if t['name'] == job['name'])
            kw = dict(spec.get('kw', {}))
            if job.get('flip'):
                kw['one_shot'] = not kw.get('one_shot', True)
                kw.setdefault('polymerise_limit', 2)
            _TCACHE[k] = Reactor(tuple(smarts(x) for x in spec['ps']), tuple(smarts(x) for x in spec['rs']), **kw)
        else:
            pr = getattr(reactions, job['name'])
            _TCACHE[k] = (pr.rxn_ms if job.get('flip') else pr.rxn_os)[job['idx']]
    return _TCACHE[k]


def exact_same(p, m):
    """None or text: atom-by-atom identity of two molecules (numbers, attributes, bonds)"""
    if set(p._atoms) != set(m._atoms):
        return f'atom numbers differ: {sorted(set(p._atoms) ^ set(m._atoms))}'
    for n, a in m._atoms.items():
        b = p._atoms[n]
        if (a.atomic_number, a.isotope, a.charge, a.is_radical, a.implicit_hydrogens) != \
                (b.atomic_number, b.isotope, b.charge, b.is_radical, b.implicit_hydrogens):
            return f'atom {n} differs: {a!r} H{a.implicit_hydrogens} vs {b!r} H{b.implicit_hydrogens}'
        if {k: x.order for k, x in m._bonds[n].items()} != {k: x.order for k, x in p._bonds[n].items()}:
            return f'bonds of atom {n} differ'
    return None


def run_transformer(job, m, text, out):
    """all Transformer-level contracts for one (template, molecule); wrapper contracts fire through _VIOL"""
    T, spec = transformer_of(job)
    name = spec['name']
    _CTX.update(template=name, input=text, job={**job, 'input': text}, variant='' if job.get('af', True) else ' (automorphism_filter=False)')
    del _LOG[:]
    _BUDGET[0] = K_CHECK
    try:
        prods = list(T(m))
    except Exception as e:
        fire('raises', f'template application raised {type(e).__name__}: {e}', error=repr(e), mapping=_LOG[-1] if _LOG else None)
        _BUDGET[0] = 0
        return 0
    _BUDGET[0] = 0
    maps = list(T._pattern.get_mapping(m, automorphism_filter=job.get('af', True), _cython=False))
    out[0] += 1
    if len(prods) != len(maps) or _LOG != maps:
        fire('count', f'{len(prods)} products for {len(maps)} mappings of the pattern (patched mappings {_LOG[:3]}, search gives {maps[:3]})',
             products=len(prods), mappings=len(maps))
    if not prods:
        return 0
    if spec.get('identity'):
        for p in prods[:K_CHECK]:
            d = None if p == m else f'product {p} != input {m}'
            d = d or exact_same(p, m)
            out[0] += 1
            if d:
                fire('identity', d, product=str(p))
                break
    for p in prods[:K_CHECK]:
        if len(set(p)) != len(list(p)):
            fire('numbers', 'duplicate atom numbers in product')
    out[1].append(f'{name}|{text}')
    out[1].append(f'branch:{spec.get("branch", "built-in deprotection")}|{text}')
    out[0] += min(len(prods), K_CHECK) * 2
    return len(prods)


def prodkey(r):
    return tuple(sorted(str(p) for p in r.products))


def prodkey_flat(r):
    return tuple(sorted(format(p, '!s') for p in r.products))


def same_sets(base, got):
    """compare two lists of reactions as sets of product tuples.  Returns (equal, only_in_got, only_in_base).
    Canonical strings are C01's business and have two documented gaps (DESIGN section 2 C01: stereo labels on centres with constitutionally
    equivalent substituents; symmetric cages).  When the full strings differ only for products inside a gap (oracles.o01_gaps, the fixed
    predicates of C01) the comparison falls back to stereo-free strings for those and the case is counted as gap hit."""
    from oracles.o01_gaps import gaps
    a, b = {prodkey(x): x for x in got}, {prodkey(x): x for x in base}
    if set(a) == set(b):
        return True, [], []
    da, db = [a[k] for k in set(a) - set(b)], [b[k] for k in set(b) - set(a)]
    if all(any(any(gaps(p)) for p in x.products) for x in da + db) and \
            {prodkey_flat(x) for x in got} == {prodkey_flat(x) for x in base}:
        _STAT['c01-gap-hits'] += 1
        return True, [], []
    return False, sorted(set(a) - set(b)), sorted(set(b) - set(a))


def call_reactor(R, mols):
    """reactions of one call, at most CAP_R and at most T_REACTOR[0] seconds (exhaustive mode with polymerise_limit 10 can explode);
    a truncated list is never used in a set comparison"""
    import time
    t0 = time.time()
    rs = []
    for x in R(*mols):
        rs.append(x)
        if len(rs) >= CAP_R or time.time() - t0 > T_REACTOR[0]:
            return rs, True
    return rs, False


def run_reactor(job, texts, out):
    """Reactor-level relational contracts for one reactant tuple"""
    R = reactor_of(job)
    name = job['name'] + (f'[{job["idx"]}]' if 'idx' in job else '')
    _CTX.update(template=name, input=' + '.join(texts), job={**job, 'inputs': list(texts)}, variant='')
    r = domains.rnd('b16r' + name + '|'.join(texts))
    mols = [domains.parse(t) for t in texts]
    valid = not any(m.check_valence() for m in mols)
    del _LOG[:]
    _BUDGET[0] = K_CHECK
    try:
        base, capped = call_reactor(R, mols)
    except Exception as e:
        fire('raises', f'reactor raised {type(e).__name__}: {e}', error=repr(e))
        _BUDGET[0] = 0
        return 0
    _BUDGET[0] = 0
    out[0] += 1
    if not base:
        return 0
    bset = Counter(prodkey(x) for x in base)
    if any(v > 1 for v in bset.values()):
        fire('reactor-duplicates', f'the same product set is yielded more than once: {[k for k, v in bset.items() if v > 1][:2]}')
    for x in base:
        c = Counter(n for p in x.products for n in p)
        if any(v > 1 for v in c.values()):
            fire('reactor-numbers', f'products of one reaction share atom numbers {[n for n, v in c.items() if v > 1][:6]}: {x}', reaction=str(x))
        if valid and any(p.check_valence() for p in x.products):
            fire('valence', f'valence-valid reactants, invalid product in {x}', reaction=str(x))
        out[0] += 2
    if capped:
        _STAT['reactor-capped'] += 1
        out[1].append(f'{name}|{_CTX["input"]}')
        return len(base)
    variants = []
    if len(mols) > 1:
        variants.append(('order', [domains.parse(t) for t in reversed(texts)]))
    ren = []
    for i, t in enumerate(texts):
        c, _ = domains.renumber(domains.parse(t), r, offset=r.choice((0, 3, 50)))
        ren.append(c)
    variants.append(('numbering', ren))
    dis = []
    for i, t in enumerate(texts):  # pairwise disjoint numbers: fix_mapping_overlap has nothing to do
        c = domains.parse(t)
        c.remap({n: n + 1000 * (i + 1) for n in list(c)})
        dis.append(c)
    variants.append(('disjoint-numbers', dis))
    for vn, ms in variants:
        try:
            got, cp = call_reactor(R, ms)
        except Exception as e:
            fire('raises', f'reactor raised {type(e).__name__}: {e} on variant {vn}', error=repr(e))
            continue
        out[0] += 1
        _STAT['reactor-capped'] += cp
        if not cp:
            ok, oa, ob = same_sets(base, got)
            if not ok:
                fire('reactor-' + vn, f'product set changes with reactant {vn}: only in variant {oa[:2]}, only in base {ob[:2]}', variant=oa[:6], base=ob[:6])
    # spectator
    sp = domains.parse(SPECTATOR)
    if not any(p <= sp for p in R._patterns):
        try:
            got, cp = call_reactor(R, mols + [sp])
        except Exception as e:
            fire('raises', f'reactor raised {type(e).__name__}: {e} with a spectator molecule', error=repr(e))
            got, cp = [], True
        out[0] += 1
        if not cp:
            exp = {tuple(sorted(k + (str(sp),))) for k in bset}
            g = {prodkey(x) for x in got}
            if g != exp:
                fire('reactor-spectator', f'with spectator {sp}: product sets {sorted(g)[:2]} expected {sorted(exp)[:2]}')
            for x in got:
                c = Counter(n for p in x.products for n in p)
                if any(v > 1 for v in c.values()):
                    fire('reactor-numbers', f'products + spectator share atom numbers {[n for n, v in c.items() if v > 1][:6]}', reaction=str(x))
    # one-shot vs exhaustive
    R2 = reactor_of({**job, 'flip': True})
    try:
        other, cp = call_reactor(R2, mols)
    except Exception as e:
        fire('raises', f'reactor (other mode) raised {type(e).__name__}: {e}', error=repr(e))
        other, cp = [], True
    out[0] += 1
    _STAT['reactor-capped'] += cp
    if not cp:
        one, exh = (set(bset), {prodkey(x) for x in other}) if R._one_shot else ({prodkey(x) for x in other}, set(bset))
        if not one <= exh:
            fire('reactor-modes', f'one-shot products missing from exhaustive mode: {sorted(one - exh)[:2]}')
    out[1].append(f'{name}|{_CTX["input"]}')
    out[1].append(f'branch:{job.get("branch", "built-in reaction")}|{_CTX["input"]}')
    return len(base)


def overlap_contract(texts, out):
    from chython.reactor.reactor import fix_mapping_overlap
    _CTX.update(template='fix_mapping_overlap', input=' + '.join(texts), job={'kind': 'overlap', 'inputs': list(texts)}, variant='')
    ms = [domains.parse(t) for t in texts]
    out[0] += 1
    try:
        res = fix_mapping_overlap(ms)
    except Exception as e:  # total on any list of molecules
        fire('overlap', f'fix_mapping_overlap raised {type(e).__name__}: {e}', error=repr(e))
        return
    c = Counter(n for m in res for n in m)
    if any(v > 1 for v in c.values()):
        fire('overlap', f'numbers still collide: {[n for n, v in c.items() if v > 1][:6]}')
    def same(a, b):
        if len(a) != len(b):
            return False
        if str(a) == str(b):
            return True
        from oracles.o01_gaps import gaps  # canonical strings of renumbered copies: C01 with its two documented gaps
        if any(gaps(a)) and format(a, '!s') == format(b, '!s'):
            _STAT['c01-gap-hits'] += 1
            return True
        return False
    if len(res) != len(ms) or not all(same(a, b) for a, b in zip(ms, res)) or res[0] is not ms[0]:
        fire('overlap', 'results are not the input molecules (first one untouched)')
    if any(set(a) != set(domains.parse(t)) for a, t in zip(ms, texts)):
        fire('overlap', 'an input molecule was renumbered in place')


# ------------------------------------------------------------------------------------------------------------ work items
_MOLS = []
_RPAT = []      # distinct reactant patterns of built-in + synthetic reactors: (smarts text, query)
_PAIRS = []
_GRAPHS = []


def _collect(out):
    v = list(_VIOL)
    del _VIOL[:]
    st = dict(_STAT)
    _STAT.clear()
    return out[0], out[1], out[2], v, st


def _mol_item(i):
    from chython.reactor import deprotection
    text, full = _MOLS[i]
    out = [0, [], []]
    try:
        m = domains.parse(text)
    except Exception:
        return _collect(out) + ([],)
    if full:
        for spec in T_SYN:
            for af in (True, False):
                n = run_transformer({'kind': 'syn', 'name': spec['name'], 'af': af}, m, text, out)
                if n and af and i % 29 == 0 and len(out[2]) < 2:
                    out[2].append({'template': spec['name'], 'pattern': spec['p'], 'replacement': spec['r'], 'input': text, 'products': n})
    hit_groups = []
    for g in deprotection._groups:
        for j in range(len(getattr(deprotection, '_' + g))):
            if run_transformer({'kind': 'deprot', 'group': g, 'rule': j}, m, text, out):
                hit_groups.append(g)
    for g in dict.fromkeys(hit_groups):  # exposed functions: fixpoint
        _CTX.update(template=f'deprotection.{g}', input=text, job={'kind': 'deprot-fn', 'group': g, 'input': text}, variant='')
        _BUDGET[0] = K_CHECK
        try:
            res = getattr(deprotection, g)(m)
        except Exception as e:
            fire('raises', f'deprotection.{g} raised {type(e).__name__}: {e}', error=repr(e))
            continue
        finally:
            _BUDGET[0] = 0
        out[0] += 1
        for j in range(len(getattr(deprotection, '_' + g))):
            T, _ = transformer_of({'kind': 'deprot', 'group': g, 'rule': j})
            if T._pattern <= res:
                fire('deprotect-fixpoint', f'rule {j} of {g} still matches the result {res}', result=str(res))
        if m.check_valence() == [] and res.check_valence():
            fire('valence', f'deprotection.{g}: invalid valence in {res}', result=str(res))
        out[1].append(f'deprotection.{g}|{text}')
    cls = [k for k, (s, q) in enumerate(_RPAT) if len(m) <= 40 and q <= m] if full else []
    return _collect(out) + (cls,)


def _pair_item(i):
    import time
    t0 = time.time()
    job, texts = _PAIRS[i]
    out = [0, [], []]
    n = run_reactor(job, texts, out)
    if job['kind'] == 'rbuiltin' and n:
        from chython.reactor import reactions
        _CTX.update(template=f'reactions.{job["name"]}', input=' + '.join(texts), job={**job, 'inputs': list(texts), 'prepared': True}, variant='')
        _BUDGET[0] = K_CHECK
        try:
            ms = [domains.parse(t) for t in texts]
            t1 = time.time()
            for x in itertools.islice(getattr(reactions, job['name'])(*ms), CAP_R):
                if time.time() - t1 > T_REACTOR[0]:
                    break
                c = Counter(k for p in x.products for k in p)
                if any(v > 1 for v in c.values()):
                    fire('reactor-numbers', f'prepared reactor: products share atom numbers: {x}', reaction=str(x))
                out[0] += 1
        except Exception as e:
            fire('raises', f'prepared reactor raised {type(e).__name__}: {e}', error=repr(e))
        _BUDGET[0] = 0
    if n and i % 17 == 0:
        out[2].append({'reactor': job['name'], 'reactants': texts, 'reactions': n})
    overlap_contract(texts, out)
    _STAT['seconds'] = round(time.time() - t0, 2)
    return _collect(out)


# --------------------------------------------------------------------------------------------------- _get_deleted, exhaustive
def get_deleted_case(adj, lab):
    """lab: {node: 0 unmatched | 1 deleted | 2 remaining matched}; returns (library set, oracle set)"""
    from chython.reactor.base import BaseReactor
    rx = object.__new__(BaseReactor)
    rx._to_delete = {1000 + v for v, x in lab.items() if x == 1}
    mapping = {1000 + v: v for v, x in lab.items() if x}
    got = BaseReactor._get_deleted(rx, types.SimpleNamespace(_bonds=adj), mapping)
    exp = removed_atoms(adj, {v for v, x in lab.items() if x == 1}, {v for v, x in lab.items() if x == 2})
    return set(got), exp


def adjacency_variants(g):
    nodes = sorted(g.nodes)
    nat = {v + 1: [k + 1 for k in sorted(g[v])] for v in nodes}
    yield 'sorted', {v: {k: 1 for k in ks} for v, ks in nat.items()}
    yield 'reversed', {v: {k: 1 for k in reversed(ks)} for v, ks in reversed(list(nat.items()))}
    yield 'rotated', {v: {k: 1 for k in ks[len(ks) // 2:] + ks[:len(ks) // 2]} for v, ks in nat.items()}


def _gd_item(i):
    g, tag = _GRAPHS[i]
    cases, viol, nbad = 0, [], 0
    nodes = sorted(v + 1 for v in g.nodes)
    variants = list(adjacency_variants(g))
    for labs in itertools.product((0, 1, 2), repeat=len(nodes)):
        if 1 not in labs:
            continue
        lab = dict(zip(nodes, labs))
        for vn, adj in variants:
            try:
                got, exp = get_deleted_case(adj, lab)
            except Exception as e:
                got, exp = {'raised': repr(e)}, None
            cases += 1
            if got != exp:
                nbad += 1
                if not viol:
                    viol.append({'key': f'get_deleted:{tag}:N-MISMATCHES:edges={sorted(tuple(sorted((a + 1, b + 1))) for a, b in g.edges)}:labels={list(labs)}:adjacency={vn}',
                                 'what': f'_get_deleted on graph {tag} edges {sorted((a + 1, b + 1) for a, b in g.edges)}, deleted '
                                         f'{[v for v in nodes if lab[v] == 1]}, remaining matched {[v for v in nodes if lab[v] == 2]}, adjacency order '
                                         f'{vn}: library removes {sorted(got)}, the fragments without a path to a remaining matched atom give {sorted(exp or [])}',
                                 'witness': {'job': {'kind': 'get_deleted', 'adjacency': [[a, list(b)] for a, b in adj.items()], 'labels': lab}, 'clause': 'get_deleted'},
                                 'native': {'library': sorted(got), 'oracle': sorted(exp or [])}})
    for v in viol:  # the key carries the number of failing (labelling, order) cases of this graph: any change shows up as a new key
        v['key'] = v['key'].replace('N-MISMATCHES', f'failing={nbad}/{cases}')
    return cases, [f'gd:{tag}'] if g.number_of_edges() else [], [], viol, {'get_deleted-mismatches': nbad, 'get_deleted-graphs-with-mismatch': len(viol)}


# ---------------------------------------------------------------------------------------------------------------- driver
def bounded(run):
    env.setup()
    install()
    from chython import smarts
    from chython.reactor import reactions, deprotection
    import networkx as nx
    from networkx.generators.atlas import graph_atlas_g
    thorough = run.tier == 'thorough'
    T_REACTOR[0] = 12. if thorough else 4.
    run.assume('oracles/o16_deleted.py: removed atoms = named unmasked matched atoms + components (after their removal) that touched them and '
               'contain no remaining matched atom (plain flood fill)',
               'stereo configurations are compared with the library\'s own sign translation (_translate_tetrahedron_sign / '
               '_translate_cis_trans_sign, C12) on a fixed neighbour order; canonical strings (C01) are the product-set keys of the Reactor contracts',
               'C07 (the matcher) supplies the matches; one product per mapping is checked against pattern.get_mapping(_cython=False)',
               'contract reading 1: a stereo label on an atom NOT named by the template that loses a removed neighbour is not judged (the property '
               'text says atoms not named keep their stereo; the code flushes labels only on named reaction centres) - counted as '
               'unnamed-centre-lost-a-neighbour',
               'contract reading 2: Reactor product sets are compared as sets of canonical strings; when they differ only for products inside the two '
               'documented gaps of C01 (oracles/o01_gaps.py, predicates fixed in DESIGN section 2 C01: stereo labels on centres with constitutionally '
               'equivalent substituents, symmetric cages) the stereo-free strings are compared instead and the case is counted as c01-gap-hits',
               'ring fixing on products (kekule + thiele, documented Reactor/Transformer option, default on) may re-label bond orders within {1,2,4} '
               'and move H inside ring blocks that contain a patched atom or a neighbour of a removed atom; everything is exact on the '
               'twin product made with _fix_rings=False from the same match')
    import time
    t0 = time.time()
    sec = run.notes.setdefault('seconds', {})
    slow = run.notes.setdefault('slowest work items', [])
    stats = Counter()
    total = {'n': 0}
    per_clause = Counter()

    def absorb(res):
        for cases, keys, samples, viol, st, *rest in res:
            run.case(cases)
            for k in keys:
                run.case(0, key=k)
            for s in samples:
                run.case(0, sample=s)
            stats.update(st)
            for v in sorted(viol, key=lambda x: x['key']):
                cl = v['key'].split(':', 1)[0]
                per_clause[cl] += 1
                if per_clause[cl] <= 12:
                    run.violation(v['key'], v['what'], witness=v['witness'], native=v['native'])
                total['n'] += 1

    # ---- _get_deleted, exhaustive
    gmax = 7 if thorough else 6
    _GRAPHS[:] = [(g, g.name or f'G{i}') for i, g in enumerate(graph_atlas_g())
                  if 1 <= g.number_of_nodes() <= gmax and (g.number_of_nodes() <= 6 or nx.is_connected(g))]
    run.bound(f'_get_deleted: every atlas graph with <= 6 nodes (connected or not){" and every connected graph with 7 nodes" if thorough else ""} '
              f'({len(_GRAPHS)} graphs) x every labelling of the nodes by unmatched / deleted / remaining with >= 1 deleted x 3 adjacency '
              f'insertion orders (sorted, reversed, rotated), exhaustive; first mismatch per graph is reported')
    absorb(pmap(_gd_item, range(len(_GRAPHS)), chunksize=4))
    sec['get_deleted'] = round(time.time() - t0, 1)

    # ---- corpus x templates
    n_full = 1500 if thorough else 150
    n_screen = None if thorough else 900
    full = domains.corpus_sample(n_full, 'b16corpus')
    fullset = set(full)
    tests = []
    for g in deprotection._groups:
        for r, p, *ts in getattr(deprotection, '_' + g):
            tests.extend(ts)
    screen = [s for s in domains.corpus_sample(n_screen, 'b16screen') if s not in fullset]
    _MOLS[:] = [(s, True) for s in FIXED] + [(s, True) for s in full] + [(s, False) for s in dict.fromkeys(tests)] + [(s, False) for s in screen]
    seen = {}
    for name in reactions.__all__[2:]:
        for R in getattr(reactions, name).rxn_os:
            for q in R._patterns:
                seen.setdefault(str(q), q)
    for spec in R_SYN:
        for s in spec['ps']:
            seen.setdefault(s, smarts(s))
    _RPAT[:] = list(seen.items())
    nrules = sum(len(getattr(deprotection, '_' + g)) for g in deprotection._groups)
    for txt in (f'Transformer domain: {len(FIXED)} fixed molecules + {len(full)} corpus molecules (seeded) x {len(T_SYN)} synthetic templates '
                f'(one per patcher branch) x automorphism filter on/off; all {nrules} deprotection rules ({len(deprotection._groups)} groups) x '
                f'(those molecules + the {len(set(tests))} test/decoy molecules shipped with the rules + {len(screen)} further corpus molecules); '
                f'exposed deprotection functions on every molecule a rule matched',
                f'full post-condition (real product + twin without ring fixing) on the first {K_CHECK} products of each template application; '
                f'count contract on all of them'):
        run.bound(txt)
    res = pmap(_mol_item, range(len(_MOLS)), chunksize=2)
    absorb(res)
    sec['transformers'] = round(time.time() - t0, 1)

    # ---- reactors: reactant pools from the classification of the full molecules
    pools = {}
    for (text, fl), r in zip(_MOLS, res):
        for k in r[5]:
            pools.setdefault(_RPAT[k][0], []).append(text)
    r = domains.rnd('b16pairs')
    kpairs = 24 if thorough else 5
    _PAIRS.clear()

    def tuples_for(patterns, k):
        ps = [pools.get(str(q) if not isinstance(q, str) else q, []) for q in patterns]
        if any(not p for p in ps):
            return []
        outp = set()
        for _ in range(k * 4):
            t = tuple(r.choice(p) for p in ps)
            outp.add(t)
            if len(outp) >= k:
                break
        return sorted(outp)
    for spec in R_SYN:
        for t in tuples_for(spec['ps'], kpairs * 3):
            _PAIRS.append(({'kind': 'rsyn', 'name': spec['name'], 'branch': spec['branch']}, list(t)))
    nb = 0
    for name in reactions.__all__[2:]:
        for idx, R in enumerate(getattr(reactions, name).rxn_os):
            for t in tuples_for(R._patterns, kpairs):
                _PAIRS.append(({'kind': 'rbuiltin', 'name': name, 'idx': idx}, list(t)))
                nb += 1
    run.bound(f'Reactor domain: {len(R_SYN)} synthetic reactors (two reactants with colliding numbers, two products, exhaustive mode) and the '
              f'{sum(len(getattr(reactions, n).rxn_os) for n in reactions.__all__[2:])} reactors of the {len(reactions.__all__) - 2} prepared reaction '
              f'collections x reactant tuples drawn (seeded, <= {kpairs} per reactor, {kpairs * 3} per synthetic) from the molecules (<= 40 atoms) of the '
              f'sample that match each reactant pattern: {len(_PAIRS)} tuples ({nb} built-in); each in base / reversed order / renumbered / '
              f'disjoint numbers / with spectator / other mode; at most {CAP_R} reactions / {T_REACTOR[0]} s consumed per call (truncated calls take part in no set comparison; counted as reactor-capped)')
    pres = pmap(_pair_item, range(len(_PAIRS)), chunksize=1)
    absorb(pres)
    sec['reactors'] = round(time.time() - t0, 1)
    for (job, texts), r_ in sorted(zip(_PAIRS, pres), key=lambda x: -x[1][4].get('seconds', 0))[:3]:
        slow.append({'reactor': job['name'], 'reactants': texts, 'seconds': r_[4].get('seconds')})
    run.notes['post-condition statistics'] = dict(stats)
    run.notes['violations_total_before_cap'] = total['n']
    run.notes['reactor pools'] = {k: len(v) for k, v in pools.items()}


# ---------------------------------------------------------------------------------------------------------------- replay
def replay(rec):
    install()
    job = rec['witness']['job']
    del _VIOL[:]
    out = [0, [], []]
    if job['kind'] == 'get_deleted':
        adj = {int(a): {int(k): 1 for k in ks} for a, ks in job['adjacency']}
        got, exp = get_deleted_case(adj, {int(k): v for k, v in job['labels'].items()})
        return got == exp
    if job['kind'] in ('syn', 'deprot'):
        run_transformer(job, domains.parse(job['input']), job['input'], out)
    elif job['kind'] == 'deprot-fn':
        _MOLS[:] = [(job['input'], False)]
        return not _mol_item(0)[3]
    elif job['kind'] == 'overlap':
        overlap_contract(job['inputs'], out)
    else:
        _PAIRS[:] = [({k: v for k, v in job.items() if k not in ('inputs', 'prepared')}, job['inputs'])]
        r = _pair_item(0)
        return not r[3]
    bad = list(_VIOL)
    del _VIOL[:]
    return not bad
