"""C06 bounded stand-in (engine B): ring perception returns a minimum cycle basis that ring marks agree with.

Contracts are attached to the real `MoleculeContainer.sssr / rings_count / not_special_connectivity / connected_components /
atoms_rings / atoms_rings_sizes / aromatic_rings / calc_labels` and compared with oracles that never call chython's ring code
(GF(2) rank, networkx minimum cycle basis, bridges, components).  Never counted as proof.

Which graph: `rings_count`, `sssr` and all ring marks are defined on the bond graph WITHOUT coordinate bonds (order 8);
`connected_components` is defined by the code on the graph WITH every bond, coordinate bonds included (rings.py:
`_connected_components(self._bonds)`), and is checked against that graph; so are `skin_graph` (2-core) and `rings_graph`.

Coverage audit (2026-10-02): besides molecules built with the private `_skip_calculation` flags and read once, the domain now holds
molecules built through the incremental PUBLIC API and edited afterwards (bounded/d06_extra.py): every observable is read before AND
after add / delete of atoms and bonds (coordinate bonds included), inside transactions (marks are deferred there, everything else is
judged), after commit and after rollback, after remap / copy(keep_*) / union / substructure / split / flush_cache(keep_*), after the
standardize-family calls that choose themselves which ring caches survive, and after pack() / unpack(); atom numbers with gaps, offsets
beyond 999 / 4095 and up to 10^6; the empty molecule.  Marks kept across `remap` / `union` (the library does not recalculate them) are
judged against the ring set reported afterwards: where that set legitimately depends on the numbering (more relevant cycles than basis
members - oracles/o06_unique.py - or a recorded gap) the failure carries the family key `<contract>@<op>:numbering-dependent-sssr`.
"""
import hashlib
from collections import Counter

from vlib import env
from vlib.report import pmap

RULE = ('bounded: every contract of C06 evaluated natively on each labelled molecule of the stated domain; non-trivial = the '
        'unlabelled graph (with its bond-order variant) has at least one ring')

# Inside a recorded gap ONLY these are excused (coordinator's decision): minimum total size, GF(2) independence, stability of the
# size multiset under renumbering.  The two bridge-oracle mark contracts are theorems about a *basis*, so they are excused only for
# a molecule whose reported set is itself dependent.  Everything else (count, simple cycles, marks vs the reported sssr, per-atom
# views, aromatic rings, rings_count, components, no exception) stays enforced inside the gaps.
EXCUSED = ('sssr-independent', 'sssr-minimal', 'sssr-size-multiset', 'sssr-sizes-numbering')
BASIS_THEOREMS = ('atom-in_ring-oracle', 'bond-in_ring-oracle')
_RAISED = object()   # marker: reading the observable raised
MAX_REPORT = 25      # new violations listed per contract
ITEM_BUDGET_S = 60   # watchdog per work item (a normal item takes < 2 s); after a first timeout in a worker: 5 s, after five: skip
_TIMEOUTS = [0]      # per worker process

# the 18-atom witness found by the seeded assemblies on the unchanged tree (seed independent, run every time): cyclopentane fused on
# an 8-ring, a 4-ring spiro/fused at atom 9 and a 3-atom bridge; contains the theta core 3/5/5, so it is inside gap A
FIXED_GAP_A = ([117, 114, 110, 108, 115, 111, 105, 102, 103, 116, 104, 109, 112, 106, 118, 101, 113, 107],
               [(115, 102, 1), (102, 104, 1), (112, 114, 1), (113, 117, 1), (103, 115, 1), (118, 113, 1), (105, 108, 1), (118, 109, 1),
                (106, 107, 1), (103, 104, 1), (105, 116, 1), (114, 107, 1), (117, 101, 1), (118, 106, 1), (102, 110, 1), (112, 111, 1),
                (110, 108, 1), (116, 109, 1), (102, 112, 1), (108, 118, 1), (101, 115, 1)])


# ring systems on which a standardization rule changes a ring bond to / from order 8, or a salt / metal / hydrogen function edits atoms
STD_RING_INPUTS = (
    'CB1CCCC[N+]1(C)C', 'CB1CCCCN1=C', '[H]1B(C)(C)[H]B1(C)C', 'CB1CCCC[S+]1C', 'CB1CCCCO1C', 'C1CCB2(CC1)N(C)(C)CCO2',
    '[Fe]=C1N(C)C=CN1C', 'N#C[Fe]C1CC1', 'N#CO[Cu]C1CCC1', 'C1CC[N+]2(CC1)[B-](F)(F)OC2', 'c1ccc2c(c1)O[Na]2', 'C1CCC(CC1)C(=O)O[Na]',
    'C1CC1C(=O)O[K].[Na+].[Cl-]', 'O=C1O[Mg]OC(=O)C1', 'C1CC1[Li]', '[H]C1([H])CC1([H])C', 'c1ccccc1.Cl', 'C1CCNCC1.OC(=O)C(F)(F)F',
    'C1=CC=CC=C1.[Na+].N', 'O=[N+]([O-])c1ccc2ccccc2c1', 'C1CC2CCC1N2[Cu]', 'C1CC2CCC1[N+]2(C)[B-](C)(C)C', '[O-][n+]1ccccc1C1CC1',
)


def _split(fails, gap):
    """(enforced failures, excused failures) of one molecule under the gap rule above"""
    if not gap:
        return fails, []
    names = {f[0] for f in fails}
    exc = [f for f in fails if f[0] in EXCUSED or (f[0] in BASIS_THEOREMS and 'sssr-independent' in names)]
    return [f for f in fails if f not in exc], exc


# ---------------------------------------------------------------------------------------------------------------------------------
# building labelled molecules
def _mol(atoms, bonds):
    """atoms: numbers in insertion order; bonds: (a, b, order) in insertion order.  Marks are NOT calculated here."""
    from chython.containers import MoleculeContainer
    m = MoleculeContainer()
    for n in atoms:
        m.add_atom('C', n, _skip_calculation=True)
    for a, b, o in bonds:
        m.add_bond(a, b, o, _skip_calculation=True)
    return m


def _labelled(nodes, edges, r, identity=False):
    """seeded renumbering + shuffled insertion order of a source graph given as node list and (a, b, order) list"""
    nodes = list(nodes)
    if identity:
        perm = {v: i + 1 for i, v in enumerate(nodes)}
        return [perm[v] for v in nodes], [(perm[a], perm[b], o) for a, b, o in edges], perm
    step = r.choice((1, 1, 1, 2, 5))      # gaps between the numbers
    tgt = list(range(1, step * len(nodes) + 1, step))
    off = r.choice((0, 0, 7, 100, 995, 4090, 10 ** 6))
    r.shuffle(tgt)
    perm = {v: t + off for v, t in zip(nodes, tgt)}
    ns = nodes[:]
    es = list(edges)
    r.shuffle(ns)
    r.shuffle(es)
    return [perm[v] for v in ns], [((perm[a], perm[b], o) if r.random() < .5 else (perm[b], perm[a], o)) for a, b, o in es], perm


def _estr(edges):
    return ','.join(f'{min(a, b)}-{max(a, b)}' + ('' if o == 1 else f'~{o}') for a, b, o in sorted((min(a, b), max(a, b), o) for a, b, o in edges))


# ---------------------------------------------------------------------------------------------------------------------------------
# the contracts
def evaluate(m, exp_sizes=None, recalc=True, marks=True):
    """evaluate every C06 contract on molecule m.  Returns (failures, sizes) with failures = [(contract, what, native)];
    sizes = sorted ring sizes reported by the library (None if sssr raised).  recalc: call calc_labels() before the marks are read
    (else: marks as found); marks=False: the marks are not judged (inside a transaction the library defers them)."""
    import networkx as nx
    from oracles.cycles import gf2_rank, ring_vector
    from oracles import o06_gaps as O
    g0, gall, orders = O.graphs(m)
    fails = []
    mu = O.cyclomatic(g0)

    def read(name):
        """value of a public observable; an exception raised by the library where the property says 'returns' is a failed contract"""
        try:
            return getattr(m, name)
        except Exception as e:
            fails.append((f'{name}-raises' if name != 'sssr' else 'sssr-raises', f'{name} raised {type(e).__name__}: {e}', repr(e)))
            return _RAISED

    nsc = read('not_special_connectivity')
    if nsc is _RAISED:
        pass
    elif set(nsc) != set(g0) or any(set(nsc[n]) != set(g0[n]) for n in g0):
        fails.append(('not_special_connectivity', 'adjacency without coordinate bonds differs from the bond table',
                      {n: sorted(v) for n, v in nsc.items()}))
    rc = read('rings_count')
    if rc is not _RAISED and rc != mu:
        fails.append(('rings_count', f'rings_count {rc} != bonds - atoms + components = {mu} (coordinate bonds ignored)', rc))
    cc = read('connected_components')
    want = {frozenset(c) for c in nx.connected_components(gall)}
    if cc is not _RAISED and (Counter(frozenset(c) for c in cc) != Counter(want) or m.connected_components_count != len(want)):
        fails.append(('connected_components', 'components differ from the components of the full bond graph', [sorted(c) for c in cc]))
    # pruning of acyclic parts, public views (both defined by the code on the graph WITH coordinate bonds: `_skin_graph(self._bonds)`)
    sk = read('skin_graph')
    core = nx.k_core(gall, 2) if gall.number_of_nodes() else gall
    if sk is _RAISED:
        pass
    elif set(sk) != set(core) or any(set(sk[n]) != set(core[n]) for n in core):
        fails.append(('skin_graph', 'skin_graph is not the bond graph with terminal atoms pruned repeatedly (2-core of the full bond graph)',
                      {n: sorted(v) for n, v in sk.items()}))
    rg = read('rings_graph')
    if rg is not _RAISED:
        rb_all, ra_all = O.ring_bonds(gall)
        rge = {frozenset((a, b)) for a, bs in rg.items() for b in bs}
        if set(rg) != ra_all or not rb_all <= rge or any(len(e) != 2 or not gall.has_edge(*e) for e in rge):
            fails.append(('rings_graph', 'rings_graph: atoms are not exactly the atoms on a cycle of the full bond graph, or a cycle bond is '
                          'missing, or a listed bond does not exist', {n: sorted(v) for n, v in rg.items()}))

    rings = read('sssr')
    if rings is _RAISED:
        return fails, None
    rings = [tuple(r) for r in rings]
    sizes = sorted(len(r) for r in rings)
    nat = {'sssr': rings}
    if len(rings) != mu:
        fails.append(('sssr-count', f'{len(rings)} rings reported, bonds - atoms + components = {mu}', nat))
    eidx = {frozenset(e): i for i, e in enumerate(g0.edges)}
    vecs = [ring_vector(r, eidx) for r in rings]
    if any(v is None for v in vecs):
        fails.append(('sssr-simple-cycle', 'a reported ring is not a simple cycle of existing non-coordinate bonds',
                      {'bad': [r for r, v in zip(rings, vecs) if v is None], **nat}))
    else:
        if gf2_rank(vecs) != len(vecs):
            fails.append(('sssr-independent', f'ring incidence vectors have GF(2) rank {gf2_rank(vecs)} < {len(vecs)}', nat))
        if exp_sizes is None:
            exp_sizes = O.mcb_sizes(g0)
        if sum(sizes) != sum(exp_sizes):
            fails.append(('sssr-minimal', f'total ring size {sum(sizes)} != minimum cycle basis total {sum(exp_sizes)}',
                          {'sizes': sizes, 'oracle_sizes': exp_sizes, **nat}))
        elif sizes != list(exp_sizes):
            fails.append(('sssr-size-multiset', f'ring sizes {sizes} != minimum cycle basis sizes {list(exp_sizes)}', nat))

    # per-atom views ---------------------------------------------------------------------------------------------------------------
    through = {}
    for i, r in enumerate(rings):
        for n in r:
            through.setdefault(n, []).append(i)
    ar = read('atoms_rings')
    if ar is _RAISED:
        pass
    elif set(ar) != set(through) or any(Counter(map(tuple, ar[n])) != Counter(rings[i] for i in through[n]) for n in through):
        fails.append(('atoms_rings', 'atoms_rings is not the list of sssr rings through each ring atom', {k: list(v) for k, v in ar.items()}))
    ars = read('atoms_rings_sizes')
    if ars is _RAISED:
        pass
    elif set(ars) != set(through) or any(set(ars[n]) != {len(rings[i]) for i in through[n]} for n in through):
        fails.append(('atoms_rings_sizes', 'atoms_rings_sizes is not the set of sizes of sssr rings through each ring atom',
                      {k: sorted(v) for k, v in ars.items()}))

    # aromatic rings ---------------------------------------------------------------------------------------------------------------
    def all_arom(r):
        return all(orders.get(frozenset(e)) == 4 for e in zip(r, r[1:] + r[:1]))
    aro = read('aromatic_rings')
    aro = aro if aro is _RAISED else [tuple(r) for r in aro]
    if aro is _RAISED:
        pass
    elif any(r not in rings for r in aro) or any(not all_arom(r) for r in aro if r in rings) or \
            Counter(aro) != Counter(r for r in rings if ring_vector(r, eidx) is not None and all_arom(r)):
        fails.append(('aromatic_rings', 'aromatic_rings is not the sub-list of sssr rings whose bonds are all aromatic', aro))

    # marks ------------------------------------------------------------------------------------------------------------------------
    if not marks:
        return fails, sizes
    if recalc:
        try:
            m.calc_labels()
        except Exception as e:
            fails.append(('calc_labels-raises', f'calc_labels raised {type(e).__name__}: {e}', repr(e)))
            return fails, sizes
    # marks that were never set (the attribute is only created by calc_labels): a mark that cannot be read does not agree with anything
    unset_a = [n for n, a in m.atoms() if not hasattr(a, 'in_ring') or not hasattr(a, 'ring_sizes')]      # public properties: AttributeError
    unset_b = [(a, b, int(bd)) for a, b, bd in m.bonds() if not hasattr(bd, 'in_ring')]                     # of the unset slot -> False
    if unset_a or unset_b:
        fails.append(('marks-unset', 'in_ring / ring_sizes were never calculated for some atoms / bonds of a molecule returned by a public call',
                      {'atoms': unset_a[:10], 'bonds': unset_b[:10]}))
        return fails, sizes
    rb, ra = O.ring_bonds(g0)
    bad_a = []
    for n, a in m.atoms():
        t = through.get(n, ())
        if bool(a.in_ring) != bool(t) or set(a.ring_sizes) != {len(rings[i]) for i in t}:
            bad_a.append((n, a.in_ring, sorted(a.ring_sizes)))
    if bad_a:
        fails.append(('atom-marks', 'atom.in_ring / atom.ring_sizes disagree with the reported sssr', bad_a[:10]))
    bad_o = [(n, a.in_ring) for n, a in m.atoms() if bool(a.in_ring) != (n in ra)]
    if bad_o:
        fails.append(('atom-in_ring-oracle', 'atom.in_ring differs from "the atom lies on a cycle of non-coordinate bonds" (bridge oracle)', bad_o[:10]))
    on_ring = {frozenset(e) for r in rings for e in zip(r, r[1:] + r[:1])}
    bad_def, bad_imp, bad_orc = [], [], []
    for a, b, bd in m.bonds():
        k = frozenset((a, b))
        shared = bool(set(through.get(a, ())) & set(through.get(b, ())))
        v = bool(bd.in_ring)
        if v != shared:
            bad_def.append((a, b, int(bd), bd.in_ring))
        if k in on_ring and not v:
            bad_imp.append((a, b, int(bd), bd.in_ring))
        if int(bd) != 8 and v != (k in rb):
            bad_orc.append((a, b, int(bd), bd.in_ring))
    if bad_def:
        fails.append(('bond-in_ring-definition', 'bond.in_ring differs from "both ends lie on a common sssr ring"', bad_def[:10]))
    if bad_imp:
        fails.append(('bond-in_ring-sssr', 'a bond of an sssr ring is not marked in_ring', bad_imp[:10]))
    if bad_orc:
        fails.append(('bond-in_ring-oracle', 'in_ring of a non-coordinate bond differs from "the bond is not a bridge"', bad_orc[:10]))
    return fails, sizes


# ---------------------------------------------------------------------------------------------------------------------------------
# variants of a source graph
def _variants(name, nodes, edges, r, n_coord, aromatic):
    """yield (variant name, [(a, b, order)]) : plain single bonds, seeded coordinate-bond variants, an aromatic-ring variant"""
    import networkx as nx
    plain = [(a, b, 1) for a, b in edges]
    yield 'plain', plain
    if not edges:
        return
    g = nx.Graph()
    g.add_nodes_from(nodes)
    g.add_edges_from(edges)
    ring_edges = sorted(tuple(sorted(e)) for e in set(map(frozenset, g.edges)) - set(map(frozenset, nx.bridges(g))))
    seen = set()
    for k in range(n_coord):
        if k == 0 and ring_edges:       # first variant: coordinate bond(s) inside rings
            pick = set(r.sample(ring_edges, r.randint(1, min(2, len(ring_edges)))))
        else:
            pick = {tuple(sorted(e)) for e in edges if r.random() < .25} or {tuple(sorted(r.choice(edges)))}
        key = tuple(sorted(pick))
        if key in seen:
            continue
        seen.add(key)
        yield f'coord#{k}', [(a, b, 8 if tuple(sorted((a, b))) in pick else 1) for a, b in edges]
    if aromatic and ring_edges:
        basis = nx.minimum_cycle_basis(g)
        ring = r.choice(sorted(basis, key=lambda c: (len(c), sorted(c))))
        arom = {tuple(sorted(e)) for e in g.subgraph(ring).edges}   # a minimum-basis ring is chordless: exactly the ring's bonds
        other = [e for e in ring_edges if e not in arom]
        co = {r.choice(other)} if other and r.random() < .5 else set()
        yield 'arom', [(a, b, 4 if tuple(sorted((a, b))) in arom else 8 if tuple(sorted((a, b))) in co else 1) for a, b in edges]
        short = arom - {r.choice(sorted(arom))}      # all bonds of the ring but one aromatic: must NOT be reported as aromatic ring
        yield 'arom-1', [(a, b, 4 if tuple(sorted((a, b))) in short else 1) for a, b in edges]


def _work_graph(item):
    """one source graph: variants x renumberings.  Returns (ncases, nontrivial keys, samples, violations, gap counters)"""
    import networkx as nx
    from bounded import domains as D
    from oracles import o06_gaps as O
    name, nodes, edges, ntrials, n_coord, aromatic, fixed = item
    r = D.rnd(f'b06:{name}')
    ncases, keys, samples, viols = 0, [], [], []
    gaps = Counter()
    if fixed is not None:
        variants = [('asis', [tuple(b) for b in fixed[1]])]
        nodes = list(fixed[0])
    else:
        variants = list(_variants(name, nodes, edges, r, n_coord, aromatic))
    for vname, oedges in variants:
        g0 = nx.Graph()
        g0.add_nodes_from(nodes)
        g0.add_edges_from((a, b) for a, b, o in oedges if o != 8)
        mu = O.cyclomatic(g0)
        exp = O.mcb_sizes(g0)
        gap = O.gap(g0)
        src = _estr(oedges)
        ident = f'{name}:{vname}:{hashlib.sha1(src.encode()).hexdigest()[:8]}'
        gaps['variants'] += 1
        if gap:
            gaps['inputs:' + gap.split('=')[0]] += 1
        seen_sizes = {}
        reported = set()
        for t in range(ntrials):
            if fixed is not None and t == 0:
                atoms, bonds = list(fixed[0]), [tuple(b) for b in fixed[1]]
            else:
                atoms, bonds, perm = _labelled(nodes, oedges, r, identity=(t == 0))
            m = _mol(atoms, bonds)
            fails, sizes = evaluate(m, exp)
            ncases += 1
            if sizes is not None:
                seen_sizes.setdefault(tuple(sizes), t)
            fails, excused = _split(fails, gap)
            for c, what, nat in excused:
                gaps[f'hits:{gap.split("=")[0]}:{c}'] += 1
                gaps['hit-graphs:' + ident + ' ' + what.split(' [')[0]] = 1
            for c, what, nat in fails:
                if c in reported:
                    continue
                reported.add(c)
                viols.append((f'{c}:{ident}', f'{c}: {what} [{name} {vname} trial {t}: {len(atoms)} atoms, bonds {src}]',
                              {'contract': c, 'source': name, 'variant': vname, 'trial': t, 'source_bonds': src,
                               'atoms': atoms, 'bonds': [list(b) for b in bonds]}, nat))
        if len(seen_sizes) > 1:
            if gap:
                gaps[f'hits:{gap.split("=")[0]}:sssr-sizes-numbering'] += 1
                gaps['hit-graphs:' + ident + f' sizes vary with numbering {sorted(seen_sizes)}'] = 1
            elif 'sssr-minimal' not in reported and 'sssr-size-multiset' not in reported:
                viols.append((f'sssr-sizes-numbering:{ident}', f'ring-size multiset depends on atom numbering: {sorted(seen_sizes)} [{name} {vname}: bonds {src}]',
                              {'contract': 'sssr-sizes-numbering', 'source': name, 'variant': vname, 'source_bonds': src,
                               'trials': {str(k): v for k, v in seen_sizes.items()}}, sorted(seen_sizes)))
        if mu:
            keys.append(ident)
            if len(samples) < 2 and vname != 'plain':
                samples.append({'graph': name, 'variant': vname, 'bonds': src, 'rings': mu, 'oracle_ring_sizes': exp,
                                'renumberings': ntrials, 'gap': gap})
    return ncases, keys, samples, viols, dict(gaps)


def _work_smiles(item):
    """a corpus / file molecule: the parsed object as the library delivers it (marks as found), then rebuilt renumbered copies"""
    from bounded import domains as D
    from oracles import o06_gaps as O
    tag, text, ntrials = item
    if tag == 'smiles':
        name = 'smi:' + text
        try:
            m = D.parse(text)
        except Exception as e:
            # building the domain element failed inside the library (parser / kekule / thiele: properties C03-C05, not C06):
            # not a C06 verdict; the input is skipped and counted, bounded() crashes (exit 3) if too many are lost
            return 0, [], [], [], {'skipped:' + name: f'{type(e).__name__}: {e}'}
    else:
        name = f'cycle.sdf#{text}'
        try:
            m = _cycle_sdf()[text]
        except Exception as e:      # reader failure (C11), not a C06 verdict
            return 0, [], [], [], {'skipped:' + name: f'{type(e).__name__}: {e}'}
    r = D.rnd(f'b06:{name}')
    g0, gall, orders = O.graphs(m)
    exp = O.mcb_sizes(g0)
    gap = O.gap(g0)
    gaps = Counter(variants=1)
    if gap:
        gaps['inputs:' + gap.split('=')[0]] += 1
    nodes = list(m._atoms)
    oedges = [(a, b, int(bd)) for a, b, bd in m.bonds()]
    ident = f'{name}'
    viols, reported = [], set()
    ncases = 0
    sizes_seen = {}
    for t in range(ntrials):
        if t == 0:
            mm, wit = m, {'input': text if tag == 'smiles' else name, 'as_parsed': True}
            fails, sizes = evaluate(mm, exp, recalc=False)
        else:
            atoms, bonds, perm = _labelled(nodes, oedges, r)
            mm = _mol(atoms, bonds)
            wit = {'atoms': atoms, 'bonds': [list(b) for b in bonds]}
            fails, sizes = evaluate(mm, exp)
        ncases += 1
        if sizes is not None:
            sizes_seen.setdefault(tuple(sizes), t)
        fails, excused = _split(fails, gap)
        for c, what, nat in excused:
            gaps[f'hits:{gap.split("=")[0]}:{c}'] += 1
            gaps['hit-graphs:' + ident + ' ' + what] = 1
        for c, what, nat in fails:
            if c in reported:
                continue
            reported.add(c)
            viols.append((f'{c}:{ident}', f'{c}: {what} [{name} trial {t}]', {'contract': c, 'source': name, 'trial': t, **wit}, nat))
    # the marks of a molecule that went through pack() / unpack() (unpack recalculates them unless skip_labels_calculation is passed)
    if _unpack_ready() and max(nodes, default=0) <= 4095:
        from chython.containers import MoleculeContainer
        try:
            data = m.pack()
        except ValueError:      # documented format restrictions (isotope shift, hydrogens, neighbours): not a C06 verdict
            data = None
        if data is not None:
            u = MoleculeContainer.unpack(data)
            fails, _ = evaluate(u, exp, recalc=False)
            ncases += 1
            gaps['unpacked'] += 1
            for c, what, nat in _split(fails, gap)[0]:
                viols.append((f'{c}:{ident}@unpack', f'{c}: {what} [{name} after unpack(pack())]',
                              {'contract': c, 'source': name, 'input': text if tag == 'smiles' else name, 'as_parsed': True, 'unpack': True}, nat))
    if len(sizes_seen) > 1 and gap:
        gaps[f'hits:{gap.split("=")[0]}:sssr-sizes-numbering'] += 1
        gaps['hit-graphs:' + ident + f' sizes vary with numbering {sorted(sizes_seen)}'] = 1
    if len(sizes_seen) > 1 and not gap and not reported & {'sssr-minimal', 'sssr-size-multiset'}:
        viols.append((f'sssr-sizes-numbering:{ident}', f'ring-size multiset depends on atom numbering: {sorted(sizes_seen)} [{name}]',
                      {'contract': 'sssr-sizes-numbering', 'source': name}, sorted(sizes_seen)))
    mu = O.cyclomatic(g0)
    keys = [ident] if mu else []
    samples = [{'molecule': name, 'rings': mu, 'oracle_ring_sizes': exp, 'aromatic_rings': len(m.aromatic_rings)}] if mu else []
    return ncases, keys, samples, viols, dict(gaps)


# ---------------------------------------------------------------------------------------------------------------------------------
# coverage audit: molecules built through the incremental public API and edited afterwards (bounded/d06_extra.py)
def _start(spec):
    """start molecule of an edit script: ('graph', atoms, bonds, elements) through the public API, ('smiles', text, normalise)"""
    from bounded import d06_extra as X
    if spec[0] == 'graph':
        return X.mol_public(spec[1], [tuple(b) for b in spec[2]], spec[3])
    from chython import smiles
    from bounded import domains as D
    m = smiles(spec[1])
    return D.norm(m) if spec[2] else m


class _Collector:
    """judge of the sessions of one work item: gap rule, family keys for marks kept across renumbering, one report per key"""

    def __init__(self, ident, spec):
        self.ident, self.spec = ident, spec
        self.viols, self.reported = [], set()
        self.gaps = Counter()
        self.ring_seen = False
        self.evals = 0

    def evaluate(self, m, marks):
        fails, sizes = evaluate(m, None, recalc=False, marks=marks)
        self.evals += 1
        self.gaps['variants'] += 1
        if sizes:
            self.ring_seen = True
        return fails

    def judge(self, s, m, fails, where, stale):
        import json
        from bounded import d06_extra as X
        from oracles import o06_gaps as O
        from oracles import o06_unique as U
        g0 = O.graphs(m)[0]
        gap = O.gap(g0)
        if gap:
            self.gaps['inputs:' + gap.split('=')[0]] += 1
        fails, excused = _split(fails, gap)
        for c, what, nat in excused:
            self.gaps[f'hits:{gap.split("=")[0]}:{c}'] += 1
            self.gaps['hit-graphs:' + self.ident + ' ' + what.split(' [')[0]] = 1
        for c, what, nat in fails:
            key = f'{c}:{self.ident}'
            if stale and c in X.STALE_SENSITIVE and (gap is not None or U.mcb_unique(g0) is False):
                # independent predicate on the input: the marks were calculated before `stale` (remap / union keep them) AND the ring set
                # of this graph legitimately depends on the numbering (more relevant cycles than basis members, or a recorded gap)
                key = f'{c}@{stale}:numbering-dependent-sssr'
            if key in self.reported:
                continue
            self.reported.add(key)
            atoms, bonds = X.table(m)
            self.viols.append((key, f'{c}: {what} [{self.ident} {where}; now {len(atoms)} atoms, bonds {_estr(bonds)}]',
                               {'contract': c, 'start': self.spec, 'ops': json.loads(json.dumps(s.root)), 'where': where,
                                'atoms_now': atoms, 'bonds_now': [list(b) for b in bonds]}, nat))

    def library_raised(self, s, e, where):
        import json
        key = f'sssr-raises:{self.ident}'
        if key not in self.reported:
            self.reported.add(key)
            self.viols.append((key, f'sssr-raises: the ring code raised {type(e).__name__}: {e} [{self.ident} {where}]',
                               {'contract': 'sssr-raises', 'start': self.spec, 'ops': json.loads(json.dumps(s.root)) if s else [], 'where': where},
                               repr(e)))


def _session(col, spec, r=None):
    """(session, None) or (None, reason) when the start molecule cannot be built outside the ring code"""
    from bounded import d06_extra as X
    try:
        m = _start(spec)
    except Exception as e:
        if X.through_ring_code(e):
            col.library_raised(None, e, 'while building the start molecule through the public API')
            return None, 'ring code raised'
        return None, f'{type(e).__name__}: {e}'
    s = X.Session(m, col.evaluate, col.judge, r)
    s.allow_aromatize = spec[0] == 'smiles'
    s.calls = spec[0] == 'smiles' and len(spec) > 3 and bool(spec[3])
    return s, None


def _drive(col, s, fn):
    """run fn(s); Abort -> counted, library exception from the ring code -> violation; returns the abort reason or None"""
    from bounded import d06_extra as X
    try:
        fn(s)
    except X.Abort as e:
        return str(e)
    except AssertionError:
        raise
    except Exception as e:
        if not X.through_ring_code(e):
            raise
        col.library_raised(s, e, f'after {len(s.root)} log entries')
    return None


def _work_script(item):
    """one seeded edit script"""
    from bounded import domains as D
    from bounded import d06_extra as X
    name, spec, n_ops = item
    ident = 'edit:' + name
    col = _Collector(ident, spec)
    r = D.rnd('b06:' + ident)
    s, why = _session(col, spec, r)
    if s is None:
        return 0, [], [], col.viols, {'skipped:' + ident: why} if not col.viols else {}
    aborted = _drive(col, s, lambda ss: X.random_script(ss, n_ops))
    gp = dict(col.gaps)
    if aborted:
        gp['aborted:' + ident] = aborted
    for k in s.kinds:
        gp['op:' + k] = 1
    keys = [ident] if col.ring_seen else []
    samples = [{'script': name, 'start': spec[0], 'ops': s.ops_done, 'evaluations': col.evals, 'kinds': sorted(s.kinds)}] if col.ring_seen else []
    return col.evals, keys, samples, col.viols, gp


def _work_grid(item):
    """exhaustive single edits of one small base molecule, each outside a transaction / committed / rolled back, with the caches
    warm (everything read before the edit) or as the build left them; plus remap, copy x keep flags, union and substructure variants"""
    import itertools
    from bounded import d06_extra as X
    name, atoms, bonds = item
    ident = 'grid:' + name
    spec = ['graph', list(atoms), [list(b) for b in bonds], None]
    col = _Collector(ident, spec)
    gp = Counter()
    scripts = []
    edits = X.single_edits(list(atoms), [tuple(b) for b in bonds])
    for op in edits:
        for warm in (True, False):
            pre = [['eval']] if warm else []
            scripts.append(pre + [op, ['eval']])
            scripts.append(pre + [['tx', False, [op, ['eval']]], ['eval']])
            scripts.append(pre + [['tx', True, [op, ['eval']]], ['eval']])
    first = edits[0] if edits else ['add_atom', 'C', None]
    n = len(atoms)
    rev = [[a, b] for a, b in zip(atoms, reversed(atoms))]
    shift = [[a, 4090 + 3 * i] for i, a in enumerate(atoms)]
    for mp in (rev, shift, shift[:1]):
        if mp:
            scripts.append([['eval'], ['remap', mp], ['eval']])
            scripts.append([['remap', mp], ['eval']])
            scripts.append([['eval'], ['tx', True, [['remap', mp], ['eval']]], ['eval']])
    for ks, kc in itertools.product((False, True), repeat=2):
        for warm in (True, False):
            scripts.append(([['eval']] if warm else []) + [['copy', ks, kc], ['eval'], first, ['eval']])
            scripts.append(([['eval']] if warm else []) + [['flush', ks, kc], ['eval'], first, ['eval']])
    lo = min(atoms, default=1)
    hi = max(atoms, default=0)
    for frag in ('ring3', 'ring5-coord'):
        k = X.FRAGMENTS[frag][0]
        over, disj = list(range(lo, lo + k)), list(range(hi + 2, hi + 2 + k))
        for numbers, remap in ((over, True), (disj, True), (disj, False)):
            if numbers is over and not atoms:
                continue
            for copy in (True, False):
                scripts.append([['eval'], ['union', frag, numbers, remap, copy, 'union'], ['eval'], first, ['eval']])
        scripts.append([['union', frag, over if atoms else disj, True, True, 'or'], ['eval']])
        scripts.append([['eval'], ['union', frag, over if atoms else disj, True, False, 'ior'], ['eval']])
    if n >= 2:
        for k in range(1, n):
            for i, sub in enumerate(itertools.combinations(atoms, k)):
                how = ('substructure', 'and', 'sub')[(i + k) % 3]
                arg = bool(i % 2) if how == 'substructure' else None
                scripts.append(([['eval']] if i % 2 else []) + [['substructure', list(sub), how, arg], ['eval']])
        scripts.append([['split'], ['eval']])
        scripts.append([['augmented_substructures', [atoms[0]], 3], ['eval']])
        scripts.append([['substructure', [atoms[-1]], 'augmented', 1], ['eval']])
    nscripts = 0
    for ops in scripts:
        s, why = _session(col, spec)
        if s is None:
            return 0, [], [], col.viols, {'skipped:' + ident: why} if not col.viols else {}
        aborted = _drive(col, s, lambda ss: X.run_ops(ss, ops))
        nscripts += 1
        if aborted:
            gp['aborted:' + ident + ' ' + str(ops)[:80]] = aborted
        for k in s.kinds:
            gp['op:' + k] = 1
    gp.update(col.gaps)
    keys = [ident] if col.ring_seen else []
    samples = [{'grid': name, 'bonds': _estr(bonds), 'scripts': nscripts, 'evaluations': col.evals}] if col.ring_seen else []
    return col.evals, keys, samples, col.viols, dict(gp)



def _work_callgrid(item):
    """one SMILES start x every standardize-family call x {all observables read before the call, caches as the parser left them}"""
    from bounded import d06_extra as X
    name, smi = item
    ident = 'calls:' + name
    spec = ['smiles', smi, False, True]
    col = _Collector(ident, spec)
    gp = Counter()
    for cname, kw in X.CALLS:
        for warm in (True, False):
            ops = ([['eval']] if warm else []) + [['call', cname, dict(kw)], ['eval']]
            s, why = _session(col, spec)
            if s is None:
                return 0, [], [], col.viols, {'skipped:' + ident: why} if not col.viols else {}
            aborted = _drive(col, s, lambda ss: X.run_ops(ss, ops))
            if aborted:
                gp['aborted:' + ident + ' ' + cname] = aborted
            for k in s.kinds:
                gp['op:' + k] = 1
    gp.update(col.gaps)
    keys = [ident] if col.ring_seen else []
    return col.evals, keys, [], col.viols, dict(gp)


_UNPACK = []


def _unpack_ready():
    """pack / unpack need the de-cythonised extension modules; when they cannot be injected the pack part is skipped and stated"""
    if not _UNPACK:
        try:
            env.setup(pyx=True)
            _UNPACK.append(True)
        except Exception as e:      # translator failure: outside C06
            _UNPACK.append(False)
            _UNPACK.append(f'{type(e).__name__}: {e}')
    return _UNPACK[0]


_SDF = None


def _cycle_sdf():
    global _SDF
    if _SDF is None:
        from chython import SDFRead
        with SDFRead(env.repo_path('test/cycle.sdf')) as f:
            _SDF = list(f)
    return _SDF


class _Watchdog(BaseException):
    """not an Exception: must pass through every `except Exception` between the library call and _work"""


def _work(item):
    """one work item under a wall-clock watchdog.  A library call that does not return is NOT mapped to a violation: the item is
    reported as timed out; bounded() then exits 3 unless genuine violations were found elsewhere"""
    import signal

    def on_alarm(sig, frame):
        raise _Watchdog()
    label = 'timeout:' + str(item[1])[:160] + ' ' + str(item[2])[:80]
    if _TIMEOUTS[0] >= 5:
        return 0, [], [], [], {label + ' (skipped after five timeouts in this worker)': 0}
    budget = ITEM_BUDGET_S if not _TIMEOUTS[0] else 5
    old = signal.signal(signal.SIGALRM, on_alarm)
    signal.alarm(budget)
    try:
        if item[0] == 'script':
            return _work_script(item[1:])
        if item[0] == 'grid':
            return _work_grid(item[1:])
        if item[0] == 'callgrid':
            return _work_callgrid(item[1:])
        return _work_smiles(item[1:]) if item[0] == 'mol' else _work_graph(item[1:])
    except _Watchdog:
        _TIMEOUTS[0] += 1
        return 0, [], [], [], {label: budget}
    finally:
        signal.alarm(0)
        signal.signal(signal.SIGALRM, old)


# ---------------------------------------------------------------------------------------------------------------------------------
def _selfcheck_gap_oracle(graphs):
    """the flow-based gap-A oracle must agree with plain path enumeration (harness self-validation: a disagreement is a checker
    crash, never a violation); returns (graphs compared, graphs inside gap A)"""
    from oracles import o06_gaps as O
    n = pos = 0
    for g in graphs:
        a, b = O.gap_a(g) is not None, O.gap_a_bruteforce(g) is not None
        assert a == b, f'gap-A oracles disagree on {sorted(g.edges)}: flow {a}, enumeration {b}'
        n += 1
        pos += a
    return n, pos


def bounded(run):
    env.setup()
    import networkx as nx
    from bounded import domains as D
    from oracles import o06_gen as G
    thorough = run.tier == 'thorough'
    ntr = 5
    items, dom = [], []

    def add_graph(domain, name, g, n_coord, aromatic=True, trials=ntr):
        nodes = sorted(g.nodes)
        items.append(('graph', name, nodes, sorted(tuple(sorted(e)) for e in g.edges), trials, n_coord, aromatic, None))
        dom.append(domain)

    max_nodes = 7 if thorough else 6
    at = D.atlas(max_nodes)
    for g in at:
        add_graph('exhaustive', g.name, g, 3 if thorough else 2)
    run.bound(f'exhaustive: every connected graph with <= {max_nodes} atoms and degree <= 4 of the networkx atlas ({len(at)} graphs) as all-carbon '
              f'molecules: single bonds, {3 if thorough else 2} seeded coordinate-bond variants (first one inside rings), one aromatic-ring variant and one with a single non-aromatic bond in that ring; '
              f'{ntr} labellings each (identity + 4 seeded renumberings with shuffled insertion order)')
    check_graphs = []
    if thorough:
        g8 = G.eight_node_graphs(3)
        for name, g in g8:
            add_graph('exhaustive', name, g, 2)
            check_graphs.append(g)
        run.bound(f'exhaustive: every connected graph with 8 atoms, <= 3 rings, degree <= 4 ({len(g8)} graphs; generator checked against '
                  f'the known counts 23/89/236/486 before the degree filter), same variants, {ntr} labellings each')
    n_asm = 3000 if thorough else 120
    r = D.rnd('b06:assemblies')
    for i in range(n_asm):
        g, ops = G.ring_assembly(r, 8, 30)
        if g.number_of_nodes() <= 20 and len(check_graphs) < (900 if thorough else 40):
            check_graphs.append(g)
        if r.random() < .15:      # disconnected input: a second assembly as another component
            g2, ops2 = G.ring_assembly(r, 3, 12)
            g = G.disjoint([g, g2])
            ops = ops + ['|'] + ops2
        add_graph('random', f'asm{i}[' + ' '.join(ops) + ']', g, 1, aromatic=(i % 4 == 0))
    n_mac = 300 if thorough else 24
    r = D.rnd('b06:macro')
    for i in range(n_mac):
        g, ops = G.macrocycle(r)
        add_graph('random', f'mac{i}[' + ' '.join(ops) + ']', g, 1, aromatic=False, trials=3)
    run.bound(f'seeded: {n_asm} fused/spiro/bridged/linked assemblies of 3-8 membered rings (8-30 atoms, 15 % with a second component), '
              f'plain + 1 coordinate variant, {ntr} labellings; {n_mac} macrocycles (12-40) bare / fused / spiro / bridged / two components, 3 labellings')
    cages = G.named_cages()
    for name, g in cages:
        add_graph('named', name, g, 1, aromatic=False, trials=ntr if thorough or g.number_of_nodes() <= 12 else 2)
    run.bound(f'named: {len(cages)} classic condensed systems and cages (ladders, grids, hexagonal lattices, prisms, Moebius ladders, '
              'cubane, dodecahedrane, Petersen, Heawood ...; most are inside gap A, where count / simple cycles / marks stay enforced)')
    n_cor = 1500 if thorough else 100
    for s in D.corpus_sample(n_cor, 'b06:corpus'):
        items.append(('mol', 'smiles', s, 3))
        dom.append('corpus')
    files = 0
    try:        # records are counted here, parsed in the workers only (reading runs the ring code under test)
        with open(env.repo_path('test/cycle.sdf'), encoding='utf8') as f:
            nrec = sum(1 for line in f if line.startswith('$$$$'))
    except OSError as e:      # unreadable test set: stated, not a violation of C06
        nrec = 0
        run.notes['cycle.sdf'] = f'not readable: {type(e).__name__}: {e}'
    for i in range(nrec):
        items.append(('mol', 'sdf', i, 3))
        dom.append('cycle.sdf')
        files += 1
    run.bound(f'corpus: seeded sample of {n_cor} SMILES of pach/lipophilicity.csv (kekule+thiele normal form) as parsed + 2 rebuilt renumberings; '
              f'test/cycle.sdf: {files} molecules as read + 2 rebuilt renumberings')
    # trivial inputs: the empty molecule; isolated atoms only (the single atom is the first atlas graph)
    for name, k in (('empty', 0), ('two-isolated-atoms', 2)):
        items.append(('graph', name, list(range(k)), [], 3, 0, False, None))
        dom.append('named')
    run.bound('trivial: the empty molecule and two isolated atoms (every observable must return its empty value)')

    # ---- coverage audit: public incremental building + edits (bounded/d06_extra.py) -----------------------------------------------
    def start_spec(name, g, r):
        nodes = sorted(g.nodes)
        edges = sorted(tuple(sorted(e)) for e in g.edges)
        vs = list(_variants(name, nodes, edges, r, 1, True))
        vname, oedges = r.choice(vs)
        if r.random() < .5:      # numbers with gaps / offsets / not in order of insertion
            atoms, bonds, _ = _labelled(nodes, oedges, r)
        else:
            atoms, bonds = [v + 1 for v in nodes], [(a + 1, b + 1, o) for a, b, o in oedges]
        return ['graph', atoms, [list(b) for b in bonds], [r.choice(X.ELEMENTS) for _ in atoms]]

    from bounded import d06_extra as X
    n_ops = 14 if thorough else 10
    r = D.rnd('b06:scripts')
    n_scr = 0
    for g in D.atlas(7 if thorough else 6):
        if g.number_of_nodes() >= 3:
            items.append(('script', f'{g.name}', start_spec(g.name, g, r), n_ops))
            dom.append('edit-script')
            n_scr += 1
    n_sa = 2500 if thorough else 170
    for i in range(n_sa):
        if i % 10 == 9:
            g, ops = G.macrocycle(r, 12, 30)
        else:
            g, ops = G.ring_assembly(r, 6, 26)
            if r.random() < .2:
                g2, ops2 = G.ring_assembly(r, 3, 10)
                g = G.disjoint([g, g2])
                ops = ops + ['|'] + ops2
        name = f'sasm{i}[' + ' '.join(ops) + ']'
        items.append(('script', name, start_spec(name, g, r), n_ops))
        dom.append('edit-script')
    n_sc = 1200 if thorough else 120
    for i, smi in enumerate(D.corpus_sample(n_sc, 'b06:script-corpus')):
        items.append(('script', 'smi:' + smi, ['smiles', smi, bool(i % 2)], n_ops))
        dom.append('edit-script')
    n_std = 0
    salts = ('', '', '.[Na+]', '.[K+].[Cl-]', '.N', '.Cl', '.CC(=O)O[Na]', '.OC(=O)C(F)(F)F', '.[Mg]', '.CC(O)=O')
    for i, smi in enumerate(D.corpus_sample(400 if thorough else 60, 'b06:script-std')):
        smi += r.choice(salts)
        items.append(('script', f'std{i}:' + smi, ['smiles', smi, bool(i % 2), True], n_ops))
        dom.append('edit-script')
        n_std += 1
    for k, smi in enumerate(STD_RING_INPUTS):
        items.append(('callgrid', f'stdfix{k}:' + smi, smi))
        dom.append('edit-grid')
        for j in range(6 if thorough else 2):
            items.append(('script', f'stdfix{k}.{j}:' + smi, ['smiles', smi, False, True], 6))
            dom.append('edit-script')
            n_std += 1
    run.bound(f'standardize-family grid (exhaustive): each of the {len(STD_RING_INPUTS)} hand-written inputs x each of the {len(X.CALLS)} calls x '
              '{all observables read before the call, caches as the parser left them}')
    run.bound(f'standardize-family scripts: {n_std} SMILES starts ({len(STD_RING_INPUTS)} hand-written ring systems on which a standardization rule turns a ring bond into a '
              'coordinate bond or back / splits a metal salt / removes metals, acids, explicit hydrogens; corpus SMILES with a seeded counter-ion, metal or acid '
              f'component) where 45 % of the operations are one of the {len(X.CALLS)} public calls that choose themselves which ring caches to keep '
              '(standardize, canonicalize(keep_kekule), neutralize, standardize_charges, fix_resonance, remove_coordinate_bonds(keep_to_terminal), '
              'explicify / implicify_hydrogens, remove_metals, split_metal_salts, remove_acids, clean_isotopes, clean_stereo, kekule, thiele(fix_tautomers)), '
              'mixed with the edits above; a call that raises outside the ring code ends the script (state undefined)')
    run.bound(f'edit scripts (seeded): {n_scr} atlas graphs (3-{7 if thorough else 6} atoms), {n_sa} ring assemblies / macrocycles (20 % two components) with a seeded '
              f'bond-order variant (plain / coordinate / aromatic ring) and seeded elements, half of them numbered with gaps / offsets up to 10^6 / '
              f'shuffled insertion, built through the PUBLIC incremental API (marks recalculated after every call); {n_sc} corpus SMILES as parsed '
              f'(every second one in kekule+thiele normal form); each followed by {n_ops} seeded operations: add_atom (library / explicit / large / '
              'hole-filling numbers), add_bond (orders 1 2 4 8, ring-closing or joining), delete_bond, delete_atom, transactions of 1-4 edits '
              '(45 % rolled back by an exception), remap (permutation / shift / partial), copy x keep_sssr x keep_components, union / | / |= with '
              f'{len(X.FRAGMENTS)} fragments (overlapping numbers + remap, disjoint), substructure / & / - / augmented_substructure(s) / split, '
              'flush_cache(keep_*), fix_structure, kekule / thiele (SMILES starts only), partial reads of the cached observables; contracts '
              'evaluated (70 %) or caches partly read (15 %) after each operation; inside a transaction everything but the marks; every molecule '
              'left behind by copy / union / substructure is re-read at the end')
    n_grid = 0
    for g in D.atlas(6 if thorough else 5):
        if g.number_of_nodes() < 2:
            continue
        nodes = sorted(g.nodes)
        edges = sorted(tuple(sorted(e)) for e in g.edges)
        rr = D.rnd('b06:grid:' + g.name)
        for vname, oedges in list(_variants(g.name, nodes, edges, rr, 1, False))[:2]:
            offs = 1 if vname == 'plain' else 3
            items.append(('grid', f'{g.name}:{vname}', [offs * (v + 1) for v in nodes], [(offs * (a + 1), offs * (b + 1), o) for a, b, o in oedges]))
            dom.append('edit-grid')
            n_grid += 1
    run.bound(f'edit grid (exhaustive): {n_grid} bases = every connected graph with 2-{6 if thorough else 5} atoms, plain and one seeded coordinate-bond variant '
              '(numbers 3,6,9,...), built through the public API; EVERY single edit (delete each bond, delete each atom, add a bond of order 1 and of '
              'order 8 between every non-bonded pair, add an atom) x {outside a transaction, committed, rolled back} x {all observables read '
              'before the edit, caches as the build left them}; 3 remaps (reversal, shift beyond 4090 with gaps, one atom) read before/after and '
              'rolled back; copy and flush_cache with all 4 keep flag combinations followed by an edit; union with 2 fragments x {overlapping + remap, '
              'disjoint +/- remap} x copy True/False, |, |=; every proper atom subset through substructure / & / -; split; augmented substructures')

    items.append(('graph', 'fixed-gapA-18', None, None, 5, 0, False, FIXED_GAP_A))
    dom.append('fixed')
    run.bound('fixed: the 18-atom gap-A witness (theta core 3/5/5 inside a fused system) in its failing labelling + 4 seeded renumberings, run every time')
    nchk, npos = _selfcheck_gap_oracle(check_graphs)
    run.assume('oracle: networkx.minimum_cycle_basis gives a minimum cycle basis; the sorted size vector of every minimum cycle basis is the same',
               'oracle: GF(2) elimination on bond-incidence bit vectors (oracles/cycles.py)',
               'oracle: networkx bridges / connected_components / biconnected_components / local_node_connectivity on graphs read from the bond table',
               'connected_components is compared on the graph WITH coordinate bonds (as the code defines it: _connected_components(self._bonds)); '
               'rings_count, not_special_connectivity, sssr and all ring marks on the graph WITHOUT them',
               'recorded gaps (outside the claimed domain, counted as gap_hits): A = the graph without coordinate bonds contains two atoms joined by '
               'three internally vertex-disjoint paths with >= 3 bonds each (theta core; exact oracle: <= 2^4 edge deletions + Menger/max-flow, '
               f'cross-checked against plain path enumeration on {nchk} graphs of this run, {npos} of them inside the gap); B = a connected part '
               'with <= 7 atoms and cyclomatic number > 5',
               'inside a gap ONLY minimum total size, GF(2) independence and size-multiset stability are excused (plus the two bridge-oracle mark '
               'contracts when the reported set is itself dependent); count, simple cycles, marks vs the reported sssr, per-atom views, '
               'aromatic rings, rings_count, components and "no exception" stay enforced',
               'bond.in_ring for non-coordinate bonds must equal "not a bridge", atom.in_ring "has a non-bridge bond": a cycle-space basis covers '
               'exactly the non-bridge bonds')

    _unpack_ready()      # inject once, before the pool forks
    if not _UNPACK[0]:
        run.notes['unpack_skipped'] = _UNPACK[1]
    # heavy items first for a balanced pool
    def weight(it):
        if it[0] == 'graph':
            return len(it[3] or ())
        if it[0] == 'grid':
            return 40 * len(it[2])
        if it[0] == 'script':
            return 60
        if it[0] == 'callgrid':
            return 100
        return 30
    order = sorted(range(len(items)), key=lambda i: -weight(items[i]))
    res = pmap(_work, [items[i] for i in order], chunksize=4)
    stats = {d: {'molecules': 0, 'graph_variants': 0, 'graph_variants_inside_gap': Counter(), 'excused_contract_failures': Counter(), 'graph_variants_with_excused_failures': 0}
             for d in ('exhaustive', 'random', 'named', 'corpus', 'cycle.sdf', 'fixed', 'edit-script', 'edit-grid')}
    examples = []
    skipped, timeouts = [], []
    aborted, op_kinds = [], Counter()
    n_unpacked = [0]
    shown, reported, suppressed = Counter(), Counter(), Counter()
    for i, (n, keys, samples, viols, gp) in zip(order, res):
        it, d = items[i], dom[i]
        st = stats[d]
        st['molecules'] += n
        sample = None
        if samples and shown[d] < 2:
            shown[d] += 1
            sample = samples[0]
        run.case(n, sample=sample)
        for k in keys:
            run.case(0, key=k)
        for key, what, wit, nat in viols:
            c = key.split(':', 1)[0]
            if (run.pid, key) not in run.known and reported[c] >= MAX_REPORT:      # keep the output readable; exit code is already 1
                suppressed[c] += 1
                continue
            if run.violation(key, what, witness=wit, native=nat) == 'new':
                reported[c] += 1
        hit = set()
        for k, v in gp.items():
            if k.startswith('skipped:'):
                skipped.append((k[8:], v))
            elif k.startswith('timeout:'):
                timeouts.append(k[8:])
            elif k.startswith('aborted:'):
                aborted.append((k[8:], v))
            elif k.startswith('op:'):
                op_kinds[k[3:]] += 1
            elif k.startswith('hit-graphs:'):
                hit.add(k[11:].split(' ')[0])
                if len(examples) < 12 or d == 'fixed':
                    examples.append(f'[{d}] ' + k[11:][:300])
            elif k == 'unpacked':
                n_unpacked[0] += v
            elif k == 'variants':
                st['graph_variants'] += v
            elif k.startswith('inputs:'):
                st['graph_variants_inside_gap'][k[7:]] += v
            else:
                st['excused_contract_failures'][k[5:]] += v
        st['graph_variants_with_excused_failures'] += len(hit)
    if suppressed:
        run.notes['violations_not_listed'] = {'why': f'more than {MAX_REPORT} new violations of the same contract', 'per_contract': dict(suppressed)}
        print(f'C06 bounded: further violations not listed (same contracts): {dict(suppressed)}', flush=True)
    if timeouts:
        run.notes['timeouts'] = {'budget_s': ITEM_BUDGET_S, 'items': timeouts[:10], 'count': len(timeouts)}
        print(f'C06 bounded: {len(timeouts)} work items did not return within {ITEM_BUDGET_S}s, e.g. {timeouts[0]}', flush=True)
        if not run.violations:
            raise RuntimeError(f'{len(timeouts)} work items timed out (never mapped to a violation), e.g. {timeouts[0]}')
    run.notes['unpack'] = {'molecules_unpacked': n_unpacked[0]}
    run.bound(f'pack/unpack: every corpus / cycle.sdf molecule that pack() accepts ({n_unpacked[0]} in this run) read back with unpack(): marks as found')
    n_edit = sum(1 for d in dom if d in ('edit-script', 'edit-grid'))
    run.notes['edit_scripts'] = {'work_items': n_edit, 'work_items_using_operation': dict(sorted(op_kinds.items())),
                                 'aborted_outside_C06': {'count': len(aborted), 'examples': aborted[:5],
                                                         'why': 'kekule / thiele refused the edited molecule or an edit raised outside the ring code: the script stops there'}}
    need = {'add_atom', 'add_bond', 'delete_bond', 'delete_atom', 'remap', 'copy', 'union', 'substructure', 'split', 'flush', 'tx-commit', 'tx-rollback',
            'add_bond@tx', 'delete_bond@tx', 'delete_atom@tx', 'kekule', 'thiele', 'fix_structure', 'augmented_substructures'}
    if need - set(op_kinds):      # harness self-check: a domain that silently lost an operation is a checker crash, never a pass
        raise RuntimeError(f'edit operations never executed: {sorted(need - set(op_kinds))}')
    if len(aborted) > n_edit // 4 and not run.violations:
        raise RuntimeError(f'{len(aborted)} of {n_edit} edit work items aborted outside C06, e.g. {aborted[0]}')
    if skipped:
        run.notes['skipped_corpus_inputs'] = {'count': len(skipped), 'examples': skipped[:5],
                                              'why': 'the library raised while parsing / normalising the SMILES (outside C06)'}
        if len(skipped) > (n_cor + files + n_sc) // 10 and not run.violations:
            raise RuntimeError(f'{len(skipped)} of {n_cor + files + n_sc} corpus / file molecules could not be built, e.g. {skipped[0]}')
    total_hits = sum(s['graph_variants_with_excused_failures'] for s in stats.values())
    fx = stats['fixed']
    run.notes['gap_hits'] = {
        'total_graph_variants_with_excused_failures': total_hits,
        'per_domain': {d: {'molecules_evaluated': s['molecules'], 'graph_variants': s['graph_variants'], 'graph_variants_inside_gap': dict(s['graph_variants_inside_gap']),
                           'excused_contract_failures': dict(s['excused_contract_failures']),
                           'graph_variants_with_excused_failures': s['graph_variants_with_excused_failures']} for d, s in stats.items()},
        'fixed_18_atom_witness': ('gap A is real on this tree: ' + '; '.join(e[8:] for e in examples if e.startswith('[fixed]')))
        if fx['graph_variants_with_excused_failures'] else 'the fixed 18-atom gap-A witness satisfied every contract on this tree',
        'examples': examples[:12]}
    print(f'C06 bounded: gap_hits={total_hits} ' + ' '.join(
        f'{d}: inside={sum(s["graph_variants_inside_gap"].values())}/{s["graph_variants"]} hit={s["graph_variants_with_excused_failures"]}'
        for d, s in stats.items()), flush=True)


def replay(rec):
    """rebuild the witness natively and re-evaluate the named contract; True if the property now holds for it"""
    env.setup()
    from bounded import domains as D
    w = rec.get('witness') or {}
    c = w.get('contract')
    if 'ops' in w and 'start' in w:      # edit script: rebuild the start molecule, re-run the concrete operations
        from bounded import d06_extra as X
        col = _Collector('replay', w['start'])
        s, why = _session(col, w['start'])
        if s is None:
            return not col.viols and False
        _drive(col, s, lambda ss: X.run_ops(ss, w['ops']))
        print('native:', [(v[0], v[1][:200]) for v in col.viols])
        return not any(v[2]['contract'] == c for v in col.viols)
    if 'bonds' in w and 'atoms' in w:
        ms = [(_mol(w['atoms'], [tuple(b) for b in w['bonds']]), True)]
    elif w.get('as_parsed') and str(w.get('source', '')).startswith('smi:'):
        ms = [(D.parse(w['input']), False)]
        if w.get('unpack') and _unpack_ready():
            ms = [(type(ms[0][0]).unpack(ms[0][0].pack()), False)]
    elif 'source_bonds' in w:      # numbering-dependence witness: re-run the renumberings
        import networkx as nx
        edges = []
        for tok in w['source_bonds'].split(','):
            e, _, o = tok.partition('~')
            a, b = e.split('-')
            edges.append((int(a), int(b), int(o or 1)))
        nodes = sorted({x for a, b, _ in edges for x in (a, b)})
        r = D.rnd('b06:replay')
        sizes = set()
        for t in range(8):
            atoms, bonds, _ = _labelled(nodes, edges, r, identity=(t == 0))
            sizes.add(tuple(evaluate(_mol(atoms, bonds))[1] or ()))
        return len(sizes) == 1
    else:
        return False
    for m, recalc in ms:
        fails, _ = evaluate(m, None, recalc=recalc)
        print('native:', {'sssr': _try(lambda: m.sssr), 'rings_count': m.rings_count, 'failed': [f[0] for f in fails]})
        if any(f[0] == c for f in fails) or (c is None and fails):
            return False
    return True


def _try(f):
    try:
        return f()
    except Exception as e:
        return repr(e)
