"""C01 bounded stand-in (engine B): canonical SMILES, equality and hash depend on the structure only.

Relational contract on `MoleculeSmiles.__str__` / `Smiles.__eq__` / `Smiles.__hash__` (DESIGN section 2, C01): for a molecule m,
every renumbering + insertion-order shuffle p and every re-spelling s of m

    str(norm(p.m)) = str(norm(parse(s))) = str(norm(m)),   (x == m) is True,   hash(x) = hash(m)        norm = kekule(); thiele()

and two molecules that the reference enumerator (oracles/iso.py) finds non-isomorphic never share a canonical string.
The two documented gaps are decided by oracles/o01_gaps.py (orbits of the stereo-free graph) and only counted (`gap_hits`).
"""
import itertools
import random

from vlib import env
from vlib.report import pmap

RULE = ('non-trivial = molecule with >= 2 atoms for which a relation produced a description that really differs from the '
        'reference one (non-identity numbering / insertion order, or a text different from the canonical text); keys are '
        '(canonical string, relation)')

# ---- comparison -----------------------------------------------------------------------------------------------------------

def _h(text):
    """short stable tag: keeps replay file names of keys that differ only in punctuation apart"""
    import hashlib
    return hashlib.md5(text.encode()).hexdigest()[:6]


def _differs(m, m0, s0, h0):
    """None if the contract holds for the pair, else a short description of what differs"""
    s = str(m)
    if s != s0:
        return f'canonical strings differ: {s0!r} vs {s!r}'
    if not (m == m0) or not (m0 == m) or (m != m0):
        return f'equal canonical strings {s0!r} but == is False'
    if hash(m) != h0:
        return f'equal canonical strings {s0!r} but hashes differ'
    return None


def _rdkit_mol(text):
    from rdkit import Chem, RDLogger
    RDLogger.DisableLog('rdApp.*')
    try:
        return Chem.MolFromSmiles(text)
    except Exception:
        return None


def _n_labels(m):
    return sum(a.stereo is not None for _, a in m.atoms()) + sum(b.stereo is not None for *_, b in m.bonds())


def _rd_random(rm, r, kek):
    """deterministic 'random' RDKit spelling: seeded atom renumbering + rooted non-canonical output"""
    from rdkit import Chem
    n = rm.GetNumAtoms()
    order = list(range(n))
    r.shuffle(order)
    m2 = Chem.RenumberAtoms(rm, order)
    if kek:
        m2 = Chem.Mol(m2)
        Chem.Kekulize(m2, clearAromaticFlags=True)
    return Chem.MolToSmiles(m2, canonical=False, rootedAtAtom=r.randrange(n), kekuleSmiles=kek)


def _check_molecule(ident, m0, rec, perms, n_shuffle, n_r, n_rd, r, rd_source=None, do_remap=True):
    """run every relation of C01 on one reference molecule.  Returns (ncases, keys, gap, mismatches, info) where
    mismatches = [(relation, what, witness)] (first per relation)"""
    from bounded import domains as D, d01_molgen as G
    from oracles import iso
    from oracles.o01_gaps import gaps
    from oracles.o01_stereo import stereo_isomorphic
    from chython import smiles
    s0 = str(m0)
    h0 = hash(m0)
    n = len(m0)
    ncases = 0
    keys = set()
    bad = {}
    info = {'rd_unparsed': 0, 'rd_rejected': 0, 'rd_not_isomorphic': 0, 'rd_undecided': 0, 'dropped': 0, 'samples': []}

    def note(rel, what, witness):
        if rel not in bad:
            bad[rel] = (rel, what, witness)

    # renumbering + insertion order (all given permutations, then seeded ones)
    first = True
    for p in perms:
        m, dropped, w = G.shuffled_build(rec, r, perm=list(p) if p is not None else None)
        if first:  # harness sanity: the rebuilt molecule is the same constitution (independent enumerator)
            first = False
            if not iso.is_isomorphic(m, _kek_view(m0), hydrogens=True) and not iso.is_isomorphic(D.norm(m.copy()), m0):
                raise AssertionError(f'harness: rebuilt record is not isomorphic to its source: {ident}')
        ncases += 1
        if dropped:
            info['dropped'] += 1
        try:
            D.norm(m)
            d = _differs(m, m0, s0, h0)
        except Exception as e:
            d = f'normalising the rebuilt molecule raised {type(e).__name__}: {e}'
        if d:
            note('renumber+insertion', d, w)
        if n > 1:
            keys.add((s0, 'renumber+insertion'))
    if do_remap and n > 1:
        for _ in range(n_shuffle):
            c, mp = D.renumber(m0, r, offset=r.choice((0, 0, 7, 1000)))
            ncases += 1
            d = _differs(c, m0, s0, h0)
            if d:
                note('remap', d, {'remap': {str(a): b for a, b in mp.items()}})
            keys.add((s0, 'remap'))
    # re-spellings: chython's own random writer
    for _ in range(n_r):
        text = format(m0, 'r')
        ncases += 1
        try:
            m = smiles(text)
            D.norm(m)
            d = _differs(m, m0, s0, h0)
        except Exception as e:  # the library fails on its own spelling of a valid molecule
            d = f'reading / normalising the spelling raised {type(e).__name__}: {e}'
        if d:
            note('respell-chython', d, {'text': text})
        if text != s0 and n > 1:
            keys.add((s0, 'respell-chython'))
    # re-spellings: RDKit
    if n_rd:
        rm = _rdkit_mol(rd_source if rd_source is not None else s0)
        if rm is None or rm.GetNumAtoms() != n:
            info['rd_unparsed'] += 1
        else:
            src = rd_source if rd_source is not None else s0
            for i in range(n_rd):
                try:
                    text = _rd_random(rm, r, bool(i % 2))
                except Exception:
                    info['rd_unparsed'] += 1
                    continue
                try:
                    m = smiles(text)
                    D.norm(m)
                except Exception as e:
                    # the reader (or its Kekule step) rejects the foreign text, e.g. RDKit's aromatic spelling of a ring chython does
                    # not treat as aromatic: acceptance of texts is C03 / C05, C01 speaks about descriptions that were read
                    info['rd_rejected'] += 1
                    info['samples'].append(('rejected', text, src, f'{type(e).__name__}: {e}'))
                    continue
                same = stereo_isomorphic(m0, m)
                if same is not True:
                    # precondition "s is a spelling of m": decided by the reference enumerator incl. configuration.  RDKit's writer
                    # drops / re-assigns labels it considers non-stereogenic (fused small rings, cages), such a text denotes another
                    # (less specified) structure.  Reader faults are C02's subject (write -> read under the written order).
                    info['rd_not_isomorphic' if same is False else 'rd_undecided'] += 1
                    if same is False and _n_labels(m) == _n_labels(m0):
                        info['samples'].append(('not-isomorphic', text, src, str(m)))
                    continue
                ncases += 1
                d = _differs(m, m0, s0, h0)
                if d:
                    note('respell-rdkit', d, {'text': text, 'rdkit_source': src})
                if text != s0 and n > 1:
                    keys.add((s0, 'respell-rdkit'))
    gap = gaps(m0)
    return ncases, keys, gap, list(bad.values()), info


def _kek_view(m0):
    k = m0.copy()
    k.kekule()
    return k


# ---- workers --------------------------------------------------------------------------------------------------------------

def _perms_for(n, has_stereo, full_limit, k_seeded, r):
    if n <= (min(full_limit, 5) if has_stereo else full_limit):
        return list(itertools.permutations(range(n)))
    return [None] * k_seeded


def _atlas_worker(job):
    from bounded import domains as D, d01_molgen as G
    recs, full_limit, k_seeded, n_r, n_rd, tag = job
    res = []
    for rec in recs:
        r = D.rnd(f'{tag}:{rec["id"]}')
        random.seed(f'{env.SEED}:{tag}:{rec["id"]}')  # the library's random writer draws from the global generator
        m0, dropped0 = G.build_rec(rec)
        D.norm(m0)
        n = len(rec['atoms'])
        anchor = rec['id'].startswith('anchor:')  # fixed witnesses of the recorded defect families: enough draws to fire in every run
        symring = rec['id'].startswith(('sym:', 'biaryl:'))
        perms = _perms_for(n, bool(G.n_stereo(rec)), full_limit, 60 if anchor else 30 if symring else k_seeded, r)
        ncases, keys, gap, bad, info = _check_molecule(rec['id'], m0, rec, perms, 1, 120 if anchor else n_r, n_rd, r)
        res.append((rec['id'], str(m0), ncases, keys, gap, bad, info, _n_labels(m0), _family(m0, gap, bad)))
    return res


def _family(m0, gap, bad):
    """root-cause family of a failing input outside the documented gaps (independent predicates of oracles/o01_families.py)"""
    if not bad or gap[0] or gap[1]:
        return None
    from oracles.o01_families import c01_family
    return c01_family(m0, {b[0] for b in bad})


def _corpus_worker(job):
    from bounded import domains as D, d01_molgen as G
    texts, n_perm, n_r, n_rd, tag = job
    res = []
    for text in texts:
        r = D.rnd(f'{tag}:{text}')
        random.seed(f'{env.SEED}:{tag}:{text}')
        m0 = D.parse(text)
        rec = G.rec_of(m0, text)
        ncases, keys, gap, bad, info = _check_molecule(text, m0, rec, [None] * n_perm, 1, n_r, n_rd, r, rd_source=text)
        res.append((text, str(m0), ncases, keys, gap, bad, info, _n_labels(m0), _family(m0, gap, bad)))
    return res


# ---- driver ---------------------------------------------------------------------------------------------------------------

def bounded(run):
    env.setup()
    from bounded import domains as D, d01_molgen as G
    from oracles import iso
    from oracles.o01_stereo import stereo_isomorphic
    quick = run.tier == 'quick'
    max_nodes, full_limit, trials = (6, 5, 6) if quick else (7, 6, 7)
    k_seeded = 20
    n_corpus = 300 if quick else None
    run.assume('oracles/iso.py: exhaustive attribute-aware isomorphism / automorphism enumerator is the judge of "same structure" '
               '(specification, not verified)',
               'oracles/o01_gaps.py: the two documented gaps of C01 are decided on orbits of the stereo-free graph with the predicates '
               'fixed in DESIGN section 2 C01 (automorphism enumeration capped at 20000 per molecule)',
               'oracles/o01_stereo.py: "same structure incl. configuration" = some constitutional isomorphism maps every tetrahedral / '
               'allene / cis-trans label onto an equal one (uses only the stored-sign convention, never the canonicaliser)',
               'RDKit 2026.03 is an independent SMILES writer (seeded atom order, aromatic and Kekule style); a RDKit text is used as a '
               're-spelling only if the molecule read from it is isomorphic incl. configuration to the original for oracles/o01_stereo.py '
               '(RDKit drops / re-assigns labels in fused small rings); texts rejected by the reader are counted, not judged (C03/C05)',
               'kekule(); thiele() is the aromaticity normal form of the statement ("once aromaticity is normalised")',
               'hash agreement is checked inside one process (PYTHONHASHSEED fixed per process; cross-process stability is C19)')

    recs = G.atlas_records(max_nodes, trials)
    recs += G.ion_records()
    for i, s in enumerate(G.SPECIAL_SMILES):
        m = D.parse(s)
        recs.append(G.rec_of(m, f'special:{s}', hydrogens=True))
    sym = G.symmetric_ring_records(extra=1 if quick else 3)
    sym += [G.rec_of(D.parse(s), f'biaryl:{s}') for s in G.BIARYL_SMILES]
    run.bound(f'symmetric ring systems: {len(sym)} spiro / fused / bridged bicyclic and dispiro tricyclic systems (ring sizes 3-7, two constitutionally '
              f'identical rings, O / N / S / N-N / C=O at every position, both relative orientations, seeded two-substituent patterns) and '
              f'{len(G.BIARYL_SMILES)} symmetric biaryl / fused aromatic systems x 30 seeded numberings + insertion orders, remap, 3 + 2 re-spellings')
    recs += sym
    from oracles.o01_families import ANCHORS
    anchors = [G.rec_of(D.parse(s), f'anchor:{s}') for fam in ANCHORS.values() for s in fam]
    run.bound(f'anchors: {len(anchors)} fixed witnesses of the recorded defect families (oracles/o01_families.py), identical in every tier / seed, '
              f'60 seeded numberings (all n! for n <= {full_limit}) and 120 random spellings each')
    recs = anchors + recs
    by_id = {rec['id']: rec for rec in recs}
    run.bound(f'decorated graph atlas: every connected graph <= {max_nodes} nodes, max degree 4, {trials} seeded decorations (2x for trees) '
              f'+ charge/isotope/radical variants + spectator components + every 2^k labelling (k <= 4) of the stereo elements chython '
              f'perceives (atlas part: valence-valid only) + pairs of spectator ions + {len(G.SPECIAL_SMILES)} hand-written molecules: {len(recs)} molecules')
    run.bound(f'atlas permutations: all n! numberings for n <= {full_limit} (n <= 5 when the molecule carries stereo labels), {k_seeded} seeded '
              f'numberings above; each with a seeded atom / bond insertion order and bond direction; + 1 remap(); 3 chython random '
              f'spellings; 2 RDKit random spellings')
    # larger molecules first inside round-robin chunks to balance load
    recs_sorted = anchors + sorted(recs[len(anchors):], key=lambda x: -len(x['atoms']))
    nchunk = max(env.NPROC * 6, 1)
    jobs = [(recs_sorted[i::nchunk], full_limit, k_seeded, 3, 2, 'b01a') for i in range(nchunk) if recs_sorted[i::nchunk]]
    atlas_res = [x for part in pmap(_atlas_worker, jobs) for x in part]
    atlas_res.sort(key=lambda x: (not x[0].startswith('anchor:'),))  # anchors first: they become the recorded witnesses

    texts = D.corpus_sample(n_corpus, tag='b01-corpus')
    texts = list(dict.fromkeys(texts))
    run.bound(f'corpus: {len(texts)} distinct SMILES of pach/lipophilicity.csv x (3 seeded renumbering+insertion-order rebuilds from the '
              f'Kekule form + 1 remap + 3 chython random spellings + 3 RDKit random spellings, RDKit reading the original text)')
    nchunk = max(env.NPROC * 4, 1)
    jobs = [(texts[i::nchunk], 3, 3, 3, 'b01c') for i in range(nchunk) if texts[i::nchunk]]
    corpus_res = [x for part in pmap(_corpus_worker, jobs) for x in part]

    notes = {'gap1_molecules': 0, 'gap2_molecules': 0, 'gap_hits': 0, 'gap_hit_samples': [], 'rdkit_unparsed': 0,
             'rdkit_text_rejected_by_reader': 0, 'rdkit_text_not_stereo_isomorphic': 0, 'rdkit_text_undecided': 0,
             'rdkit_samples': [], 'labels_not_accepted_on_rebuild': 0, 'molecules': 0, 'stereo_molecules': 0}
    by_string = {}
    for domain, res in (('atlas', atlas_res), ('corpus', corpus_res)):
        for ident, s0, ncases, keys, gap, bad, info, nlab, fam in res:
            notes['molecules'] += 1
            notes['stereo_molecules'] += bool(nlab)
            notes['gap1_molecules'] += gap[0]
            notes['gap2_molecules'] += gap[1]
            notes['rdkit_unparsed'] += info['rd_unparsed']
            notes['rdkit_text_rejected_by_reader'] += info['rd_rejected']
            notes['rdkit_text_not_stereo_isomorphic'] += info['rd_not_isomorphic']
            notes['rdkit_text_undecided'] += info['rd_undecided']
            for x in info['samples']:
                if len(notes['rdkit_samples']) < 10:
                    notes['rdkit_samples'].append(list(x))
            notes['labels_not_accepted_on_rebuild'] += info['dropped']
            run.case(ncases)
            for k in keys:
                run.case(0, key=k)
            if notes['molecules'] % 97 == 1:
                run.case(0, sample={'domain': domain, 'input': ident, 'canonical': s0, 'evaluations': ncases,
                                    'relations': sorted({k[1] for k in keys}), 'gap': list(gap)})
            by_string.setdefault(s0, []).append((domain, ident))
            if not bad:
                continue
            if gap[0] or gap[1]:
                notes['gap_hits'] += len(bad)
                for rel, what, witness in bad:
                    if len(notes['gap_hit_samples']) < 12:
                        notes['gap_hit_samples'].append({'input': ident, 'gap': 1 if gap[0] else 2, 'relation': rel, 'what': what})
                continue
            rel, what, witness = bad[0]
            run.violation(f'c01:{fam}' if fam else f'c01:{_h(ident)}:{ident}',
                          (f'[family {fam}] ' if fam else '') + f'C01 {rel}: {what} [{domain} input {ident}]' +
                          (f' (also: {", ".join(b[0] for b in bad[1:])})' if len(bad) > 1 else ''),
                          witness={'domain': domain, 'input': ident, 'record': by_id.get(ident), 'relation': rel, **witness},
                          native={'reference': s0, 'differences': {b[0]: b[1] for b in bad}})

    # no over-merging: molecules sharing a canonical string are isomorphic for the reference enumerator
    def mol_of(domain, ident):
        if domain == 'atlas':
            return D.norm(G.build_rec(by_id[ident])[0])
        return D.parse(ident)
    pairs = 0
    for s0, members in by_string.items():
        if len(members) < 2:
            continue
        ref = mol_of(*members[0])
        for other in members[1:]:
            pairs += 1
            if stereo_isomorphic(ref, mol_of(*other)) is False:
                run.violation(f'collision:{_h(members[0][1] + other[1])}:{members[0][1]}|{other[1]}',
                              f'C01 over-merge: non-isomorphic molecules share the canonical string {s0!r}',
                              witness={'relation': 'collision', 'a': members[0], 'b': other, 'record_a': by_id.get(members[0][1]),
                                       'record_b': by_id.get(other[1])}, native={'string': s0})
            run.case(1, key=(s0, 'collision'))
    # ... and stereo-free atlas decorations of one graph that are isomorphic have one string (two descriptions of one structure)
    buckets = {}
    for ident, s0, *_rest, nlab, _fam in atlas_res:
        rec = by_id[ident]
        if nlab or G.n_stereo(rec):
            continue
        inv = (tuple(sorted(map(repr, rec['atoms']))), tuple(sorted(o for *_, o in rec['bonds'])))
        buckets.setdefault(inv, []).append((ident, s0))
    from oracles.o01_gaps import gaps
    from oracles.o01_families import c01_family
    for inv, members in buckets.items():
        for (ia, sa), (ib, sb) in itertools.combinations(members, 2):
            if sa == sb:
                continue
            ma, mb = mol_of('atlas', ia), mol_of('atlas', ib)
            pairs += 1
            run.case(1, key=(sa, 'iso-pair'))
            if iso.is_isomorphic(ma, mb):
                if any(gaps(ma)):
                    notes['gap_hits'] += 1
                    continue
                fam = c01_family(ma, {'iso-pair'})
                run.violation(f'c01:{fam}' if fam else f'iso-pair:{_h(ia + ib)}:{ia}|{ib}', f'C01: isomorphic molecules with canonical strings {sa!r} and {sb!r}',
                              witness={'relation': 'iso-pair', 'record_a': by_id[ia], 'record_b': by_id[ib]},
                              native={'a': sa, 'b': sb})
    notes['distinct_canonical_strings'] = len(by_string)
    notes['pairs_judged_by_isomorphism_oracle'] = pairs
    run.bound(f'injectivity: all pairs of the {notes["molecules"]} domain molecules (grouped by canonical string; {pairs} pairs judged by the '
              f'reference enumerator)')
    run.notes.update(notes)


# ---- replay ---------------------------------------------------------------------------------------------------------------

def replay(rec):
    """re-run the witness natively; True if the property holds for it on the current tree"""
    env.setup()
    from bounded import domains as D, d01_molgen as G
    from oracles import iso
    from chython import smiles
    w = rec['witness']
    rel = w['relation']

    def source(record, ident, domain='atlas'):
        if record is not None:
            record = _unjson(record)
            return D.norm(G.build_rec(record)[0]), record
        m = D.parse(ident)
        return m, G.rec_of(m, ident)

    if rel == 'collision':
        a = source(w.get('record_a'), w['a'][1])[0]
        b = source(w.get('record_b'), w['b'][1])[0]
        print('  a:', str(a), ' b:', str(b))
        return str(a) != str(b) or iso.is_isomorphic(a, b)
    if rel == 'iso-pair':
        a = source(w['record_a'], None)[0]
        b = source(w['record_b'], None)[0]
        print('  a:', str(a), ' b:', str(b))
        return str(a) == str(b) or not iso.is_isomorphic(a, b)
    m0, record = source(w.get('record'), w['input'])
    if rel == 'renumber+insertion':
        m, _ = G.build_rec(record, w['perm'], w['node_order'], w['edge_order'], set(w['flip_edges']))
        D.norm(m)
    elif rel == 'remap':
        m = m0.copy()
        m.remap({int(a): b for a, b in w['remap'].items()})
    else:
        m = smiles(w['text'])
        D.norm(m)
    print('  reference:', str(m0), ' other description:', str(m), ' ==:', m == m0, ' hashes equal:', hash(m) == hash(m0))
    return _differs(m, m0, str(m0), hash(m0)) is None


def _unjson(record):
    r = dict(record)
    r['atoms'] = [tuple(a) for a in r['atoms']]
    r['bonds'] = [tuple(b) for b in r['bonds']]
    r['tet'] = [(c, tuple(e), s) for c, e, s in r.get('tet', ())]
    r['ct'] = [tuple(x) for x in r.get('ct', ())]
    r['al'] = [tuple(x) for x in r.get('al', ())]
    return r
