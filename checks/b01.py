"""C01 bounded stand-in (engine B): canonical SMILES, equality and hash depend on the structure only.

Relational contract on `MoleculeSmiles.__str__` / `Smiles.__eq__` / `Smiles.__hash__` (DESIGN section 2, C01): for a molecule m,
every renumbering + insertion-order shuffle p and every re-spelling s of m

    str(norm(p.m)) = str(norm(parse(s))) = str(norm(m)),   (x == m) is True,   hash(x) = hash(m)        norm = kekule(); thiele()

and two molecules that the reference enumerator (oracles/iso.py) finds non-isomorphic never share a canonical string.
The two documented gaps are decided by oracles/o01_gaps.py (orbits of the stereo-free graph) and only counted (`gap_hits`).

Coverage audit (every observable of the property's `observe_at` list, every option of the anchored entry points): on each description whose
canonical string agrees the same relation is also read through `format(mol, spec)` for the canonical option sets SPECS, `atoms_order`
(renumbered classes) and `smiles_atoms_order`; the first observation rotates between the entry points that fill each other's caches
(`__str__`, `smiles_atoms_order`, `__format__(..., _return_order=True)`, `__hash__`); re-spellings come from every option of the random-order
writer and `sticky_smiles`, and from four RDKit writer settings; numberings include numbers with gaps up to 10^5; `==` / `!=` are also
read on pairs of different structures; input classes the atlas / corpus never reach are listed in bounded/d01_extra.py; the empty molecule.
Failing inputs are keyed by a root-cause family only if the family's independent predicate holds (oracles/o01_families.py); the number of
members of each family and how many of them fail is reported (`notes.families`).
"""
import collections
import itertools
import random
import re

from vlib import env
from vlib.report import pmap

RULE = ('non-trivial = molecule with >= 2 atoms for which a relation produced a description that really differs from the '
        'reference one (non-identity numbering / insertion order, or a text different from the canonical text); keys are '
        '(canonical string, relation)')

# ---- comparison -----------------------------------------------------------------------------------------------------------

def _h(text):
    """short stable tag: keeps replay file names of keys that differ only in punctuation apart"""
    import hashlib
    return hashlib.md5(text.encode()).hexdigest()[:6]


def _differs(m, m0, s0, h0):
    """None if the contract holds for the pair, else a short description of what differs"""
    s = str(m)
    if s != s0:
        return f'canonical strings differ: {s0!r} vs {s!r}'
    if not (m == m0) or not (m0 == m) or (m != m0):
        return f'equal canonical strings {s0!r} but == is False'
    if hash(m) != h0:
        return f'equal canonical strings {s0!r} but hashes differ'
    return None


# canonical writer options of `Smiles.__format__` ('r' = random order is used for the re-spellings, not here); 'm' prints the atom numbers,
# which are stripped before comparing
SPECS = ('a', '!s', 'A', 'h', '!b', '!z', '!x', 'm', 'ah', 'A!s!z', 'hA!b!x')
# options of the library's random-order writer that still give a SMILES of the same structure; 'sticky' = MoleculeSmiles.sticky_smiles with a
# seeded left (and, for connected molecules with a terminal atom, right) end, nothing removed (not used for radicals: it writes no CX part)
RSPECS = ('r', 'ra', 'rh', 'rA', 'sticky')


def _sticky(m0, r):
    nums = list(m0._atoms)
    left = r.choice(nums)
    ends = [n for n in nums if len(m0._bonds[n]) == 1 and n != left]
    if ends and m0.connected_components_count == 1 and r.random() < .5:
        try:
            return m0.sticky_smiles(left, r.choice(ends), tries=30)
        except Exception as e:
            if str(e) != 'generation of smiles failed':  # documented outcome of the randomised search
                raise
    return m0.sticky_smiles(left)
_MAP = re.compile(r':\d+(?=\])')


def _fmt(m, spec):
    t = format(m, spec)
    return _MAP.sub('', t) if 'm' in spec.replace('!s', '') else t


def _classes(ao):
    return sorted(collections.Counter(ao.values()).items())


def _observe_ref(m0):
    """the further observables of the property on the reference description"""
    from oracles import iso
    return {'specs': {sp: _fmt(m0, sp) for sp in SPECS}, 'ao': dict(m0.atoms_order), 'classes': _classes(m0.atoms_order),
            'sao': tuple(m0.smiles_atoms_order), 'keys': {n: iso.atom_key(a) for n, a in m0.atoms()},
            'bonds': [(a, b, bd.order) for a, b, bd in m0.bonds()]}


def _touch(m, j):
    """vary the order in which the memoised observables are first computed (each entry point fills the caches of the others)"""
    k = j % 4
    if k == 1:
        m.smiles_atoms_order
    elif k == 2:
        m.__format__('', _return_order=True)
    elif k == 3:
        hash(m)
        m.smiles


def _extra(m, ref, j, amap, n_specs):
    """observables other than str / == / hash on a description whose canonical string already agrees with the reference:
    `format(mol, spec)` for `n_specs` canonical option sets (rotating with j), `atoms_order` (class sizes; the renumbered reference
    classes when the atom map is known), `smiles_atoms_order` (the position-wise map onto the reference order maps equal atoms onto equal
    atoms and bonds onto bonds of the same order).  Returns None or (observable, text)."""
    from oracles import iso
    k = len(SPECS)
    for i in range(n_specs):
        sp = SPECS[(n_specs * j + i) % k]
        t = _fmt(m, sp)
        if t != ref['specs'][sp]:
            return f'format({sp})', f'format(mol, {sp!r}) differs: {ref["specs"][sp]!r} vs {t!r}'
    ao = m.atoms_order
    if _classes(ao) != ref['classes']:
        return 'atoms_order', f'atoms_order has other class sizes: {ref["classes"]} vs {_classes(ao)}'
    if amap is not None and any(ao[amap[n]] != c for n, c in ref['ao'].items()):
        return 'atoms_order', 'atoms_order is not the renumbered atoms_order of the reference description'
    sao, sao0 = m.smiles_atoms_order, ref['sao']
    if len(sao) != len(sao0) or set(sao) != set(m._atoms):
        return 'smiles_atoms_order', f'smiles_atoms_order {sao!r} is not an order of the atoms of the molecule'
    g = dict(zip(sao0, sao))
    for n0, k0 in ref['keys'].items():
        if iso.atom_key(m._atoms[g[n0]]) != k0:
            return 'smiles_atoms_order', f'atom {g[n0]} at position {sao0.index(n0)} of smiles_atoms_order is not the atom the reference has there'
    if sum(1 for _ in m.bonds()) != len(ref['bonds']):
        return 'smiles_atoms_order', 'number of bonds differs'
    for a, b, o in ref['bonds']:
        bd = m._bonds[g[a]].get(g[b])
        if bd is None or bd.order != o:
            return 'smiles_atoms_order', f'position-wise map of smiles_atoms_order does not keep bond {a}-{b} of the reference'
    return None


def _rdkit_mol(text):
    from rdkit import Chem, RDLogger
    RDLogger.DisableLog('rdApp.*')
    try:
        return Chem.MolFromSmiles(text)
    except Exception:
        return None


def _n_labels(m):
    return sum(a.stereo is not None for _, a in m.atoms()) + sum(b.stereo is not None for *_, b in m.bonds())


def _rd_random(rm, r, variant):
    """deterministic 'random' RDKit spelling: seeded atom renumbering + rooted non-canonical output; variant 0 aromatic, 1 Kekule,
    2 aromatic with every bond written and RDKit's own random branch order, 3 Kekule with every hydrogen count written"""
    from rdkit import Chem
    n = rm.GetNumAtoms()
    order = list(range(n))
    r.shuffle(order)
    m2 = Chem.RenumberAtoms(rm, order)
    kek = variant in (1, 3)
    if kek:
        m2 = Chem.Mol(m2)
        Chem.Kekulize(m2, clearAromaticFlags=True)
    root = r.randrange(n)
    if variant == 2:
        from rdkit import rdBase
        rdBase.SeedRandomNumberGenerator(r.randrange(1, 2 ** 31 - 1))
        return Chem.MolToSmiles(m2, canonical=False, doRandom=True, allBondsExplicit=True)
    return Chem.MolToSmiles(m2, canonical=False, rootedAtAtom=root, kekuleSmiles=kek, allHsExplicit=variant == 3)


def _check_molecule(ident, m0, rec, perms, n_shuffle, n_r, n_rd, r, rd_source=None, do_remap=True, n_specs=2):
    """run every relation of C01 on one reference molecule.  `perms`: node -> atom number - 1 lists, None (seeded permutation of 1..n) or
    'sparse' (seeded numbers with gaps up to 10^5).  Returns (ncases, keys, gap, mismatches, info) where
    mismatches = [(relation, what, witness)] (first per relation)"""
    from bounded import domains as D, d01_molgen as G, d01_extra as X
    from oracles import iso
    from oracles.o01_gaps import gaps
    from oracles.o01_stereo import stereo_isomorphic
    from chython import smiles
    s0 = str(m0)
    h0 = hash(m0)
    n = len(m0)
    ncases = 0
    keys = set()
    bad = {}
    info = {'rd_unparsed': 0, 'rd_rejected': 0, 'rd_not_isomorphic': 0, 'rd_undecided': 0, 'dropped': 0, 'samples': [], 'sticky_failed': 0}
    ref = _observe_ref(m0)
    nums = list(m0._atoms)  # node v of the record is atom nums[v] of the reference (rec_of / build_rec keep the order)
    j = 0  # running index of the descriptions: rotates the option sets and the order of the first observation

    def note(rel, what, witness):
        if rel not in bad:
            bad[rel] = (rel, what, witness)

    def judge(rel, m, witness, amap, prepare=None):
        """all observables of one description; `prepare` = what turns the raw description into the normalised one"""
        nonlocal j
        j += 1
        try:
            if prepare is not None:
                m = prepare(m)
            _touch(m, j)
            d = _differs(m, m0, s0, h0)
        except Exception as e:
            note(rel, f'reading / normalising / writing the description raised {type(e).__name__}: {e}', witness)
            return
        if d:
            note(rel, d, witness)
            return
        x = _extra(m, ref, j, amap, n_specs)
        if x:
            note(f'{rel}:{x[0]}', x[1], witness)

    # renumbering + insertion order (all given permutations, then seeded ones)
    first = True
    for p in perms:
        if isinstance(p, str):  # 'sparse'
            p = X.sparse_numbers(n, r)
        m, dropped, w = G.shuffled_build(rec, r, perm=list(p) if p is not None else None)
        if first:  # harness sanity: the rebuilt molecule is the same constitution (independent enumerator)
            first = False
            if not iso.is_isomorphic(m, _kek_view(m0), hydrogens=True) and not iso.is_isomorphic(D.norm(m.copy()), m0):
                raise AssertionError(f'harness: rebuilt record is not isomorphic to its source: {ident}')
        ncases += 1
        if dropped:
            info['dropped'] += 1
        judge('renumber+insertion', m, w, {nums[v]: x + 1 for v, x in enumerate(w['perm'])}, D.norm)
        if n > 1:
            keys.add((s0, 'renumber+insertion'))
    if do_remap and n > 1:
        for _ in range(n_shuffle):
            off = r.choice((0, 0, 7, 1000, None))
            if off is None:  # numbers with gaps
                mp = dict(zip(nums, r.sample(range(1, 100000), n)))
                c = m0.copy()
                c.remap(mp)
            else:
                c, mp = D.renumber(m0, r, offset=off)
            ncases += 1
            judge('remap', c, {'remap': {str(a): b for a, b in mp.items()}}, mp)
            keys.add((s0, 'remap'))
    # re-spellings: chython's own random writer (every option of it that still writes the whole structure)
    k0 = r.randrange(len(RSPECS))
    for i in range(n_r):
        spec = RSPECS[(k0 + i) % len(RSPECS)] if i else 'r'
        if spec == 'sticky' and m0.is_radical:
            spec = 'r'
        if spec == 'sticky':
            try:
                text = _sticky(m0, r)
            except Exception:  # sticky_smiles is not an anchor of C01: a failure of it is counted, the spelling is taken from format(mol, 'r')
                info['sticky_failed'] += 1
                spec = 'r'
        if spec != 'sticky':
            text = format(m0, spec)
        ncases += 1
        judge('respell-chython', text, {'text': text, 'spec': spec}, None, lambda t: D.norm(smiles(t)))
        if text != s0 and n > 1:
            keys.add((s0, 'respell-chython'))
    # re-spellings: RDKit
    if n_rd:
        rm = _rdkit_mol(rd_source if rd_source is not None else s0)
        if rm is None or rm.GetNumAtoms() != n:
            info['rd_unparsed'] += 1
        else:
            src = rd_source if rd_source is not None else s0
            v0 = r.choice((0, 2))
            for i in range(n_rd):
                try:
                    text = _rd_random(rm, r, (v0 + i) % 4)
                except Exception:
                    info['rd_unparsed'] += 1
                    continue
                try:
                    m = smiles(text)
                    D.norm(m)
                except Exception as e:
                    # the reader (or its Kekule step) rejects the foreign text, e.g. RDKit's aromatic spelling of a ring chython does
                    # not treat as aromatic: acceptance of texts is C03 / C05, C01 speaks about descriptions that were read
                    info['rd_rejected'] += 1
                    info['samples'].append(('rejected', text, src, f'{type(e).__name__}: {e}'))
                    continue
                same = stereo_isomorphic(m0, m)
                if same is not True:
                    # precondition "s is a spelling of m": decided by the reference enumerator incl. configuration.  RDKit's writer
                    # drops / re-assigns labels it considers non-stereogenic (fused small rings, cages), such a text denotes another
                    # (less specified) structure.  Reader faults are C02's subject (write -> read under the written order).
                    info['rd_not_isomorphic' if same is False else 'rd_undecided'] += 1
                    if same is False and _n_labels(m) == _n_labels(m0):
                        info['samples'].append(('not-isomorphic', text, src, str(m)))
                    continue
                ncases += 1
                judge('respell-rdkit', m, {'text': text, 'rdkit_source': src}, None)
                if text != s0 and n > 1:
                    keys.add((s0, 'respell-rdkit'))
    gap = gaps(m0)
    return ncases, keys, gap, list(bad.values()), info


def _kek_view(m0):
    k = m0.copy()
    k.kekule()
    return k


# ---- workers --------------------------------------------------------------------------------------------------------------

def _perms_for(n, has_stereo, full_limit, k_seeded, r):
    if n <= (min(full_limit, 5) if has_stereo else full_limit):
        return list(itertools.permutations(range(n))) + ['sparse'] * min(n, 2)
    return [None if i % 4 else 'sparse' for i in range(k_seeded)]  # every fourth numbering has gaps / numbers up to 10^5


def _atlas_worker(job):
    from bounded import domains as D, d01_molgen as G
    recs, full_limit, k_seeded, n_r, n_rd, tag, n_specs = job
    res = []
    for rec in recs:
        r = D.rnd(f'{tag}:{rec["id"]}')
        random.seed(f'{env.SEED}:{tag}:{rec["id"]}')  # the library's random writer draws from the global generator
        m0, dropped0 = G.build_rec(rec)
        D.norm(m0)
        n = len(rec['atoms'])
        # fixed witnesses of the recorded defect families: enough draws to fire in every run; the writer fault of the diene family shows in
        # about one of ten random spellings, so every input its predicate holds for gets the same number of spellings
        from oracles.o01_families import diene_ring_closure_direction
        anchor = rec['id'].startswith('anchor:') or diene_ring_closure_direction(m0)
        symring = rec['id'].startswith(('sym:', 'biaryl:'))
        extra = rec['id'].startswith('x:')  # input classes of the coverage audit: every canonical option set on every description
        perms = _perms_for(n, bool(G.n_stereo(rec)), full_limit, 60 if anchor else 30 if symring else k_seeded, r)
        ncases, keys, gap, bad, info = _check_molecule(rec['id'], m0, rec, perms, 2 if extra else 1, 120 if anchor else 8 if extra else n_r,
                                                       4 if extra else n_rd, r, n_specs=len(SPECS) if extra else n_specs)
        res.append((rec['id'], str(m0), ncases, keys, gap, bad, info, _n_labels(m0), _family(m0, gap, bad)))
    return res


def _family(m0, gap, bad):
    """root-cause family of an input outside the documented gaps (independent predicates of oracles/o01_families.py), whether it fails or
    not: members that pass are counted (`family_members_passing`), a family predicate must not hold for inputs it does not explain"""
    if gap[0] or gap[1]:
        return None
    from oracles.o01_families import c01_family
    return c01_family(m0, {b[0].split(':')[0] for b in bad})


def _corpus_worker(job):
    from bounded import domains as D, d01_molgen as G
    texts, n_perm, n_r, n_rd, tag, n_specs = job
    res = []
    for text in texts:
        r = D.rnd(f'{tag}:{text}')
        random.seed(f'{env.SEED}:{tag}:{text}')
        m0 = D.parse(text)
        rec = G.rec_of(m0, text)
        from oracles.o01_families import diene_ring_closure_direction
        ncases, keys, gap, bad, info = _check_molecule(text, m0, rec, [None] * (n_perm - 1) + ['sparse'], 1,
                                                       120 if diene_ring_closure_direction(m0) else n_r, n_rd, r, rd_source=text, n_specs=n_specs)
        res.append((text, str(m0), ncases, keys, gap, bad, info, _n_labels(m0), _family(m0, gap, bad)))
    return res


# ---- driver ---------------------------------------------------------------------------------------------------------------

def bounded(run):
    env.setup()
    from bounded import domains as D, d01_molgen as G
    from oracles import iso
    from oracles.o01_stereo import stereo_isomorphic
    quick = run.tier == 'quick'
    max_nodes, full_limit, trials = (6, 5, 6) if quick else (7, 6, 7)
    k_seeded = 20
    n_corpus = 300 if quick else None
    run.assume('oracles/iso.py: exhaustive attribute-aware isomorphism / automorphism enumerator is the judge of "same structure" '
               '(specification, not verified)',
               'oracles/o01_gaps.py: the two documented gaps of C01 are decided on orbits of the stereo-free graph with the predicates '
               'fixed in DESIGN section 2 C01 (automorphism enumeration capped at 20000 per molecule)',
               'oracles/o01_stereo.py: "same structure incl. configuration" = some constitutional isomorphism maps every tetrahedral / '
               'allene / cis-trans label onto an equal one (uses only the stored-sign convention, never the canonicaliser)',
               'RDKit 2026.03 is an independent SMILES writer (seeded atom order, aromatic and Kekule style); a RDKit text is used as a '
               're-spelling only if the molecule read from it is isomorphic incl. configuration to the original for oracles/o01_stereo.py '
               '(RDKit drops / re-assigns labels in fused small rings); texts rejected by the reader are counted, not judged (C03/C05)',
               'kekule(); thiele() is the aromaticity normal form of the statement ("once aromaticity is normalised")',
               'hash agreement is checked inside one process (PYTHONHASHSEED fixed per process; cross-process stability is C19)')

    recs = G.atlas_records(max_nodes, trials)
    recs += G.ion_records()
    for i, s in enumerate(G.SPECIAL_SMILES):
        m = D.parse(s)
        recs.append(G.rec_of(m, f'special:{s}', hydrogens=True))
    sym = G.symmetric_ring_records(extra=1 if quick else 3)
    sym += [G.rec_of(D.parse(s), f'biaryl:{s}') for s in G.BIARYL_SMILES]
    run.bound(f'symmetric ring systems: {len(sym)} spiro / fused / bridged bicyclic and dispiro tricyclic systems (ring sizes 3-7, two constitutionally '
              f'identical rings, O / N / S / N-N / C=O at every position, both relative orientations, seeded two-substituent patterns) and '
              f'{len(G.BIARYL_SMILES)} symmetric biaryl / fused aromatic systems x 30 seeded numberings + insertion orders, remap, 3 + 2 re-spellings')
    recs += sym
    from bounded import d01_extra as X
    xrecs = [rec for _, rec in X.class_records()] + X.closure_records(1 if quick else 3) + (X.closure_records(1, 60) if not quick else [])
    run.bound(f'input classes of the coverage audit (bounded/d01_extra.py): {len(xrecs)} fixed molecules - ' +
              ', '.join(f'{len(v)} {k}' for k, v in X.CLASSES.items()) + f', {len(xrecs) - sum(map(len, X.CLASSES.values()))} with >= 10 open ring '
              f'closures - x {k_seeded} seeded numberings + insertion orders (all n! for n <= {full_limit}), 2 remap, 8 chython and 4 RDKit '
              f're-spellings, every canonical option set on every description')
    recs += xrecs
    from oracles.o01_families import ANCHORS
    anchors = [G.rec_of(D.parse(s), f'anchor:{s}') for fam in ANCHORS.values() for s in fam]
    run.bound(f'anchors: {len(anchors)} fixed witnesses of the recorded defect families (oracles/o01_families.py), identical in every tier / seed, '
              f'60 seeded numberings (all n! for n <= {full_limit}) and 120 random spellings each')
    recs = anchors + recs
    by_id = {rec['id']: rec for rec in recs}
    run.bound(f'decorated graph atlas: every connected graph <= {max_nodes} nodes, max degree 4, {trials} seeded decorations (2x for trees) '
              f'+ charge/isotope/radical variants + spectator components + every 2^k labelling (k <= 4) of the stereo elements chython '
              f'perceives (atlas part: valence-valid only) + pairs of spectator ions + {len(G.SPECIAL_SMILES)} hand-written molecules: {len(recs)} molecules')
    run.bound(f'atlas permutations: all n! numberings for n <= {full_limit} (n <= 5 when the molecule carries stereo labels), {k_seeded} seeded '
              f'numberings above; each with a seeded atom / bond insertion order and bond direction; + 1 remap(); 3 chython random '
              f'spellings; 2 RDKit random spellings')
    n_specs, n_specs_corpus = (1, 2) if quick else (2, 3)
    run.bound(f'atom numbers: 1..n permuted; every fourth seeded rebuild (2 extra ones where all n! are run, 1 of 3 in the corpus) and a fifth of '
              f'the remap() calls use n distinct numbers drawn from 0..10^5 (gaps, not in order, > 999, > 65535); remap() offsets 0 / 7 / 1000')
    run.bound(f'observables per description: str, ==, !=, hash; then {n_specs} (corpus: {n_specs_corpus}) of the {len(SPECS)} canonical option sets of format(mol, spec) '
              f'{SPECS} (rotating with the description index; all of them for the audit classes; atom-map numbers of "m" stripped), atoms_order '
              f'(class sizes; equality with the renumbered reference classes when the atom map is known: rebuilds and remap), '
              f'smiles_atoms_order (position-wise map onto the reference order keeps atoms and bond orders); the first observation rotates '
              f'between str, smiles_atoms_order, format(mol, "", _return_order=True) and hash + .smiles')
    run.bound(f're-spelling writers: format(mol, spec) for spec in {RSPECS[:-1]} and sticky_smiles(left[, right]) with seeded ends (first spelling always "r"); RDKit: aromatic / Kekule rooted '
              f'non-canonical output of a renumbered molecule, doRandom + allBondsExplicit, Kekule + allHsExplicit (rotating)')
    # larger molecules first inside round-robin chunks to balance load
    recs_sorted = anchors + sorted(recs[len(anchors):], key=lambda x: -len(x['atoms']))
    nchunk = max(env.NPROC * 6, 1)
    jobs = [(recs_sorted[i::nchunk], full_limit, k_seeded, 3, 2, 'b01a', n_specs) for i in range(nchunk) if recs_sorted[i::nchunk]]
    atlas_res = [x for part in pmap(_atlas_worker, jobs) for x in part]
    atlas_res.sort(key=lambda x: (not x[0].startswith('anchor:'),))  # anchors first: they become the recorded witnesses

    texts = D.corpus_sample(n_corpus, tag='b01-corpus')
    texts = list(dict.fromkeys(texts))
    run.bound(f'corpus: {len(texts)} distinct SMILES of pach/lipophilicity.csv x (3 seeded renumbering+insertion-order rebuilds from the '
              f'Kekule form + 1 remap + 3 chython random spellings + 3 RDKit random spellings, RDKit reading the original text)')
    nchunk = max(env.NPROC * 4, 1)
    jobs = [(texts[i::nchunk], 3, 3, 3, 'b01c', n_specs_corpus) for i in range(nchunk) if texts[i::nchunk]]
    corpus_res = [x for part in pmap(_corpus_worker, jobs) for x in part]

    notes = {'gap1_molecules': 0, 'gap2_molecules': 0, 'gap_hits': 0, 'gap_hit_samples': [], 'rdkit_unparsed': 0,
             'rdkit_text_rejected_by_reader': 0, 'rdkit_text_not_stereo_isomorphic': 0, 'rdkit_text_undecided': 0,
             'rdkit_samples': [], 'labels_not_accepted_on_rebuild': 0, 'molecules': 0, 'stereo_molecules': 0, 'families': {}, 'sticky_smiles_failed': 0}
    by_string = {}
    for domain, res in (('atlas', atlas_res), ('corpus', corpus_res)):
        for ident, s0, ncases, keys, gap, bad, info, nlab, fam in res:
            notes['molecules'] += 1
            notes['stereo_molecules'] += bool(nlab)
            notes['gap1_molecules'] += gap[0]
            notes['gap2_molecules'] += gap[1]
            notes['rdkit_unparsed'] += info['rd_unparsed']
            notes['rdkit_text_rejected_by_reader'] += info['rd_rejected']
            notes['rdkit_text_not_stereo_isomorphic'] += info['rd_not_isomorphic']
            notes['rdkit_text_undecided'] += info['rd_undecided']
            for x in info['samples']:
                if len(notes['rdkit_samples']) < 10:
                    notes['rdkit_samples'].append(list(x))
            notes['labels_not_accepted_on_rebuild'] += info['dropped']
            notes['sticky_smiles_failed'] += info['sticky_failed']
            run.case(ncases)
            for k in keys:
                run.case(0, key=k)
            if notes['molecules'] % 97 == 1:
                run.case(0, sample={'domain': domain, 'input': ident, 'canonical': s0, 'evaluations': ncases,
                                    'relations': sorted({k[1] for k in keys}), 'gap': list(gap)})
            by_string.setdefault(s0, []).append((domain, ident))
            if fam:
                st = notes['families'].setdefault(fam, {'members': 0, 'failing': 0, 'passing_samples': []})
                st['members'] += 1
                st['failing'] += bool(bad)
                if not bad and len(st['passing_samples']) < 5:
                    st['passing_samples'].append(ident)
            if not bad:
                continue
            if gap[0] or gap[1]:
                notes['gap_hits'] += len(bad)
                for rel, what, witness in bad:
                    if len(notes['gap_hit_samples']) < 12:
                        notes['gap_hit_samples'].append({'input': ident, 'gap': 1 if gap[0] else 2, 'relation': rel, 'what': what})
                continue
            rel, what, witness = bad[0]
            run.violation(f'c01:{fam}' if fam else f'c01:{_h(ident)}:{ident}',
                          (f'[family {fam}] ' if fam else '') + f'C01 {rel}: {what} [{domain} input {ident}]' +
                          (f' (also: {", ".join(b[0] for b in bad[1:])})' if len(bad) > 1 else ''),
                          witness={'domain': domain, 'input': ident, 'record': by_id.get(ident), 'relation': rel, **witness},
                          native={'reference': s0, 'differences': {b[0]: b[1] for b in bad}})

    # the empty molecule: two empty containers are two descriptions of one structure
    from chython import MoleculeContainer
    run.case(1, key=('', 'empty'))
    try:
        e1, e2 = MoleculeContainer(), MoleculeContainer()
        ok = str(e1) == str(e2) == '' and e1 == e2 and hash(e1) == hash(e2) and e1.atoms_order == {} and tuple(e1.smiles_atoms_order) == ()
        what = None if ok else f'empty molecules: str {str(e1)!r} / {str(e2)!r}, == {e1 == e2}, hashes {hash(e1)} / {hash(e2)}'
    except Exception as e:
        what = f'str / == / hash of an empty MoleculeContainer raised {type(e).__name__}: {e}'
    if what:
        run.violation('c01:empty-molecule', f'C01 empty: {what}', witness={'relation': 'empty'}, native={'outcome': what})

    # no over-merging: molecules sharing a canonical string are isomorphic for the reference enumerator
    def mol_of(domain, ident):
        if domain == 'atlas':
            return D.norm(G.build_rec(by_id[ident])[0])
        return D.parse(ident)

    # == / != of different structures: neighbours in the sorted list of canonical strings (closest texts: stereo isomers, isotopologues, charge
    # variants) never compare equal; the strings differ, so this reads Smiles.__eq__ / __ne__ only
    strings = sorted(by_string)
    step = max(1, len(strings) // (400 if quick else 2000))
    n_ne = 0
    for sa, sb in zip(strings[::step], strings[1::step]):
        ma, mb = mol_of(*by_string[sa][0]), mol_of(*by_string[sb][0])
        if str(ma) != sa or str(mb) != sb:
            continue  # a member of a recorded family / gap rebuilt with another tie: judged above
        n_ne += 1
        run.case(1, key=(sa, 'not-equal'))
        if (ma == mb) or (mb == ma) or not (ma != mb) or not (mb != ma):
            run.violation(f'not-equal:{_h(sa + sb)}:{sa}|{sb}', f'C01 ==: molecules with the canonical strings {sa!r} and {sb!r} compare equal (or != is not the negation of ==)',
                          witness={'relation': 'not-equal', 'a': by_string[sa][0], 'b': by_string[sb][0], 'record_a': by_id.get(by_string[sa][0][1]),
                                   'record_b': by_id.get(by_string[sb][0][1])}, native={'a': sa, 'b': sb})
    run.bound(f'== / != of different structures: {n_ne} pairs of neighbouring canonical strings of the domain (every {step}th), both directions')
    pairs = 0
    for s0, members in by_string.items():
        if len(members) < 2:
            continue
        ref = mol_of(*members[0])
        for other in members[1:]:
            pairs += 1
            if stereo_isomorphic(ref, mol_of(*other)) is False:
                run.violation(f'collision:{_h(members[0][1] + other[1])}:{members[0][1]}|{other[1]}',
                              f'C01 over-merge: non-isomorphic molecules share the canonical string {s0!r}',
                              witness={'relation': 'collision', 'a': members[0], 'b': other, 'record_a': by_id.get(members[0][1]),
                                       'record_b': by_id.get(other[1])}, native={'string': s0})
            run.case(1, key=(s0, 'collision'))
    # ... and stereo-free atlas decorations of one graph that are isomorphic have one string (two descriptions of one structure)
    buckets = {}
    for ident, s0, *_rest, nlab, _fam in atlas_res:
        rec = by_id[ident]
        if nlab or G.n_stereo(rec):
            continue
        inv = (tuple(sorted(map(repr, rec['atoms']))), tuple(sorted(o for *_, o in rec['bonds'])))
        buckets.setdefault(inv, []).append((ident, s0))
    from oracles.o01_gaps import gaps
    from oracles.o01_families import c01_family
    for inv, members in buckets.items():
        for (ia, sa), (ib, sb) in itertools.combinations(members, 2):
            if sa == sb:
                continue
            ma, mb = mol_of('atlas', ia), mol_of('atlas', ib)
            pairs += 1
            run.case(1, key=(sa, 'iso-pair'))
            if iso.is_isomorphic(ma, mb):
                if any(gaps(ma)):
                    notes['gap_hits'] += 1
                    continue
                fam = c01_family(ma, {'iso-pair'})
                run.violation(f'c01:{fam}' if fam else f'iso-pair:{_h(ia + ib)}:{ia}|{ib}', f'C01: isomorphic molecules with canonical strings {sa!r} and {sb!r}',
                              witness={'relation': 'iso-pair', 'record_a': by_id[ia], 'record_b': by_id[ib]},
                              native={'a': sa, 'b': sb})
    notes['distinct_canonical_strings'] = len(by_string)
    notes['pairs_judged_by_isomorphism_oracle'] = pairs
    run.bound(f'injectivity: all pairs of the {notes["molecules"]} domain molecules (grouped by canonical string; {pairs} pairs judged by the '
              f'reference enumerator)')
    run.notes.update(notes)


# ---- replay ---------------------------------------------------------------------------------------------------------------

def replay(rec):
    """re-run the witness natively; True if the property holds for it on the current tree"""
    env.setup()
    from bounded import domains as D, d01_molgen as G
    from oracles import iso
    from chython import smiles
    w = rec['witness']
    rel = w['relation']

    def source(record, ident, domain='atlas'):
        if record is not None:
            record = _unjson(record)
            return D.norm(G.build_rec(record)[0]), record
        m = D.parse(ident)
        return m, G.rec_of(m, ident)

    if rel == 'empty':
        from chython import MoleculeContainer
        try:
            e1, e2 = MoleculeContainer(), MoleculeContainer()
            print('  str:', repr(str(e1)), ' ==:', e1 == e2, ' hashes equal:', hash(e1) == hash(e2))
            return str(e1) == '' and e1 == e2 and hash(e1) == hash(e2)
        except Exception as e:
            print(f'  {type(e).__name__}: {e}')
            return False
    if rel == 'not-equal':
        a = source(w.get('record_a'), w['a'][1])[0]
        b = source(w.get('record_b'), w['b'][1])[0]
        print('  a:', str(a), ' b:', str(b), ' ==:', a == b, ' !=:', a != b)
        return str(a) == str(b) or (not (a == b) and not (b == a) and (a != b) and (b != a))
    if rel == 'collision':
        a = source(w.get('record_a'), w['a'][1])[0]
        b = source(w.get('record_b'), w['b'][1])[0]
        print('  a:', str(a), ' b:', str(b))
        return str(a) != str(b) or iso.is_isomorphic(a, b)
    if rel == 'iso-pair':
        a = source(w['record_a'], None)[0]
        b = source(w['record_b'], None)[0]
        print('  a:', str(a), ' b:', str(b))
        return str(a) == str(b) or not iso.is_isomorphic(a, b)
    m0, record = source(w.get('record'), w['input'])
    base = rel.split(':')[0]
    amap = None
    nums = list(m0._atoms)
    if base == 'renumber+insertion':
        m, _ = G.build_rec(record, w['perm'], w['node_order'], w['edge_order'], set(w['flip_edges']))
        D.norm(m)
        amap = {nums[v]: x + 1 for v, x in enumerate(w['perm'])}
    elif base == 'remap':
        m = m0.copy()
        amap = {int(a): b for a, b in w['remap'].items()}
        m.remap(amap)
    else:
        m = smiles(w['text'])
        D.norm(m)
    print('  reference:', str(m0), ' other description:', str(m), ' ==:', m == m0, ' hashes equal:', hash(m) == hash(m0))
    if _differs(m, m0, str(m0), hash(m0)) is not None:
        return False
    x = _extra(m, _observe_ref(m0), 0, amap, len(SPECS))
    if x:
        print('  ', x[1])
    return x is None


def _unjson(record):
    r = dict(record)
    r['atoms'] = [tuple(a) for a in r['atoms']]
    r['bonds'] = [tuple(b) for b in r['bonds']]
    r['tet'] = [(c, tuple(e), s) for c, e, s in r.get('tet', ())]
    r['ct'] = [tuple(x) for x in r.get('ct', ())]
    r['al'] = [tuple(x) for x in r.get('al', ())]
    return r
