"""C17 - see DESIGN.md §2 C17.  Deductive parts (contracts/) are added to this module as they are built; the bounded stand-in is checks/b17.py."""
from vlib import env
from checks.common import anchored, bounded_part, want, contract_sources, make_replay, t_oblig
from pysym.harness import run_cases

LEVEL = 'exploration'
DEDUCTIVE = [('contracts.hashes', ('Fingerprints', 'CANARY')), ('contracts.fingerprints', None)]          # (contract module, case-name filter) run by engine P
FINISH = dict(rule='deductive: one obligation per path / table key; B: see run.bound entries of checks/b17.py',
              explanation='F: no memoised value read by this property\'s observables survives an edit it depends on (one obligation per covered mutator x cached key); P: folded indices are exactly the number_active_bits lowest log2(length)-bit windows of every 64-bit hash (lengths 2^1..2^20, active bits 1..8), identifiers hash exactly (isotope|0, Z, charge, radical); B: path sets, iterated hashing, invariance under renumbering',
              trusted_base=['CPython', 'z3', 'pysym', 'oracles/o17_ref.py'])
replay = make_replay('C17')


def deductive(run):
    for mod, flt in DEDUCTIVE:
        run_cases(run, mod, select=(lambda c, flt=flt: flt is None or any(x in c.name for x in flt)))


def main(run):
    env.setup()
    if want(run, 'P') or want(run, 'T'):
      with anchored(run, 'C17/P'):
        deductive(run)
    if want(run, 'F'):
      with anchored(run, 'C17/F'):
        # fingerprints are functions of the current structure: no memoised value they read survives an edit it depends on (engine F, keys read by these observables)
        from checks.fpart import run_F
        run_F(run, entry_points=['linear_fingerprint', 'morgan_fingerprint', 'linear_hash_set', 'morgan_hash_set', 'linear_bit_set', 'morgan_bit_set', 'linear_hash_smiles', 'morgan_hash_smiles', '_atom_identifiers', '_fragments', '_morgan_hash_dict'])
    bounded_part(run, 'C17')
    return FINISH
