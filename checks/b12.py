"""C12 bounded stand-in (engine B): stereo signs are permutation-consistent and agree with an independent toolkit.

Contracts (from the property statement; oracles in oracles/o12_stereo.py, oracles/iso.py, RDKit):
 1 spellings   - every generated spelling of ONE tetrahedral centre / double bond / allene: RDKit(input text) == RDKit(str(parsed));
                 spellings of one configuration class (class computed from the template by the OpenSMILES reading rules and
                 inversion parity, never by parsing) give ONE canonical string, different classes different strings.
 2 labelings   - molecules with <= 8 stereo elements, every element with constitutionally distinct substituents: all 2^k labelings
                 (k <= 4, seeded sample above): str equal <=> the labelings are the same stereoisomer (automorphisms of the stereo-free
                 graph acting on labelings - independent); mirror image / E-Z change unequal unless that oracle says identical;
                 RDKit canonical strings partition the labelings the same way (no cumulenes: RDKit has no allene stereo);
                 every random-order / option spelling written by chython has the RDKit canonical string of str(m);
                 _translate_*_sign: stored bit read back; flips exactly on odd permutations / exchange at exactly one end.
 3 stereogenic - a mark on a centre with two identical substituents is dropped at parsing; an edit that makes two substituents
                 equal (or removes one) removes the label in fix_stereo, an edit that keeps them distinct keeps it (RDKit's possible
                 centres as judge); a carbon centre with constitutionally distinct substituents is perceived as chiral.
 4 wedges      - allenes: the wedge chython writes, read by an independent 3D determinant, is the arrangement its SMILES mark names;
                 inverting the wedge in the block gives the mirror image on reading (no toolkit has allene stereo).
                 chython molblock (clean2d + SDF writer) read by RDKit == RDKit(str(m)) (tetrahedral part; the layout routine is
                 stereo-blind so cis/trans geometry is not part of this contract); RDKit-drawn molblock (wedges + 2D geometry) read by
                 chython (calc_cis_trans) == original.
 5 audit ext.  - (coverage audit; oracles/o12_more.py, bounded/d12_more.py) spellings with atom maps / bond symbols / reader keywords / reaction
                 SMILES / marks on both digits of a closure / %nn / cumulenes / H-allenes under contract 1; per molecule: add_*_stereo through
                 every neighbour order, hydrogen slot and call direction, fix_stereo fixpoint, single edits outside transactions with the
                 configuration RDKit derives after the same edit, one wedge on every bond of a centre (explicit H, allenes with 2-4
                 substituents) against RDKit / an independent 3D reading, calculate_cis_trans_from_2d against RDKit / a same-side test
                 (cumulenes), the RDKit bridge; all contracts also on molecules whose atom numbers are descending and with gaps.
"""
import io
import itertools

from vlib import env
from vlib.report import pmap

RULE = ('non-trivial = the input carries at least one stereo element that is perceived (a mark that is read, a labeling that is '
        'applied, an edit on a labelled centre); keys are the spelled text or (stereo-free canonical string, contract)')

GENERATED = ['OC(=O)C(O)C(O)C(=O)O', 'CC(O)C(O)C', 'CC(F)C(Cl)C(Br)C=CC', 'CC(F)C(F)C(F)C', 'FC=CC=CCl', 'CC=CC(O)C=CC',
             'CC(O)C=CC(O)C', 'FC=CC=CF', 'CC(Cl)C(C)(O)C(F)C', 'NC(C)C(=O)NC(CO)C(=O)O', 'CC(N)C(O)C(F)C(Cl)C',
             # rings
             'CC1CCCC(O)C1', 'CC1CC(O)C1', 'CC1CCC(O)CC1', 'OC1CCCCC1N', 'OCC1OC(O)C(O)C(O)C1O', 'CC1CC2CCC1C2', 'C1CCC2CCCCC2C1',
             'CC1OC(C)C(O)C1', 'CC1CC1C', 'CC1CC1O', 'OC1CCC2CCCCC2C1', 'C1CCCCCCC=CC1', 'C1CCCCCC=CCCC1', 'CC1CCCCCCC=CC1',
             # ring linkers (spiro) and ring-attached double bonds
             'O1CCCC12CCCN2', 'CC1CCC2(CC1)CCC(C)CC2', 'CC1CCC2(C1)CCCO2', 'CC1CCCC(=CC)C1', 'CC1CCC(=CC)CC1', 'CC1CCCC(=C2CCCC(C)C2)C1',
             'CC=C1CCCO1', 'CC1CCCC(=C=CC)C1',
             # cumulenes
             'FC(Cl)=C=C(Br)I', 'CC=C=CC', 'FC=C=C=CCl', 'CC(F)C=C=CCl', 'FC=C=C=C=CCl', 'CC=C=C=CC', 'CC(O)C=C=CC(N)C', 'FC=C=CC=CCl',
             # explicit hydrogens
             '[H]C(F)(Cl)Br', '[H]C(F)=CCl', '[H]C(F)=C([H])Cl', '[H]C(C)(O)C=CC', '[H]C(F)=C=CCl', 'CC([H])(O)C([H])(N)C',
             # audit: several components, hetero double bonds, isotopes / charges, in-ring cumulenes, allenes with 2-3 substituents and explicit H,
             # centres surrounded by centres
             'FC(Cl)Br.O', 'CC(O)CC.CC(N)CC', 'FC=CCl.CC(F)Cl', 'CC=NO', 'CC(F)=NO', 'CN=NC', 'CC=[N+](C)[O-]', '[13CH3]C(C)O', 'C[13CH]=CC',
             'CC([NH3+])C(=O)[O-]', 'C1CCCCC=C=CCC1', 'CC1CCCC=C=C1', 'FC=C=CCl', 'FC=C=C(Cl)Br', '[H]C(F)=C=C([H])Cl', '[H]C(F)=C=C(Cl)Br',
             'CC(F)C(C(Cl)C)(C(Br)C)C(O)C', 'CC(F)C(C(Cl)C)C(Br)C', 'FC(Cl)C(F)(Cl)C(F)Cl', 'CC(O)C=C=CC=CC',
             # audit: pairs of constitutionally equivalent allenes / double bonds (meso-type identities; the group branches of the chiral Morgan)
             'CC=C=CCCC=C=CC', 'CC=CCCC=CC', 'FC=C=CCC=C=CF', 'CC=C=CC(O)C=C=CC']


# ---- helpers -----------------------------------------------------------------------------------------------------------------
def _strip(m):
    c = m.copy()
    for _, a in c.atoms():
        a._stereo = None
    for *_, b in c.bonds():
        b._stereo = None
    c.flush_cache()
    return c


def _n_labels(m):
    return sum(a.stereo is not None for _, a in m.atoms()) + sum(b.stereo is not None for *_, b in m.bonds())


def _elements(base):
    st, sct, sal = base.stereogenic_tetrahedrons, base.stereogenic_cis_trans, base.stereogenic_allenes
    E = []
    for n in sorted(base.chiral_tetrahedrons):
        E.append(('t', n, tuple(st[n])))
    for nm in sorted(base.chiral_cis_trans):
        n1, m1, n2, m2 = sct[nm]
        E.append(('c', nm, (n1, m1), (n1, n2), (m1, m2)))
    for c in sorted(base.chiral_allenes):
        n1, m1, n2, m2 = sal[c]
        E.append(('a', c, (n1, m1), (n1, n2), (m1, m2), tuple(base._stereo_allenes_terminals[c])))
    return E


def _distinct(E, orb):
    """domain predicate of the property: every element has constitutionally distinct substituents (independent orbit oracle)"""
    for e in E:
        if e[0] == 't':
            if len({orb[x] for x in e[2]}) != len(e[2]):
                return False
        else:
            for a, b in (e[3], e[4]):
                if b is not None and orb[a] == orb[b]:
                    return False
    return True


def _label(base, E, L):
    c = base.copy()
    for e, b in zip(E, L):
        if e[0] == 't':
            c.add_atom_stereo(e[1], e[2], bool(b))
        elif e[0] == 'c':
            c.add_cis_trans_stereo(e[1][0], e[1][1], e[2][0], e[2][1], bool(b))
        else:
            c.add_atom_stereo(e[1], e[2], bool(b))
    return c


def _gap1(m, orb):
    """C01 gap 1 (DESIGN §2 C01): a stereo label on a centre (or double-bond end) two of whose substituents lie in one orbit"""
    st, sal, sct = m.stereogenic_tetrahedrons, m.stereogenic_allenes, m.stereogenic_cis_trans
    for n, a in m.atoms():
        if a.stereo is None:
            continue
        if n in st:
            e = st[n]
            if len({orb[x] for x in e}) < len(e):
                return True
        elif n in sal:
            n1, m1, n2, m2 = sal[n]
            if (n2 is not None and orb[n1] == orb[n2]) or (m2 is not None and orb[m1] == orb[m2]):
                return True
    for n, k, b in m.bonds():
        if b.stereo is not None:
            n1, m1, n2, m2 = sct[m._stereo_cis_trans_terminals[n]]
            if (n2 is not None and orb[n1] == orb[n2]) or (m2 is not None and orb[m1] == orb[m2]):
                return True
    return False


def _molblock(m):
    from chython import SDFWrite
    f = io.StringIO()
    with SDFWrite(f) as w:
        w.write(m)
    return f.getvalue().split('M  END')[0] + 'M  END\n'


def _rd_tetra_only(mol):
    from rdkit import Chem
    for a in mol.GetAtoms():
        a.SetAtomMapNum(0)
    for b in mol.GetBonds():
        b.SetStereo(Chem.BondStereo.STEREONONE)
        b.SetBondDir(Chem.BondDir.NONE)
    return Chem.MolToSmiles(mol)


def _det3(a, b, c):
    return a[0] * (b[1] * c[2] - b[2] * c[1]) - a[1] * (b[0] * c[2] - b[2] * c[0]) + a[2] * (b[0] * c[1] - b[1] * c[0])


def _geom_mark(P):
    """independent geometric reading of a tetrahedral arrangement: P = 3D positions of the four neighbours in written order.
    '@' = seen from the first neighbour the other three run anticlockwise.  With n1 = (0,0,1) and n2, n3, n4 anticlockwise in the
    plane z = 0 (seen from +z) det[n2-n1, n3-n1, n4-n1] = -2.6 < 0, so '@' <=> det < 0."""
    a, b, c, d = P
    v = _det3([b[i] - a[i] for i in range(3)], [c[i] - a[i] for i in range(3)], [d[i] - a[i] for i in range(3)])
    return '@' if v < 0 else '@@' if v > 0 else None


def _v2000(block):
    """minimal V2000 reader (fixed columns): [(x, y)], [(i, j, order, stereo flag)] with 0-based atom indices"""
    lines = block.split('\n')
    na, nb = int(lines[3][:3]), int(lines[3][3:6])
    xy = [(float(l[:10]), float(l[10:20])) for l in lines[4:4 + na]]
    bonds = [(int(l[:3]) - 1, int(l[3:6]) - 1, int(l[6:9]), int(l[9:12])) for l in lines[4 + na:4 + na + nb]]
    return xy, bonds


def _ill_conditioned(block, tol=.2):
    """a wedge starts at a centre with three drawn neighbours whose two plain bonds are (anti)parallel within asin(tol): the drawing
    does not determine a configuration (IUPAC 2006 graphical representation rules ST-1.1.10) - the layout routine is randomised and
    stereo-blind, such drawings are outside the contract"""
    xy, bonds = _v2000(block)
    nb = {}
    for i, j, o, f in bonds:
        nb.setdefault(i, []).append(j)
        nb.setdefault(j, []).append(i)
    for i, j, o, f in bonds:
        if f in (1, 6) and len(nb[i]) == 3:
            a, b = [x for x in nb[i] if x != j]
            ax, ay = xy[a][0] - xy[i][0], xy[a][1] - xy[i][1]
            bx, by = xy[b][0] - xy[i][0], xy[b][1] - xy[i][1]
            la, lb = (ax * ax + ay * ay) ** .5, (bx * bx + by * by) ** .5
            if not la or not lb or abs(ax * by - ay * bx) / (la * lb) < tol:
                return True
    return False


def _allene_wedges(m, out):
    """4c: allenes with four heavy substituents - the wedge chython writes, read by an independent 3D determinant, must give the mark
    chython writes in SMILES (extended tetrahedral rule); the same block with the wedge inverted must be read back as the mirror image"""
    from chython import mdl_mol
    from bounded import domains as D
    sal = m.stereogenic_allenes
    cs = [n for n, a in m.atoms() if a.stereo is not None and n in sal and None not in sal[n]]
    if len(cs) != 1 or _n_labels(m) != 1 or m.rings_count:
        return
    c = cs[0]
    k = m.copy()
    k.kekule()
    try:
        k.clean2d()
    except Exception:
        out.note('clean2d-failed')
        return
    try:
        blk = _molblock(k)
    except Exception as e:
        out.v(f'allene-wedge-write:{m}', f'writing the molblock of {m} raises {type(e).__name__}: {e}', witness={'smiles': str(m)})
        return
    xy, bonds = _v2000(blk)
    nums = list(k)
    wedges = [(nums[i], nums[j], 1 if f == 1 else -1) for i, j, o, f in bonds if f in (1, 6)]
    smi, order = m.__format__('', _return_order=True)
    pos = {n: i for i, n in enumerate(order)}
    t1, t2 = m._stereo_allenes_terminals[c]
    if pos[t1] > pos[t2]:
        t1, t2 = t2, t1
    sub = lambda t: sorted((x for x in m._bonds[t] if x in sal[c]), key=pos.get)
    nb = sub(t1) + sub(t2)
    written = '@@' if '@@' in smi else '@'
    out.case(1, key=('allene-wedge', str(m)), sample={'contract': 'allene wedge vs 3D determinant', 'smiles': str(m), 'wedges': wedges})
    if len(wedges) != 1 or wedges[0][0] not in (t1, t2) or wedges[0][1] not in nb:
        out.v(f'allene-wedge-write:{m}', f'molblock of {m} carries wedges {wedges}: expected exactly one from an allene end to its substituent',
              witness={'smiles': str(m), 'molblock': blk}, native=wedges)
        return
    wt, ws, v = wedges[0]
    z = dict.fromkeys(nb, 0)
    z[ws] = v
    z[next(x for x in sub(wt) if x != ws)] = -v
    coord = dict(zip(nums, xy))
    got = _geom_mark([(*coord[x], z[x]) for x in nb])
    if got != written:
        out.v(f'allene-wedge-write:{m}', f'wedge written for {m} ({wt}->{ws} {"up" if v > 0 else "down"}) is the arrangement {got} for the written '
              f'neighbour order {nb}, the SMILES says {written}', witness={'smiles': str(m), 'molblock': blk}, native={'geometric': got, 'smiles': smi})
    for flip in (False, True):
        b2 = blk
        if flip:
            lines = blk.split('\n')
            na = int(lines[3][:3])
            for i in range(4 + na, len(lines)):
                if len(lines[i]) >= 12 and lines[i][9:12] in ('  1', '  6') and lines[i][:1] == ' ' and not lines[i].startswith('M'):
                    lines[i] = lines[i][:9] + ('  6' if lines[i][9:12] == '  1' else '  1') + lines[i][12:]
            b2 = '\n'.join(lines)
        back = mdl_mol(b2)
        D.norm(back)
        mark = ('@@' if '@@' in str(back) else '@' if '@' in str(back) else None)
        exp = written if not flip else ('@' if written == '@@' else '@@')
        out.case(1)
        if format(back, '!s') != format(m, '!s') or mark != exp:
            out.v(f'allene-wedge-read:{m}:{"inverted" if flip else "same"}', f'molblock of {m} with the wedge {"inverted" if flip else "as written"} '
                  f'is read as {back}; expected the {"mirror image" if flip else "same molecule"}', witness={'smiles': str(m), 'molblock': b2},
                  native=str(back))


class _Out:
    def __init__(self):
        self.n = 0
        self.keys = []
        self.samples = []
        self.viol = []
        self.gaps = 0
        self.notes = {}

    def case(self, n=1, key=None, sample=None):
        self.n += n
        if key is not None:
            self.keys.append(key)
        if sample is not None and len(self.samples) < 3 and all(x.get('contract') != sample.get('contract') for x in self.samples):
            self.samples.append(sample)

    def v(self, key, what, witness=None, native=None):
        self.viol.append((key, what, witness, native))

    def note(self, k, n=1):
        self.notes[k] = self.notes.get(k, 0) + n

    def pack(self):
        return self.n, self.keys, self.samples, self.viol, self.gaps, self.notes


# ---- part 1: spellings ---------------------------------------------------------------------------------------------------------
def _spellings(chunk):
    from chython import smiles
    from oracles import o12_stereo as O
    res = []
    for item in chunk:
        text, fam, form, cls = item[:4]
        kw = item[4] if len(item) > 4 else {}
        rdtext = (item[5] if len(item) > 5 else None) or text
        try:
            m = smiles(text, **kw)
            if '>' in text:     # reaction SMILES: the one molecule that carries the stereo element (halogen atoms)
                ms = [x for x in m.molecules() if any(a.atomic_symbol in ('F', 'Cl', 'Br', 'I') for _, a in x.atoms())]
                if len(ms) != 1:
                    raise RuntimeError(f'generator: {text} has {len(ms)} halogenated molecules')
                m = ms[0]
            o = str(m)
        except RuntimeError:
            raise
        except Exception as e:  # the texts are valid SMILES (RDKit reads them): a rejection is a finding of this contract
            a = O.rd_can(rdtext)
            if a is not None:
                res.append((text, fam, form, cls, None, a, None, f'{type(e).__name__}: {e}'))
            continue
        a, b = O.rd_can(rdtext), O.rd_can(o)
        res.append((text, fam, form, cls, o, a, b, None))
    return res


def part1(run):
    from oracles import o12_stereo as O
    from oracles import o12_more as M
    quick = run.tier == 'quick'
    items = list(O.tetra_spellings()) + list(O.ct_spellings()) + list(O.allene_spellings()) + \
        [(t, f, 'diene', None) for t, f in O.diene_spellings()]
    n_first = len({it[0] for it in items})
    # audit extension (oracles/o12_more.py): reader keywords, atom maps, bond symbols, reactions, two-sided closures, %nn, cumulenes, H-allenes
    hfirst = {}
    extra = list(M.tetra_extra()) + list(M.ct_two_sided()) + list(M.ct_variants())
    for it in M.allene_extra():
        extra.append(it[:6])
        hfirst[it[0]] = it[6]
    extra += [(t, 'RDX', 'rdkit-only', None, {}, None) for t in M.RDX]
    if quick:   # the option / map / cumulene / %nn variants of the big cross products: every 3rd (seeded offset); thorough: all
        big = lambda it: it[1][:2] in ('CT', 'CU') or 'maps:' in it[2] or bool(it[4])
        sel, i = [], 0
        for it in extra:
            if big(it):
                i += 1
                if i % 3 != env.SEED % 3:
                    continue
            sel.append(it)
        extra = sel
    items += extra
    seen, uniq = set(), []
    for it in items:
        k = (it[0], repr(sorted(it[4].items())) if len(it) > 4 else '[]')
        if k not in seen:
            seen.add(k)
            uniq.append(it)
    run.bound(f'spellings: {n_first} texts = 24 orders x @/@@ x 11 forms (4 substituents; first atom, branch, ring-closure digits '
              f'incl. two digits and %nn), 6 orders x @/@@ x 15 forms (implicit / explicit H in every position, H first), in-ring '
              f'centres (20 forms), one double bond with 1-2 substituents per end x {{none, /, \\}} on every substituent x forms '
              f'(before atom, branch, ring-closure digit opened/closed on either atom), 48 conjugated dienes, 64 allene spellings')
    run.bound(f'audit extension: {len(uniq) - n_first} more (text, reader keywords) pairs{" (every 3rd of the large cross products, seeded)" if quick else ""}: '
              f'the tetrahedral templates with atom maps (descending / gaps / > 999, with and without remap=True), with explicit "-" bond symbols (also on one '
              f'digit only), under remap / ignore=False / keep_implicit / ignore_carbon_radicals, inside reaction SMILES in every role incl. CXSMILES '
              f'fragment groups ({len(M.RXN_WRAPS)} wrappers); double bonds with marks on BOTH digits of a ring-closure bond, %nn digits, after / before a dot, '
              f'in reactions, stretched to cumulenes of 3 double bonds (class oracle only); allenes of 5 cumulated carbons, with an implicit H '
              f'(spelled FC= only) and with explicit H in every position; {len(M.RDX)} RDKit-judged texts (hetero double bonds, marks behind branches, '
              f'aromatic substituents, polyenes, large-ring and ring-attached double bonds, charges, isotopes, fused / spiro centres). '
              f'Contradictory marks (both substituents of one end on the same side, two digits of one closure naming opposite directions) are not generated: '
              f'the statement assigns them no configuration')
    n = max(1, len(uniq) // (env.NPROC * 2))
    chunks = [uniq[i:i + n] for i in range(0, len(uniq), n)]
    res = [r for part in pmap(_spellings, chunks) for r in part]
    how = {(it[0], it[2]): {'reader_kw': it[4], 'molecule_text': it[5] or it[0]} for it in uniq if len(it) > 4 and (it[4] or it[5])}
    fails = {}      # (fam, form) -> list of witnesses (CT: the four substituent-count families share the form key)
    classes = {}    # fam -> cls -> {str: text}
    for text, fam, form, cls, o, a, b, err in res:
        nontrivial = ('@' in text or '/' in text or '\\' in text)
        run.case(1, key=('spelling', text, form) if nontrivial else None,
                 sample={'contract': 'spelling', 'text': text, 'chython': o, 'rdkit': a} if text in ('[C@H](F)(Cl)Br', 'C1(/Cl)=C(Br)/I.F1') else None)
        fkey = (fam[:2] if fam[:2] in ('CT', 'CU') else fam, form if fam != 'RDX' else text)
        if err is not None:
            fails.setdefault(fkey, []).append({'text': text, 'error': err, **how.get((text, form), {})})
            continue
        if a is None:
            raise RuntimeError(f'generator produced a text RDKit rejects: {text}')  # checker bug, not a violation
        if a != b:
            fails.setdefault(fkey, []).append({'text': text, 'chython_str': o, 'rdkit(text)': a, 'rdkit(chython_str)': b, **how.get((text, form), {})})
        elif fam not in ('DIENE', 'RDX'):
            # explicit-H spellings are another graph (the H is an atom): their own family
            classes.setdefault(fam + ('+[H]' if '[H' in text and not fam.startswith('ALH') else ''), {}).setdefault(cls, {}).setdefault(o, text)
    for (fam, form), w in sorted(fails.items()):
        run.violation(f'spelling:{fam}:{form}', f'{len(w)} spelling(s) of form "{form}" are read/re-written by chython as a different '
                      f'configuration than RDKit derives from the same text, e.g. {w[0]}', witness={'count': len(w), 'texts': w[:12]},
                      native=w[0])
    # allenes with explicit hydrogens at the ends (ALH2 / ALH3): every spelling against the two reference spellings of its family
    # (substituents written heavy atom first).  Key: decided by the template alone - does an end START with the explicit hydrogen?
    groups = {}
    for fam in sorted(f for f in classes if f.startswith('ALH')):
        classes.pop(fam)
        by_text = {t: (c, o) for t, f, _, c, o, a, b, err in res if f == fam and err is None and a == b}
        refs = {}
        for t, (c, o) in sorted(by_text.items()):
            if not hfirst[t]:
                refs.setdefault(c, set()).add(o)
        for t, (c, o) in sorted(by_text.items()):
            run.case(1, key=('class', fam, t))
            ok = refs.get(c) == {o} and o not in refs.get(1 - c, ())
            if not ok:
                groups.setdefault('allene-explicit-H:hydrogen-first' if hfirst[t] else f'allene-explicit-H:{fam}:{t}', []).append(
                    {'text': t, 'class': c, 'chython_str': o, 'reference_strs_of_class': sorted(refs.get(c, ())),
                     'reference_strs_of_other_class': sorted(refs.get(1 - c, ()))})
    for key, w in sorted(groups.items()):
        if True:
            run.violation(key, f'{len(w)} spelling(s) of an allene with explicit hydrogens are not read as the configuration the extended tetrahedral '
                          f'rule assigns (same class <=> same canonical string as the heavy-atom-first reference spelling), e.g. {w[0]}',
                          witness={'count': len(w), 'texts': w[:12]}, native=w[0])
    # template-derived configuration classes (independent of RDKit; texts already reported above are left out):
    # one canonical string per class, classes disjoint
    for fam, cl in sorted(classes.items()):
        allstr = {}
        for cls, strs in cl.items():
            for o, text in strs.items():
                allstr.setdefault(o, set()).add(cls)
        for o, cs in allstr.items():
            if len(cs) > 1:
                run.violation(f'class-collision:{fam}:{o}', f'spellings of different configuration classes {sorted(map(str, cs))} of family '
                              f'{fam} get one canonical string {o}', witness={'string': o, 'classes': sorted(map(str, cs)),
                                                                              'texts': [cl[c][o] for c in cs]})
        for cls, strs in cl.items():
            run.case(1, key=('class', fam, str(cls)))
            if len(strs) > 1:
                run.violation(f'class-split:{fam}:{cls}', f'spellings of ONE configuration class of family {fam} give {len(strs)} canonical '
                              f'strings', witness={'strings': dict(list(strs.items())[:6])})


# ---- part 3a: marks on non-stereogenic centres ------------------------------------------------------------------------------------
def nonstereogenic_texts():
    out = []
    for X in ('F', 'Cl', 'C', 'O', 'N'):
        for Y, Z in (('Br', 'I'), ('I', 'S'), ('S', 'Br')):
            for k in ('@', '@@'):
                out += [f'{X}[C{k}]({X})({Y}){Z}', f'{Y}[C{k}]({X})({Z}){X}', f'[C{k}]({X})({X})({Y}){Z}', f'{X}[C{k}H]({X}){Y}',
                        f'[C{k}H]({X})({Y}){X}', f'{Y}[C{k}H]({X}){X}', f'{Y}[C{k}]({X})({X}){X}', f'[C{k}H]1({Y})CCCCC1',
                        f'{Y}[C{k}]1({Z})CCCCC1', f'{Y}[C{k}]1({Z})CCC1', f'{Y}C({Z})=[C{k}]=C({X}){X}', f'{X}C({X})=[C{k}]=C({Y}){Z}',
                        f'{Y}C=[C{k}]=C', f'[C{k}H2]({X}){Y}', f'{Y}[C{k}H2]{Z}', f'{X}[C{k}]({Y})=O', f'{X}[C{k}H]=N']
            for a, b in itertools.product('/\\', repeat=2):
                out += [f'{Y}{a}C=C({b}{X}){X}', f'{Y}{a}C({Z})=C({b}{X}){X}', f'{X}{a}C({X})=C{b}{Y}', f'C({a}{X})({X})=C{b}{Y}', f'{Y}{a}C=C',
                        f'{Y}{a}C=C1{b}CCCCC1', f'{Y}{a}C=C=C=C({b}{X}){X}', f'{Y}{a}C#C{b}{Z}', f'{Y}{a}C{b}{Z}',
                        f'{Y}{a}C=C=C{b}{Z}', f'{Y}{a}C({X})=C=C{b}{Z}', f'{Y}{a}C=C=C=C=C{b}{Z}', f'C{a}1=C({b}{X}){X}.{Y}1', f'{Y}{a}C=C%10{b}{X}.{X}%10']
    return sorted(set(out))


def _nonstereo(chunk):
    from chython import smiles
    from oracles import o12_stereo as O
    out = _Out()
    for text in chunk:
        a = O.rd_can(text, legacy=False)
        if a is None:
            out.note('rdkit-rejects-text')
            continue
        try:
            m = smiles(text)
        except Exception as e:
            out.note('chython-rejects-text')
            continue
        out.case(1, key=('nonstereogenic', text), sample={'contract': 'mark on non-stereogenic centre dropped', 'text': text, 'str': str(m)})
        if '@' in a or '/' in a or '\\' in a:
            raise RuntimeError(f'generator: RDKit keeps a mark in {text} -> {a}')
        if _n_labels(m) or any(c in str(m) for c in '@/\\'):
            out.v(f'nonstereogenic-label-kept:{text}', f'label kept on a centre with two identical substituents: {text} -> {m}',
                  witness={'text': text}, native={'str': str(m), 'labels': _n_labels(m), 'rdkit': a})
    return out.pack()


# ---- parts 2, 3b, 3c, 4 per molecule ----------------------------------------------------------------------------------------------
def _labelings(E, r, full_k=4, sample=6):
    k = len(E)
    if k <= full_k:
        return list(itertools.product((False, True), repeat=k)), True
    Ls = set()
    while len(Ls) < 2 * sample:
        L = tuple(r.random() < .5 for _ in range(k))
        Ls.add(L)
        Ls.add(tuple((not b) if e[0] != 'c' else b for e, b in zip(E, L)))          # mirror image
        if any(e[0] == 'c' for e in E):
            i = r.choice([i for i, e in enumerate(E) if e[0] == 'c'])
            Ls.add(tuple((not b) if j == i else b for j, b in enumerate(L)))        # one E/Z change
    return sorted(Ls), False


def _sign_contracts(c, E, L, skel, out):
    """_translate_*_sign on the labelled molecule c: read back + parity law (parity from oracles.o12_stereo.parity)"""
    from oracles.o12_stereo import parity
    atoms, bonds = c._atoms, c._bonds
    for e, bit in zip(E, L):
        if e[0] == 't':
            n, envn = e[1], e[2]
            hs = [x for x in bonds[n] if atoms[x].atomic_number == 1]
            base = c._translate_tetrahedron_sign(n, envn)
            out.case(1)
            if base != bit:
                out.v(f'sign-readback:{skel}:{n}', f'add_atom_stereo({n}, {envn}, {bit}) then _translate_tetrahedron_sign({n}, {envn}) '
                      f'returns {base}', witness={'smiles': skel, 'atom': n, 'env': envn, 'mark': bit}, native=base)
                continue
            trials = []
            if len(envn) == 4:
                for p in itertools.permutations(envn):
                    trials.append((p, parity(p, envn)))
                    trials.append((p[:3], parity(p, envn)))
            else:
                for p in itertools.permutations(envn):
                    trials.append((p, parity(p, envn)))
                if hs:
                    ref = (*envn, hs[0])
                    for p in itertools.permutations(ref):
                        trials.append((p, parity(p, ref)))
            for p, odd in trials:
                got = c._translate_tetrahedron_sign(n, p)
                out.case(1)
                if got != (base ^ odd):
                    out.v(f'sign-perm:{skel}:{n}:{",".join(map(str, p))}', f'_translate_tetrahedron_sign({n}, {p}) = {got} but the order is an '
                          f'{"odd" if odd else "even"} permutation of {envn + tuple(hs[:1])} whose sign is {base}',
                          witness={'smiles': skel, 'atom': n, 'env': list(p), 'reference_env': list(envn), 'hydrogen': hs[:1]}, native=got)
            out.keys.append(('sign-perm', skel, n))
        else:
            ct = e[0] == 'c'
            (r1, r2) = e[2]
            ends = []
            for (a, b), t in zip((e[3], e[4]), (e[1] if ct else e[5])):
                cand = [a]
                if b is not None:
                    cand.append(b)
                else:
                    cand += [x for x in bonds[t] if atoms[x].atomic_number == 1][:1]
                ends.append(cand)
            for nn in ends[0]:
                for nm in ends[1]:
                    exp = bit ^ (nn != r1) ^ (nm != r2)
                    if ct:
                        n, m = e[1]
                        got = [c._translate_cis_trans_sign(n, m, nn, nm), c._translate_cis_trans_sign(m, n, nm, nn)]
                    else:
                        got = [c._translate_allene_sign(e[1], nn, nm), c._translate_allene_sign(e[1], nm, nn)]
                    out.case(2)
                    if got != [exp, exp]:
                        out.v(f'sign-exchange:{skel}:{e[1]}:{nn},{nm}', f'{"_translate_cis_trans_sign" if ct else "_translate_allene_sign"} for '
                              f'substituents ({nn}, {nm}) of {e[1]} = {got}; stored for ({r1}, {r2}) is {bit}: must flip exactly when one end is '
                              f'exchanged -> {exp}', witness={'smiles': skel, 'element': e[1], 'reference': [r1, r2], 'asked': [nn, nm]}, native=got)
            out.keys.append(('sign-exchange', skel, str(e[1])))


def _edit_contracts(m, skel, orb, r, out, limit=3):
    """fix_stereo after an edit at a labelled carbon centre with a terminal substituent (judge: RDKit possible centres)"""
    from oracles import o12_stereo as O
    st = m.stereogenic_tetrahedrons
    done = 0
    cand = [n for n, a in m.atoms() if a.stereo is not None and n in st and len({orb[x] for x in st[n]}) == len(st[n])]
    r.shuffle(cand)
    for n in cand:
        env_n = st[n]
        terms = [x for x in env_n if len(m._bonds[x]) == 1 and m._bonds[n][x].order == 1 and not m._atoms[x].charge
                 and m._atoms[x].atomic_symbol in ('C', 'N', 'O', 'F', 'Cl', 'Br', 'I', 'S')]
        if not terms:
            continue
        x = r.choice(terms)
        others = [y for y in env_n if y != x]
        oterm = [m._atoms[y].atomic_symbol for y in others if len(m._bonds[y]) == 1 and m._bonds[n][y].order == 1 and not m._atoms[y].charge]
        edits = [('delete', None)]
        if oterm:
            edits.append(('equal', oterm[0]))
        used = {m._atoms[y].atomic_symbol for y in env_n}
        fresh = next(s for s in ('F', 'Cl', 'Br', 'I') if s not in used)
        edits.append(('fresh', fresh))
        for kind, sym in edits:
            c = m.copy()
            try:
                with c:
                    c.delete_atom(x)
                    if sym is not None:
                        c.add_atom(sym, x)
                        c.add_bond(n, x, 1)
            except Exception as e:
                out.v(f'fix-stereo-raises:{skel}:{n}:{kind}', f'edit {kind} of terminal substituent {x} at labelled centre {n} raises '
                      f'{type(e).__name__}: {e}', witness={'smiles': str(m), 'centre': n, 'substituent': x, 'edit': kind, 'new': sym})
                continue
            kept = c._atoms[n].stereo is not None
            smi, order = _strip(c).__format__('', _return_order=True)
            rdc = O.rd_possible_centres(smi)
            if rdc is None:
                out.note('edit-rdkit-rejects')
                continue
            rd_says = order.index(n) in rdc
            if kind == 'delete' and len(env_n) == 3:
                expect = False   # two hydrogens
            elif kind == 'equal':
                expect = False   # two identical terminal atoms
            else:
                expect = rd_says
            out.case(1, key=('fix-stereo', skel, n, kind), sample={'contract': 'fix_stereo after edit', 'smiles': str(m), 'centre': n, 'edit': kind,
                                                                     'result': str(c), 'label_kept': kept})
            if expect != rd_says:
                out.note('edit-rdkit-vs-construction')   # RDKit and the construction disagree: trust neither, do not judge
                continue
            if kept != expect:
                out.v(f'fix-stereo:{skel}:{n}:{kind}:{sym}', f'after edit "{kind}" ({m._atoms[x].atomic_symbol}{x} -> {sym}) at labelled centre {n} the '
                      f'label is {"kept" if kept else "removed"} but the centre is {"" if expect else "not "}stereogenic',
                      witness={'smiles': str(m), 'centre': n, 'substituent': x, 'edit': kind, 'new': sym},
                      native={'str_after': str(c), 'stereo': c._atoms[n].stereo, 'rdkit_possible_centres': sorted(rdc), 'written': smi})
        done += 1
        if done >= limit:
            break


def _molecule(arg):
    res = _molecule_(arg)
    for v in res[3]:        # every witness names the input text: replay re-runs exactly this molecule (all draws are seeded by it)
        if isinstance(v[2], dict):
            v[2].setdefault('input', arg[0])
            v[2].setdefault('wedge_contracts', arg[2])
            v[2].setdefault('source', arg[1])
    return res


def _molecule_(arg):
    s, source, do_wedge = arg
    from chython import mdl_mol
    from chython.exceptions import NotChiral
    from bounded import domains as D
    from oracles import iso
    from oracles import o12_stereo as O
    from rdkit import Chem
    from rdkit.Chem import AllChem
    import random
    random.seed(f'{env.SEED}:{s}')   # clean2d draws its layout start from the global generator: make the run reproducible
    out = _Out()
    r = D.rnd('c12:' + s)
    m = D.parse(s)
    if source == 'renum':    # audit: atom numbers descending and with gaps (dict order unchanged; the MOL writer refuses numbers > 999)
        m.remap({n: 990 - 7 * i for i, n in enumerate(list(m))})
    ext = source in ('generated', 'renum', 'corpus+')
    if ext:
        from bounded import d12_more as X
    base = _strip(m)
    skel = str(base)
    E = _elements(base)
    k = len(E)
    orb = iso.orbits(base)
    st = base.stereogenic_tetrahedrons

    # 3c perception: constitutionally distinct substituents => chiral; chiral => RDKit possible centre ---------------------------
    if st:
        ch = set(base.chiral_tetrahedrons)
        smi, order = base.__format__('', _return_order=True)
        rdc = O.rd_possible_centres(smi)
        rdc = None if rdc is None else {order[i] for i in rdc}
        for n, e in st.items():
            dist = len({orb[x] for x in e}) == len(e)
            out.case(1, key=('perception', skel, n) if dist else None)
            if dist and n not in ch:
                out.v(f'perception:{skel}:{n}', f'carbon {n} of {skel} has constitutionally distinct substituents {e} but is not in chiral_tetrahedrons',
                      witness={'smiles': skel, 'atom': n, 'env': e}, native=sorted(ch))
            elif rdc is not None and n in ch and n not in rdc:
                if dist:
                    out.note('rdkit-misses-distinct-centre')
                else:
                    out.gaps += 1
    for e in E:
        if e[0] == 'c':
            out.case(1)

    # 2 labelings ---------------------------------------------------------------------------------------------------------------------
    if 1 <= k <= 8:
        if not _distinct(E, orb):
            out.gaps += 1          # outside the claimed domain (equivalent substituents); still exercised below without judging
            judged = False
        else:
            judged = True
        view = iso.graph_view(base)
        autos = list(iso.isomorphisms(view, view, limit=4000))
        if len(autos) >= 4000:
            out.note('skipped:too-many-automorphisms')
            judged = False
        Ls, full = _labelings(E, r)
        strs, mols = {}, {}
        for L in Ls:
            try:
                c = _label(base, E, L)
            except NotChiral:
                if judged:
                    out.v(f'label-rejected:{skel}', f'element with constitutionally distinct substituents rejected by add_*_stereo (NotChiral) while '
                          f'applying labeling {L}', witness={'smiles': skel, 'elements': [x[:3] for x in E], 'labeling': L})
                strs = None
                break
            mols[L] = c
            strs[L] = str(c)
        if strs and judged:
            image = O.labeling_action(E, autos)
            cumul = any(e[0] == 'a' or (e[0] == 'c' and base._bonds[e[1][0]].get(e[1][1]) is None) for e in E)
            rdc = None if cumul else {L: O.rd_can(x, legacy=False) for L, x in strs.items()}
            mirror = lambda L: tuple((not b) if e[0] != 'c' else b for e, b in zip(E, L))
            for L1, L2 in itertools.combinations(Ls, 2):
                same = L2 in image(L1)
                eq = mols[L1] == mols[L2]
                kind = 'mirror' if L2 == mirror(L1) else 'ez' if any(e[0] == 'c' and a != b for e, a, b in zip(E, L1, L2)) else 'labeling'
                out.case(1, key=('identity', skel, L1, L2),
                         sample={'contract': 'stereoisomer identity', 'a': strs[L1], 'b': strs[L2], 'same_isomer': same, 'kind': kind})
                if same != eq:
                    out.v(f'identity:{kind}:{skel}:{"".join("01"[b] for b in L1)}:{"".join("01"[b] for b in L2)}',
                          f'{strs[L1]} and {strs[L2]} are {"the same stereoisomer" if same else "different stereoisomers (" + kind + ")"} '
                          f'but chython says {"==" if eq else "!="}', witness={'smiles': skel, 'elements': [x[:3] for x in E], 'L1': L1, 'L2': L2,
                                                                               'automorphisms': len(autos)}, native={'a': strs[L1], 'b': strs[L2]})
                elif rdc is not None and None not in (rdc[L1], rdc[L2]) and (rdc[L1] == rdc[L2]) != same:
                    out.note('rdkit-partition-differs-from-automorphism-oracle')
                    out.v(f'identity-rdkit:{skel}:{"".join("01"[b] for b in L1)}:{"".join("01"[b] for b in L2)}',
                          f'RDKit reads {strs[L1]} and {strs[L2]} as {"the same" if rdc[L1] == rdc[L2] else "different"} molecule(s) but they are '
                          f'{"the same" if same else "different"} stereoisomer(s)', witness={'smiles': skel, 'L1': L1, 'L2': L2},
                          native={'a': strs[L1], 'b': strs[L2], 'rdkit_a': rdc[L1], 'rdkit_b': rdc[L2]})
            # writer: every spelling of the labelled molecule denotes what str() denotes (RDKit judge)
            for L in Ls[:4]:
                c = mols[L]
                ref = O.rd_can(strs[L], legacy=False)
                if ref is None:
                    out.note('rdkit-rejects-chython-str')
                    continue
                for spec in ('r', 'r', 'r', 'h', 'a', 'A', 'm') + (('ra', 'rh', 'rAm', 'ah', 'ra') if ext else ()):
                    x = format(c, spec)
                    out.case(1, key=('writer', x) if 'r' in spec else None)
                    if O.rd_can(x, legacy=False) != ref:
                        out.v(f'writer-spelling:{strs[L]}:{spec}', f'format(m, "{spec}") = {x} denotes another molecule than str(m) = {strs[L]} (RDKit)',
                              witness={'smiles': strs[L], 'spec': spec, 'written': x}, native={'rdkit(written)': O.rd_can(x, legacy=False), 'rdkit(str)': ref})
                        break
            _sign_contracts(mols[Ls[-1]], E, Ls[-1], skel, out)
            _sign_contracts(mols[Ls[0]], E, Ls[0], skel, out)
            if ext and source != 'corpus+':
                for L in (Ls[0], Ls[-1]):
                    c = mols[L]
                    X.bridge(c, out)
                    kk = c.copy()
                    kk.kekule()
                    if X.drawable(kk) and X.rd_coords(kk):
                        X.wedge_write(kk, c, out)
        elif strs:
            _sign_contracts(mols[Ls[0]], E, Ls[0], skel, out)   # sign algebra does not depend on the domain filter

    # audit extension: the API through every neighbour order; drawings of the stereo-free molecule -----------------------------------
    if ext and E and k <= 8:
        X.api_contracts(base, E, skel, out, r, full=source != 'corpus+')
        kb = base.copy()
        kb.kekule()
        if X.drawable(kb) and X.rd_coords(kb, stereo=False):
            X.wedge_read(kb, skel, out, limit=3 if source != 'corpus+' else 2)
            X.ct_from_2d(kb, skel, out)
        else:
            out.note('drawing-skipped')

    # the molecule as given (its own labels) ------------------------------------------------------------------------------------------
    if _n_labels(m):
        if _gap1(m, iso.orbits(m)):
            out.gaps += 1
        else:
            from bounded import d12_more as X
            X.fixpoint_contract(m, out)
            if ext:
                X.edit_contracts2(m, str(m), r, out)
                X.bridge(m, out)
                kk = m.copy()
                kk.kekule()
                if X.drawable(kk) and X.rd_coords(kk):
                    X.wedge_write(kk, m, out)
            _edit_contracts(m, str(m), orb, r, out)
            if do_wedge:
                _allene_wedges(m, out)
                from rdkit.Chem import AllChem
                ref_t = _rd_tetra_only(Chem.MolFromSmiles(str(m)))
                kk = m.copy()
                kk.kekule()
                try:
                    kk.clean2d()
                    ok2d = True
                except Exception:
                    ok2d = False
                    out.note('clean2d-failed')
                if ok2d and any(a.stereo is not None for _, a in m.atoms()):
                    try:
                        blk = _molblock(kk)
                    except Exception as e:
                        out.v(f'wedge-write:{m}', f'writing the molblock of {m} raises {type(e).__name__}: {e}', witness={'smiles': str(m)})
                        blk = None
                if ok2d and any(a.stereo is not None for _, a in m.atoms()) and blk is not None:
                    rm = Chem.MolFromMolBlock(blk)
                    out.case(1, key=('wedge-write', str(m)), sample={'contract': 'wedge write', 'smiles': str(m)})
                    got = None if rm is None else _rd_tetra_only(rm)
                    if got != ref_t and _ill_conditioned(blk):
                        out.note('wedge-drawing-ill-conditioned')   # plain bonds collinear at a wedged 3-neighbour centre: no defined reading
                    elif got != ref_t:
                        out.v(f'wedge-write:{m}', f'molblock written for {m} is read by RDKit as {got}, str(m) as {ref_t}',
                              witness={'smiles': str(m), 'molblock': blk}, native={'rdkit(molblock)': got, 'rdkit(str)': ref_t})
                rm = Chem.MolFromSmiles(str(m))
                if rm is not None and not any('[H]' in x for x in (str(m),)):
                    AllChem.Compute2DCoords(rm)
                    Chem.WedgeMolBonds(rm, rm.GetConformer())
                    blk = Chem.MolToMolBlock(rm, kekulize=True)
                    c = mdl_mol(blk, calc_cis_trans=True)
                    D.norm(c)
                    ref = O.rd_can(str(m))
                    got = O.rd_can(str(c))
                    out.case(1, key=('wedge-read', str(m)))
                    if got != ref:
                        out.v(f'wedge-read:{m}', f'RDKit-drawn molblock of {m} (wedges + 2D geometry) is read by chython as {c}',
                              witness={'smiles': str(m), 'molblock': blk}, native={'chython': str(c), 'rdkit(chython)': got, 'rdkit(original)': ref})
    return out.pack()


def _generated_labelled():
    """one labelled representative per generated skeleton (for the edit / wedge contracts)"""
    return ['C[C@H](O)CC', 'C[C@@](F)(Cl)Br', 'F[C@H](Cl)Br', 'C[C@](N)(O)CC', 'C[C@H]1CCC[C@@H](O)C1', 'O[C@H]1CCCC[C@H]1N', 'C[C@@H](F)[C@H](Cl)C',
            'C[C@H](F)/C=C/C', 'F/C=C(/Cl)Br', 'C[C@]1(O)CCCO1', 'OC[C@H]1O[C@@H](O)[C@H](O)[C@@H](O)[C@@H]1O', 'C[C@H]1C[C@@H]2CC[C@H]1C2',
            'FC(Cl)=[C@]=C(Br)I', 'C[C@H](N)C(=O)N[C@@H](CO)C(=O)O', 'O1CCC[C@]12CCCN2', 'C[C@H]1CCC/C(=C\\C)C1',
            'FC(Cl)=[C@@]=C(Br)I', 'CC(O)=[C@]=C(N)Cl', 'CC(O)=[C@@]=C(N)Cl', 'ClC(F)=[C@]=C(I)Br', 'CCC(C)=[C@]=C(C)N', 'FC(Cl)=C=[C@]=C=C(Br)I',
            'FC(Cl)=C=[C@@]=C=C(Br)I', 'OC(C)=[C@@]=C(CC)Cl', 'CC(=[C@]=C(F)Cl)CC',
            # audit: explicit hydrogens on centres / allene ends, allenes with 2-3 substituents, centres whose neighbours are all centres,
            # cis/trans + allene ends with two terminal substituents (edit contracts), cumulene cis/trans, components
            '[H][C@](F)(Cl)Br', 'C[C@]([H])(O)CC', 'C[C@@]([H])(O)[C@]([H])(N)CC', 'FC=[C@]=CCl', 'FC=[C@@]=C(Cl)Br', '[H]C(F)=[C@]=C([H])Cl',
            '[H]C(F)=[C@@]=C(Cl)Br', 'C[C@H](F)[C@]([C@H](Cl)C)([C@@H](Br)C)[C@H](O)C', 'C[C@H](F)[C@H]([C@H](Cl)C)[C@@H](Br)C',
            'F[C@H](Cl)[C@](F)(Cl)[C@@H](F)Cl', 'F/C(Cl)=C(/Br)I', 'F/C(Cl)=C/Br', 'F/C(Cl)=C=C=C(/Br)I', 'F/C=C=C=C/Cl', 'F[C@H](Cl)Br.O',
            'C[C@H](O)CC.C[C@@H](N)CC', 'C/C=N/O', 'C[C@H]([13CH3])O', 'C[C@H](O)/C=C/[C@@H](N)C', 'C[C@@H]1CCC[C@@H](C1)/C=C/C',
            # audit: the heaviest acyclic substituent (the one _wedge_map draws the wedge to) in each of the four allene slots
            'IC(Cl)=[C@]=C(F)Br', 'FC(Cl)=[C@]=C(I)Br', 'FC(I)=[C@]=C(Cl)Br', 'FC(Cl)=[C@@]=C(Br)I', 'FC(Br)=[C@]=CCl', 'FC=[C@@]=C(C)Br']


def bounded(run):
    from bounded import domains as D
    from oracles import o12_stereo as O
    quick = run.tier == 'quick'
    run.assume('RDKit 2026.03 is the trusted independent toolkit: canonical isomeric SMILES (SMILES and molblock readers, wedge and '
               '2D-geometry perception, FindMolChiralCenters new implementation)',
               'RDKit has no allene / cumulene stereo: for allenes only the template-derived class oracle (extended tetrahedral rule of '
               'OpenSMILES, inversion parity) and the automorphism oracle judge; the absolute sense of an allene mark is not compared with '
               'any toolkit',
               'identity of stereoisomers = existence of an automorphism of the stereo-free attributed graph (oracles/iso.py) carrying one '
               'labeling into the other with the induced neighbour permutation parity (oracles/o12_stereo.labeling_action)',
               'chython perceives only carbon tetrahedral centres (MoleculeStereo.tetrahedrons): N, P, S centres are outside the contract')
    part1(run)

    texts = nonstereogenic_texts()
    n = max(1, len(texts) // (env.NPROC * 2))
    run.bound(f'marks on non-stereogenic centres: {len(texts)} generated texts (two identical terminal substituents / H2 / symmetric ring / '
              f'sp2 / triple bond, tetrahedral, double-bond and allene marks)')
    gaps, notes = 0, {}
    for ci, (nc, keys, samples, viol, g, nt) in enumerate(pmap(_nonstereo, [texts[i:i + n] for i in range(0, len(texts), n)])):
        run.cases += nc
        for kx in keys:
            run.case(0, key=kx)
        for sx in samples[:1 if ci == 0 else 0]:
            run.case(0, sample=sx)
        for v in viol:
            run.violation(v[0], v[1], witness=v[2], native=v[3])
        for kx, c in nt.items():
            notes[kx] = notes.get(kx, 0) + c

    ncorp = 1200 if quick else None
    corpus = D.corpus_sample(ncorp, 'c12')
    nwedge = 400 if quick else 1500
    items = [(s, 'generated', True) for s in GENERATED + _generated_labelled()]
    items += [(s, 'renum', True) for s in GENERATED + _generated_labelled()]
    w = 0
    nplus = 150 if quick else 600
    for s in corpus:
        has = '@' in s or '/' in s or '\\' in s
        items.append((s, 'corpus+' if has and w < nplus else 'corpus', has and w < nwedge))
        w += has
    run.bound(f'molecules: {len(GENERATED) + len(_generated_labelled())} generated chain / ring / ring-linker / cumulene / explicit-H cases + '
              f'{len(corpus)} corpus molecules (seeded sample); <= 8 stereo elements; all 2^k labelings for k <= 4, 12+ seeded labelings '
              f'(with mirror images and single E/Z changes) above; <= 4000 automorphisms; 7 written spellings of <= 4 labelings each; '
              f'all 24 / 6 neighbour permutations (+ 3-prefixes, + explicit H in every position) of every labelled centre in 2 labelings; '
              f'<= 3 edited centres x 3 edits per labelled molecule; wedge write/read on <= {nwedge} labelled corpus molecules')
    run.bound(f'audit extension (bounded/d12_more.py) on the generated molecules, on the same molecules renumbered 990, 983, ... (descending, gaps; numbers > 999 only through atom maps in part 1: the MOL writer refuses them) '
              f'and on the first {nplus} labelled corpus molecules: add_*_stereo through all 24+24 / 6 neighbour orders (corpus: 12 seeded), every '
              f'substituent / hydrogen pair and both call directions; <= 2 centres x 6 single edits outside a transaction, <= 2 double-bond / allene ends x '
              f'2 replacements; one wedge / hash / wrong-end wedge on every bond of <= 3 possible centres and every substituent of <= 3 allenes on RDKit '
              f'coordinates; cis/trans from 2D on the RDKit layout and with one end mirrored; _wedge_map on RDKit coordinates; RDKit bridge; 5 more writer '
              f'option combinations (ra, rh, rAm, ah); fix_stereo fixpoint on every labelled molecule')
    shown = set()
    for nc, keys, samples, viol, g, nt in pmap(_molecule, items, chunksize=4):
        run.cases += nc
        for kx in keys:
            run.case(0, key=kx)
        for sx in samples:
            if sx.get('contract') not in shown:     # one sample per contract in the evidence
                shown.add(sx.get('contract'))
                run.case(0, sample=sx)
        for v in viol:
            run.violation(v[0], v[1], witness=v[2], native=v[3])
        gaps += g
        for kx, c in nt.items():
            notes[kx] = notes.get(kx, 0) + c
    run.notes['c12_gap_hits'] = gaps
    run.notes['c12_gap_rule'] = ('stereo element two of whose substituents lie in one orbit of the stereo-free graph (DESIGN §2 C01 gap 1 = the '
                                 'property\'s own domain "centres have constitutionally distinct substituents"): exercised, not judged')
    if notes:
        run.notes['c12_notes'] = notes


def replay(rec):
    """re-run the witness natively; True = property holds for it on this tree"""
    from chython import smiles
    from oracles import o12_stereo as O
    key = rec['key']
    w = rec.get('witness') or {}
    if key.startswith('spelling:'):
        ok = True
        for t in w.get('texts', []):
            res = _spellings([(t['text'], '', '', None, t.get('reader_kw') or {}, t.get('molecule_text'))])
            for text, _, _, _, o, a, b, err in res:
                print(text, t.get('reader_kw') or '', '->', o, '| rdkit(text)', a, '| rdkit(chython)', b, err or '')
                ok &= err is None and a == b
        return ok
    if key.startswith('allene-explicit-H:'):
        ok = True
        for t in w.get('texts', []):
            o = str(smiles(t['text']))
            print(t['text'], '->', o, '| reference spellings of its class give', t['reference_strs_of_class'], '| of the other class', t['reference_strs_of_other_class'])
            ok &= [o] == t['reference_strs_of_class'] and o not in t['reference_strs_of_other_class']
        return ok
    if key.startswith('nonstereogenic-label-kept:'):
        m = smiles(w['text'])
        print(w['text'], '->', m)
        return not _n_labels(m)
    if rec.get('seed') is not None:
        env.SEED = rec['seed']
    res = _molecule((w.get('input') or w.get('smiles') or '', w.get('source') or 'replay', w.get('wedge_contracts', True)))
    bad = [v for v in res[3] if v[0] == key]
    for v in bad:
        print(v[1])
    return not bad
