"""C13 helper (specification side): EVERY memoised member of MoleculeContainer and its mixins, discovered from the class itself.

`members()` walks the MRO of MoleculeContainer and returns one reader per memoised member:
  * functools.cached_property / CachedMethods.cached_property / class_cached_property objects  -> getattr(m, name)
  * CachedMethods.cached_method wrappers (closure over `lock_name`, no arguments)            -> m.name()
  * CachedMethods.cached_args_method wrappers                                               -> m.name(*args) for the argument tuples of ARGS
so a cached member added to the library later is read and compared too (with the generic normaliser).

`read_all(m)` reads every member (this WARMS the whole cache) and returns {name: normalised value}; an exception is part of the value.
The normalised value is comparable between a molecule and its order-preserving rebuild (oracles/o13_views.rebuild_ordered): containers
whose order carries no meaning are compared as sets (the same choices as o13_views.VIEWS), atoms and bonds found inside a cached value
are replaced by their stored fields, numpy arrays by their bytes, generated identifiers of the depiction by a constant.
"""
import re
from functools import cached_property as _fcp

ARGS = {'adjacency_matrix': ((), (False,), (True,))}


def _is_cm_wrapper(f):
    return callable(f) and hasattr(f, '__wrapped__') and 'lock_name' in getattr(getattr(f, '__code__', None), 'co_freevars', ())


_MEMBERS = None


def members():
    """[(label, dict key or None, reader)]"""
    global _MEMBERS
    if _MEMBERS is not None:
        return _MEMBERS
    import CachedMethods as cm
    from chython.containers import MoleculeContainer
    out, seen = [], set()
    for c in MoleculeContainer.__mro__:
        for k, v in vars(c).items():
            if k in seen:
                continue
            if isinstance(v, (_fcp, cm.cached_property, cm.class_cached_property)):
                seen.add(k)
                name = getattr(v, 'attrname', None) or getattr(v, 'name', None) or k
                out.append((name, (lambda m, _k=k: getattr(m, _k))))
            elif _is_cm_wrapper(v):
                seen.add(k)
                if 'cache' in v.__code__.co_varnames:  # cached_args_method
                    for a in ARGS.get(k, ((),)):
                        out.append((f'{k}{a!r}', (lambda m, _k=k, _a=a: getattr(m, _k)(*_a))))
                else:
                    out.append((f'{k}()', (lambda m, _k=k: getattr(type(m), _k)(m))))
    _MEMBERS = out
    return out


# ---------------------------------------------------------------------------------------------------------------------------
# normalisation
# ---------------------------------------------------------------------------------------------------------------------------
_UID = re.compile(r'[0-9a-f]{8}-[0-9a-f]{4}-[0-9a-f]{4}-[0-9a-f]{4}-[0-9a-f]{12}')


def _atom(a):
    return ('ATOM', a.atomic_number, a.isotope, a.charge, a.is_radical, a.implicit_hydrogens, a.stereo,
            getattr(a, '_hybridization', None), getattr(a, '_neighbors', None), getattr(a, '_heteroatoms', None),
            getattr(a, '_explicit_hydrogens', None), getattr(a, '_in_ring', None), frozenset(getattr(a, '_ring_sizes', None) or ()))


def _bond(b):
    return ('BOND', b.order, b.stereo, bool(getattr(b, '_in_ring', False)))


def freeze(v, unordered=False):
    """comparable deep value; unordered=True: lists/tuples are compared as multisets (sorted by repr)"""
    from collections.abc import Mapping
    from chython.periodictable import Element
    from chython.containers.bonds import Bond
    import numpy
    if isinstance(v, Element):
        return _atom(v)
    if isinstance(v, Bond):
        return _bond(v)
    if isinstance(v, Mapping):
        return ('MAP', frozenset((freeze(k, unordered), freeze(x, unordered)) for k, x in v.items()))
    if isinstance(v, (set, frozenset)):
        return ('SET', frozenset(freeze(x, unordered) for x in v))
    if isinstance(v, (list, tuple)):
        t = tuple(freeze(x, unordered) for x in v)
        return ('BAG', tuple(sorted(t, key=repr))) if unordered else ('SEQ', t)
    if isinstance(v, numpy.ndarray):
        return ('ARR', v.shape, str(v.dtype), v.tobytes())
    if isinstance(v, float):
        return round(v, 6)
    if isinstance(v, str):
        return _UID.sub('UID', v)
    if v is None or isinstance(v, (int, bool, bytes)):
        return v
    if hasattr(v, '__next__'):
        raise AssertionError('o13_allkeys: a cached value is an iterator')
    return ('OBJ', type(v).__name__, repr(v))


def _rings(v):
    return frozenset(frozenset(r) for r in v)


def _path(p):
    p = tuple(p)
    return min(p, p[::-1])


def _nn(e):
    return frozenset(x for x in e if x is not None)


# members whose container order carries no meaning (same choices as o13_views.VIEWS); everything else: generic ordered freeze
NORMAL = {
    'sssr': _rings,
    'aromatic_rings': _rings,
    'connected_components': _rings,
    'atoms_rings': lambda v: {n: _rings(r) for n, r in v.items()},
    'tetrahedrons': frozenset,
    'cumulenes': lambda v: frozenset(_path(p) for p in v),
    'stereogenic_tetrahedrons': lambda v: {n: frozenset(e) for n, e in v.items()},
    'stereogenic_cumulenes': lambda v: {_path(k): _nn(e) for k, e in v.items()},
    'stereogenic_cis_trans': lambda v: {frozenset(k): _nn(e) for k, e in v.items()},
    'stereogenic_allenes': lambda v: {k: _nn(e) for k, e in v.items()},
    'ring_tetrahedrons': lambda v: {n: frozenset(e) for n, e in v.items()},
}
UNORDERED = {'rings_linker_tetrahedrons', 'ring_cumulenes_terminals', 'rings_linker_cumulenes_terminals', 'ring_attached_cumulenes',
             '_stereo_cis_trans_terminals', '_stereo_allenes_terminals', '_stereo_cis_trans_centers', '_MoleculeStereo__chiral_centers',
             '_sugar_groups', 'rings_graph', 'skin_graph'}
# values that are a function of the object identity / not of the molecule
SKIP = set()


def has_layout(m):
    """depict() calls clean2d() (a mutator of the coordinates, external JS engine) when all atoms sit on one point"""
    if len(m._atoms) < 2:
        return True
    xs = [a.x for a in m._atoms.values()]
    ys = [a.y for a in m._atoms.values()]
    return not (max(ys) - min(ys) < .01 and max(xs) - min(xs) < .01)


def read_member(m, label, reader):
    if label == '_repr_svg_()' and (not m._atoms or not has_layout(m)):
        return 'NO-LAYOUT'  # reading it would change the coordinates: not a pure reader on such molecules
    try:
        v = reader(m)
    except Exception as e:
        return ('EXC', type(e).__name__)
    f = NORMAL.get(label)
    if f is not None:
        v = f(v)
    return freeze(v, unordered=label in UNORDERED)


def read_all(m):
    """reads (and thereby memoises) every cached member; {label: normalised value}"""
    return {label: read_member(m, label, rd) for label, rd in members() if label not in SKIP}


def warm(m):
    """memoise everything, ignore the values"""
    for label, rd in members():
        if label == '_repr_svg_()' and (not m._atoms or not has_layout(m)):
            continue
        try:
            rd(m)
        except Exception:
            pass
    return len(m.__dict__)


def dict_keys(m):
    """keys now present in the instance dictionary (locks of CachedMethods excluded)"""
    return sorted(k for k in m.__dict__ if '_lock_' not in k)


def compare(m, r):
    """labels whose value on m differs from the value on r, with both values"""
    a, b = read_all(m), read_all(r)
    return [(k, a[k], b[k]) for k in a if a[k] != b[k]]
