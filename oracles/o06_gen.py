"""C06 domain generators: the 8-atom graphs with <= 3 rings (complete, self-validated against the known counts), seeded ring
assemblies (fused / spiro / bridged / linked), macrocycles with decorations, coordinate-bond and aromatic-ring variants."""
import itertools

import networkx as nx

# numbers of connected simple graphs on 8 nodes with 7, 8, 9, 10 edges (OEIS A054924 row 8): trees, 1, 2, 3 independent rings
KNOWN_8 = (23, 89, 236, 486)


def _dedupe(graphs):
    import warnings
    buckets = {}
    out = []
    for g in graphs:
        with warnings.catch_warnings():
            warnings.simplefilter('ignore')
            h = nx.weisfeiler_lehman_graph_hash(g, iterations=3)
        b = buckets.setdefault(h, [])
        if any(nx.is_isomorphic(g, x) for x in b):
            continue
        b.append(g)
        out.append(g)
    return out


def eight_node_graphs(max_rings=3, max_deg=4, n=8):
    """every connected graph on n nodes with <= max_rings independent rings: level k+1 = level k + one more edge, de-duplicated by
    isomorphism (complete: removing a ring bond of a connected graph leaves a connected graph with one ring less).  The levels are
    checked against the known counts before the degree filter is applied; returns [(name, graph)]"""
    level = _dedupe(list(nx.nonisomorphic_trees(n)))
    levels = [level]
    for _ in range(max_rings):
        nxt = []
        for g in level:
            for a, b in itertools.combinations(sorted(g.nodes), 2):
                if not g.has_edge(a, b):
                    h = g.copy()
                    h.add_edge(a, b)
                    nxt.append(h)
        level = _dedupe(nxt)
        levels.append(level)
    if n == 8:
        got = tuple(len(x) for x in levels)
        assert got == KNOWN_8[:len(got)], f'8-node generator incomplete: {got} != {KNOWN_8}'
    out = []
    for k, lv in enumerate(levels):
        for i, g in enumerate(lv):
            if max(d for _, d in g.degree()) <= max_deg:
                out.append((f'N{n}R{k}#{i}', g))
    return out


def _new(g, k):
    s = max(g.nodes, default=-1) + 1
    return list(range(s, s + k))


def _add_path(g, a, inner, b):
    seq = [a, *inner, b]
    for x, y in zip(seq, seq[1:]):
        g.add_edge(x, y)


def ring_assembly(r, lo=8, hi=30, max_deg=4):
    """seeded assembly of 3-8 membered rings: fuse on a bond, spiro on an atom, bridge two atoms (0-3 new atoms), link a new ring
    through a chain, pendant atoms; returns (graph, list of operations)"""
    g = nx.cycle_graph(r.randint(3, 8))
    ops = [f'ring{g.number_of_nodes()}']
    target = r.randint(lo, hi)
    guard = 0
    while g.number_of_nodes() < target and guard < 200:
        guard += 1
        op = r.choice(('fuse', 'fuse', 'spiro', 'bridge', 'bridge', 'link', 'pendant'))
        deg = dict(g.degree())
        if op == 'fuse':
            es = [(a, b) for a, b in g.edges if deg[a] < max_deg and deg[b] < max_deg]
            if not es:
                continue
            a, b = r.choice(es)
            k = r.randint(3, 8)
            _add_path(g, a, _new(g, k - 2), b)
            ops.append(f'fuse{k}@{a}-{b}')
        elif op == 'spiro':
            vs = [v for v in g if deg[v] <= max_deg - 2]
            if not vs:
                continue
            a = r.choice(vs)
            k = r.randint(3, 8)
            _add_path(g, a, _new(g, k - 1), a)
            ops.append(f'spiro{k}@{a}')
        elif op == 'bridge':
            vs = [v for v in g if deg[v] < max_deg]
            if len(vs) < 2:
                continue
            a, b = r.sample(vs, 2)
            p = r.randint(0, 3)
            if p == 0 and g.has_edge(a, b):
                continue
            _add_path(g, a, _new(g, p), b)
            ops.append(f'bridge{p}@{a}-{b}')
        elif op == 'link':
            vs = [v for v in g if deg[v] < max_deg]
            if not vs:
                continue
            a = r.choice(vs)
            chain = _new(g, r.randint(1, 3))
            _add_path(g, a, chain[:-1], chain[-1])
            k = r.randint(3, 8)
            _add_path(g, chain[-1], _new(g, k - 1), chain[-1])
            ops.append(f'link{len(chain)}+ring{k}@{a}')
        else:
            vs = [v for v in g if deg[v] < max_deg]
            if not vs:
                continue
            a = r.choice(vs)
            g.add_edge(a, _new(g, 1)[0])
            ops.append(f'pendant@{a}')
    return g, ops


def macrocycle(r, lo=12, hi=40):
    """a 12-40 membered ring, bare or decorated with a fused/spiro small ring, a transannular bridge or a second component"""
    n = r.randint(lo, hi)
    g = nx.cycle_graph(n)
    ops = [f'macro{n}']
    kind = r.choice(('bare', 'fused', 'spiro', 'bridge', 'two', 'fused+spiro'))
    if 'fused' in kind:
        k = r.randint(3, 8)
        a = r.randrange(n)
        _add_path(g, a, _new(g, k - 2), (a + 1) % n)
        ops.append(f'fuse{k}@{a}')
    if 'spiro' in kind:
        k = r.randint(3, 8)
        a = r.randrange(n)
        if g.degree(a) == 2:
            _add_path(g, a, _new(g, k - 1), a)
            ops.append(f'spiro{k}@{a}')
    if kind == 'bridge':
        a = r.randrange(n)
        b = (a + r.randint(2, n // 2)) % n
        p = r.randint(0, 4)
        _add_path(g, a, _new(g, p), b)
        ops.append(f'bridge{p}@{a}-{b}')
    if kind == 'two':
        k = r.randint(3, 14)
        s = _new(g, k)
        for x, y in zip(s, s[1:] + s[:1]):
            g.add_edge(x, y)
        ops.append(f'+ring{k}')
    return g, ops


def disjoint(parts):
    """disjoint union keeping integer labels consecutive"""
    return nx.disjoint_union_all(parts)


def named_cages():
    """classic condensed systems and cages (degree <= 4): ladders / grids (linearly and peri-condensed four-rings), hexagonal
    lattices (pyrene / coronene like), prisms, Moebius ladders, polyhedra and cubic cage graphs; [(name, graph)]"""
    out = []
    for n in range(3, 9):
        out.append((f'prism{n}', nx.circular_ladder_graph(n)))
    for n in range(3, 7):
        g = nx.cycle_graph(2 * n)
        g.add_edges_from((i, i + n) for i in range(n))
        out.append((f'moebius{n}', g))
    for a in range(2, 5):
        for b in range(a, 6):
            out.append((f'grid{a}x{b}', nx.convert_node_labels_to_integers(nx.grid_2d_graph(a, b))))
    for a in range(1, 4):
        for b in range(a, 4):
            out.append((f'hex{a}x{b}', nx.convert_node_labels_to_integers(nx.hexagonal_lattice_graph(a, b))))
    for name, f in (('cubane', nx.cubical_graph), ('dodecahedrane', nx.dodecahedral_graph), ('petersen', nx.petersen_graph),
                    ('octahedron', nx.octahedral_graph), ('trunc-tetrahedron', nx.truncated_tetrahedron_graph),
                    ('trunc-cube', nx.truncated_cube_graph), ('heawood', nx.heawood_graph), ('frucht', nx.frucht_graph),
                    ('pappus', nx.pappus_graph), ('desargues', nx.desargues_graph), ('moebius-kantor', nx.moebius_kantor_graph)):
        out.append((name, nx.convert_node_labels_to_integers(f())))
    return [(n, g) for n, g in out if max(d for _, d in g.degree()) <= 4]
