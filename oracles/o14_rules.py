"""C14 helpers (specification side, not verified): composition invariants, strong valence validity, instantiation of a rule pattern
as a molecule, independent application of a rule's declared right-hand side, extraction of documented example pairs."""
import ast
import itertools
import re
from collections import Counter


# ---------------------------------------------------------------------------------------------------------------------------
# composition
# ---------------------------------------------------------------------------------------------------------------------------
def heavy(m):
    """multiset of heavy atoms (element, isotope)"""
    return Counter((a.atomic_number, a.isotope) for _, a in m.atoms() if a.atomic_number != 1)


def net_charge(m):
    return sum(a.charge for _, a in m.atoms())


def total_h(m):
    """implicit + explicit hydrogens; None if some count is undefined"""
    t = 0
    for _, a in m.atoms():
        if a.implicit_hydrogens is None:
            return None
        t += a.implicit_hydrogens + (a.atomic_number == 1)
    return t


def radicals(m):
    return sum(a.is_radical for _, a in m.atoms())


def has_aromatic(m):
    return any(b.order == 4 for _, _, b in m.bonds())


def _bad_hydrogens(m):
    # the library's own words (implicify_hydrogens): "Hydrogen atom n has invalid valence" - calc_implicit never flags hydrogens
    return [n for n, a in m.atoms() if a.atomic_number == 1 and
            (sum(1 for b in m._bonds[n].values() if b.order != 8) > 1 or any(b.order not in (1, 8) for b in m._bonds[n].values()))]


def weakly_valid(m):
    """the statement's "valence-valid input": check_valence() == [] and no hydrogen atom with several bonds"""
    return not m.check_valence() and not _bad_hydrogens(m)


def invalid_atoms(m):
    """strong valence validity: every hydrogen count is defined AND is one the valence rules allow for the atom's bonds
    (checked on a Kekule copy: `check_implicit` cannot judge atoms with aromatic bonds).  Returns the offending atoms."""
    from chython.exceptions import InvalidAromaticRing
    bad = [n for n, a in m.atoms() if a.implicit_hydrogens is None]
    bad += _bad_hydrogens(m)
    if bad:
        return bad
    c = m.copy()
    arom = {n for n, k, b in m.bonds() if b.order == 4 for n in (n, k)}
    if arom:
        try:
            c.kekule()
        except InvalidAromaticRing:
            return ['no-kekule-form']
    for n, a in m.atoms():
        h = a.implicit_hydrogens
        if n in arom and c.atom(n).implicit_hydrogens != h:
            bad.append(n)
        elif not c.check_implicit(n, h):
            bad.append(n)
    return bad


def resonance_signature(m_in, m_out):
    """result-level attribution of two recorded root causes of Resonance.fix_resonance (same atom numbers on both sides):
    'aromatic-bond-arithmetic': a bond that was aromatic (order 4) in the input is a triple bond in the output (4 - 1 = 3);
    'ammonium-exit': an ammonium nitrogen (charge +1, neighbours + implicit hydrogens = 4, at least one hydrogen) lost its charge"""
    for n, k, b in m_in.bonds():
        if b.order == 4 and n in m_out._bonds and k in m_out._bonds[n] and m_out._bonds[n][k].order == 3:
            return 'aromatic-bond-arithmetic'
    for n, a in m_in.atoms():
        h = a.implicit_hydrogens
        if a.atomic_number == 7 and a.charge == 1 and h and len(m_in._bonds[n]) + h == 4 \
                and n in m_out._atoms and m_out._atoms[n].atomic_number == 7 and m_out._atoms[n].charge == 0:
            return 'ammonium-exit'
    return None


# ---------------------------------------------------------------------------------------------------------------------------
# rule tables
# ---------------------------------------------------------------------------------------------------------------------------
def rule_tables():
    """[(table name, index, pattern, atom_fix, bonds_fix, is_tautomer)] of the three __standardize tables"""
    from chython.algorithms.standardize._groups import single_rules, double_rules
    from chython.algorithms.standardize._metal_organics import rules as metal_rules
    out = []
    for name, tab in (('double', double_rules), ('single', single_rules), ('metal', metal_rules)):
        for i, (q, af, bf, any_atoms, taut) in enumerate(tab):
            out.append((name, i, q, af, bf, taut))
    return out


def rule_any_atoms():
    """{(table name, index): pattern atoms the rule declares as shareable wildcard atoms}"""
    from chython.algorithms.standardize._groups import single_rules, double_rules
    from chython.algorithms.standardize._metal_organics import rules as metal_rules
    return {(name, i): tuple(r[3]) for name, tab in (('double', double_rules), ('single', single_rules), ('metal', metal_rules))
            for i, r in enumerate(tab)}


def twin_instance(q, inst, any_atoms, atom_fix, bonds_fix):
    """two instances of one rule that share the rule's wildcard atom X (geminal groups): the group part (pattern atoms other than the
    wildcard atoms, with their substituents) is duplicated with fresh numbers and bonded to X as the first one is.  Returns
    (molecule, atom_fix, bonds_fix of both groups) or None when the pattern has no single shared atom / the copy cannot be attached."""
    if len(any_atoms) != 1:
        return None
    x = any_atoms[0]
    patt = set(dict(q.atoms()))
    group = patt - {x}
    if not group or x not in inst._bonds:
        return None
    # atoms that hang on the group (substituents added by instantiate), not on X
    side, stack = set(group), list(group)
    while stack:
        n = stack.pop()
        for k in inst._bonds[n]:
            if k != x and k not in side:
                side.add(k)
                stack.append(k)
    if any(k in side for k in inst._bonds[x] if k not in group):      # X's own substituents reach the group: ring, no clean copy
        return None
    m = inst.copy()
    shift = max(m._atoms) + 1
    mp = {n: n + shift for n in side}
    for n in side:
        a = inst._atoms[n]
        m.add_atom(type(a)(a.isotope, charge=a.charge, is_radical=a.is_radical), mp[n], _skip_calculation=True)
    done = set()
    for n in side:
        for k, b in inst._bonds[n].items():
            e = frozenset((n, k))
            if e in done:
                continue
            done.add(e)
            m.add_bond(mp[n], x if k == x else mp[k], b.order, _skip_calculation=True)
    m.fix_structure()
    af = dict(atom_fix)
    af.update({mp[n]: v for n, v in atom_fix.items() if n in mp})
    bf = list(bonds_fix) + [(mp.get(n, n), mp.get(k, k), o) for n, k, o in bonds_fix if n in mp or k in mp]
    if any(n == x for n in atom_fix):
        return None          # the rule edits the shared atom itself: two applications do not commute, not a clean twin
    return m, af, bf


_SUBST = (('C', 1), ('O', 1), ('C', 2), ('O', 2), ('N', 1), ('N', 3), ('F', 1), ('N', 2))


def _element_choices(qa):
    sym = qa.atomic_symbol
    if sym == 'A':
        return ['O', 'N', 'C'] if qa.charge < 0 else ['C', 'N', 'O']
    if sym == 'M':
        return ['Cu', 'Ag', 'Fe']  # Cu+/Ag+ have valence rules (metal rules add +1 to the metal)
    if ',' in sym:
        return sym.split(',')
    return [sym]


def _build(q, elements, extras):
    """molecule with the pattern atoms (numbers kept), first order of every query bond, extra substituents"""
    from chython.containers import MoleculeContainer
    m = MoleculeContainer()
    for n, qa in q.atoms():
        m.add_atom(elements[n], n, _skip_calculation=True)
        at = m._atoms[n]
        at._charge = getattr(qa, 'charge', 0)
        at._is_radical = getattr(qa, 'is_radical', False)
    for n, k, b in q.bonds():
        m.add_bond(n, k, b.order[0], _skip_calculation=True)
    nxt = max(m._atoms) + 1
    for n, subs in extras.items():
        for el, o in subs:
            m.add_atom(el, nxt, _skip_calculation=True)
            m.add_bond(n, nxt, o, _skip_calculation=True)
            nxt += 1
    m.fix_structure()
    return m


def instantiate(q, max_elements=12):
    """pattern -> (molecule, reason).  A -> C (O for anions), M -> Cu, element lists -> first element that works, first bond order,
    extra substituents (CH3, OH, =CH2, =O, NH2, #N, F, =NH) chosen per atom so that the library's own atom predicate
    (`query_atom == molecule_atom`: D, z, x, h, r marks) holds; pattern atoms may have an undefined hydrogen count (many rules exist
    to repair exactly such spellings), substituent atoms may not.  None when not feasible."""
    if any(4 in b.order for _, _, b in q.bonds()):
        return None, 'aromatic pattern'
    qatoms = dict(q.atoms())
    choices = {n: _element_choices(a) for n, a in qatoms.items()}
    tried = 0
    for combo in itertools.product(*choices.values()):
        tried += 1
        if tried > max_elements:
            break
        elements = dict(zip(choices, combo))
        extras = {}
        ok = True
        for n, qa in qatoms.items():
            deg = sum(1 for _ in q._bonds[n])
            found = None
            sizes = range(0, 5)
            if qa.neighbors:
                sizes = [d - deg for d in qa.neighbors if d >= deg]
            for size in sizes:
                for subs in itertools.combinations_with_replacement(_SUBST, size):
                    try:
                        m = _build(q, elements, {n: subs})
                    except Exception:
                        continue
                    if any(m._atoms[x].implicit_hydrogens is None for x in m._atoms if x not in qatoms):
                        continue  # substituents must be ordinary; the pattern atom itself may be a "wrong" valence (that is the rule)
                    if qa == m._atoms[n]:
                        found = subs
                        break
                if found is not None:
                    break
            if found is None:
                ok = False
                break
            extras[n] = found
        if not ok:
            continue
        try:
            m = _build(q, elements, extras)
        except Exception:
            continue
        if any(qa != m._atoms[n] for n, qa in qatoms.items()):
            continue
        if not any(all(mp[n] == n for n in qatoms) for mp in q.get_mapping(m, automorphism_filter=False)):
            continue
        return m, 'ok'
    return None, 'no instance satisfies the atom predicates'


def apply_rhs(m, atom_fix, bonds_fix):
    """independent application of the declared right-hand side on the instance (identity mapping): returns a fresh molecule"""
    from chython.containers import MoleculeContainer
    from chython.containers.bonds import Bond
    new = MoleculeContainer()
    touched = set()
    for n, a in m._atoms.items():
        ch, rad = atom_fix.get(n, (0, None))
        x = type(a)(a.isotope, charge=a.charge + ch, is_radical=a.is_radical if rad is None else rad,
                    implicit_hydrogens=a.implicit_hydrogens)
        new.add_atom(x, n, _skip_calculation=True)
        if n in atom_fix:
            touched.add(n)
    orders = {frozenset((n, k)): b.order for n, k, b in m.bonds()}
    seq = [frozenset((n, k)) for n, k, _ in m.bonds()]
    for n, k, o in bonds_fix:
        e = frozenset((n, k))
        if e not in orders:
            seq.append(e)
        orders[e] = o
        touched.update(e)
    for e in seq:
        n, k = tuple(e)
        new.add_bond(n, k, Bond(orders[e]), _skip_calculation=True)
    new.calc_labels()
    for n in touched:
        new.calc_implicit(n)
    new._changed = None
    new.flush_cache()
    return new


# ---------------------------------------------------------------------------------------------------------------------------
# documented examples
# ---------------------------------------------------------------------------------------------------------------------------
def documented_pairs(repo_path):
    """the (input, output) pairs of chython/algorithms/standardize/test/test_groups.py (`data = [...]`), read by AST"""
    src = open(repo_path('chython/algorithms/standardize/test/test_groups.py'), encoding='utf8').read()
    for node in ast.parse(src).body:
        if isinstance(node, ast.Assign) and any(getattr(t, 'id', None) == 'data' for t in node.targets):
            return [tuple(x) for x in ast.literal_eval(node.value)]
    return []


def charged_examples(repo_path):
    """`# A>>B` comments of _charged.py: documented example of each charge-canonisation rule"""
    src = open(repo_path('chython/algorithms/standardize/_charged.py'), encoding='utf8').read()
    return re.findall(r'^\s*#\s*(\S+)>>(\S+)\s*$', src, re.M)


# functional-group spellings the rule tables mention (attachment atom first, it must carry a hydrogen that the bond replaces);
# valid and "wrong" spellings, charge-separated forms, acids/bases for neutralize
GROUPS = ('N(=O)=O', '[N+](=O)[O-]', 'N=[N+]=[N-]', 'N=N#N', 'N=N=N', 'NN#N', 'C=[N+]=[N-]', 'C=N#N', '[CH-][N+]#N', 'C#N=N',
          'S(=O)C', '[S+]([O-])C', 'S(=O)(=O)C', '[S+2]([O-])([O-])C', 'S(=O)(=O)O', 'S(=O)(=O)[O-]', 'S(C)(=O)=N', 'S(=O)(=O)N',
          'N(C)(C)=O', '[N+](C)(C)[O-]', 'P(C)(C)=O', '[P+](C)(C)[O-]', 'P(C)(C)(C)C', '[P+](C)(C)C', 'N(C)(C)(C)C', '[N+](C)(C)C',
          'N=O', 'C=NO', 'C(O)=N', 'C(=O)N', 'C(S)=N', 'C(O)=C', 'C(=O)C', 'N=CO', 'NC=O', 'C(O)=NC', 'N#C', '[N+]#[C-]', 'N=C=O', 'OC#N',
          'C(=O)O', 'C(=O)[O-]', 'N', '[NH3+]', 'NC', '[NH2+]C', 'C(=O)O[Na]', 'C(N)=[NH2+]', 'C(=N)N', 'c1ccncc1', 'c1cc[nH]c1',
          'C1=CC(=O)NC=C1', 'c1cc(O)ncc1', 'B(O)O', '[B-](O)(O)O', 'C#CO', 'C=C=O', '[N+](C)=C', 'N(=O)O', 'O[Cl+][O-]', '[Si](C)(C)C',
          'C(=O)Cl', 'OP(=O)(O)O', 'OP(=O)([O-])[O-]', 'C(F)(F)F')
COUNTER_IONS = ('[Na+]', '[Cl-]', 'Cl', '[K+]', 'CC(=O)O', 'CC(=O)[O-]', '[NH4+]', 'O')
CATION_GROUPS = ('[NH3+]', '[NH2+]C', '[NH+](C)C', 'C[NH3+]', 'CC[NH2+]C')
ANIONS = ('[Cl-]', '[Br-]', 'CC(=O)[O-]', 'CS(=O)(=O)[O-]', '[O-]c1ccccc1', 'C(=O)[O-]')
