"""Reference enumerator for C07 (specification, not verified): exhaustive backtracking over injective maps pattern -> target.

Same semantics as `oracles.iso.embeddings` (which enumerates every injective assignment by brute force):
  * every pattern atom matches its image - judged by the public `pattern_atom == target_atom`;
  * every pattern bond has an image bond and `pattern_bond == target_bond`;
  * no additional target bond joins the images of two atoms of ONE pattern component (induced inside a component);
  * atoms of DIFFERENT pattern components lie in different target components;
  * optional scope: every image lies in `scope`.
The only difference to the brute force is that a partial assignment that already breaks one of the (pairwise) conditions is not
extended - every condition is a conjunction over atoms / pairs of atoms, so pruning loses nothing.  Nothing of the library's
search code is used: components are computed here, candidates are tried in plain target order, the pattern atoms breadth-first
from the first atom of each component (only so that pruning bites early; no back references, no closure sets: every
condition is re-tested against ALL atoms assigned so far).  `checks/b07.py` cross-checks this enumerator against
`oracles.iso.embeddings` on every small pair it visits.
"""


def components(bonds):
    """{atom: component index} by a plain flood fill over the adjacency dict"""
    comp = {}
    i = 0
    for s in bonds:
        if s in comp:
            continue
        comp[s] = i
        todo = [s]
        while todo:
            x = todo.pop()
            for y in bonds[x]:
                if y not in comp:
                    comp[y] = i
                    todo.append(y)
        i += 1
    return comp


def bfs_order(bonds):
    order, seen = [], set()
    for s in bonds:
        if s in seen:
            continue
        seen.add(s)
        q = [s]
        while q:
            x = q.pop(0)
            order.append(x)
            for y in bonds[x]:
                if y not in seen:
                    seen.add(y)
                    q.append(y)
    return order


def embeddings(p, t, scope=None, limit=None):
    """set of embeddings, each a sorted tuple of (pattern atom, target atom) pairs"""
    pa, pb = p._atoms, p._bonds
    ta, tb = t._atoms, t._bonds
    pcomp, tcomp = components(pb), components(tb)
    order = bfs_order(pb)
    tnums = [n for n in ta if scope is None or n in scope]
    cand = {n: [c for c in tnums if pa[n] == ta[c]] for n in order}
    out = set()
    mp = {}
    used = set()

    def compatible(n, c):
        for m, d in mp.items():
            qb = pb[n].get(m)
            ob = tb[c].get(d)
            same = pcomp[n] == pcomp[m]
            if qb is not None:
                if ob is None or not (qb == ob):
                    return False
            elif ob is not None and same:
                return False
            if not same and tcomp[c] == tcomp[d]:
                return False
        return True

    def rec(i):
        if limit is not None and len(out) >= limit:
            return
        if i == len(order):
            out.add(tuple(sorted(mp.items())))
            return
        n = order[i]
        for c in cand[n]:
            if c in used or not compatible(n, c):
                continue
            mp[n] = c
            used.add(c)
            rec(i + 1)
            del mp[n]
            used.discard(c)

    rec(0)
    return out


def brute_embeddings(p, t):
    """oracles.iso.embeddings verbatim (every injective assignment tested), except that components come from the flood fill above:
    QueryContainer has no `connected_components`.  Only used to cross-check `embeddings` on small pairs."""
    import itertools
    pa, ta = list(p._atoms), list(t._atoms)
    pcomp, tcomp = components(p._bonds), components(t._bonds)
    out = set()
    for img in itertools.permutations(ta, len(pa)):
        mp = dict(zip(pa, img))
        if any(not (p._atoms[n] == t._atoms[mp[n]]) for n in pa):
            continue
        ok = True
        for n, m in itertools.combinations(pa, 2):
            pb = p._bonds[n].get(m)
            tb = t._bonds[mp[n]].get(mp[m])
            if pb is not None:
                if tb is None or not (pb == tb):
                    ok = False
                    break
            elif tb is not None and pcomp[n] == pcomp[m]:
                ok = False
                break
            if pcomp[n] != pcomp[m] and tcomp[mp[n]] == tcomp[mp[m]]:
                ok = False
                break
        if ok:
            out.add(tuple(sorted(mp.items())))
    return out


def automorphisms(keys, bonds):
    """all non-identity bijections of the labelled graph onto itself: keys {atom: hashable}, bonds {atom: {atom: bond}} compared by
    `==` on bonds; disconnected graphs included (whole-graph automorphisms, components may be exchanged)"""
    order = list(keys)
    out = []
    mp = {}
    used = set()

    def rec(i):
        if i == len(order):
            if any(k != v for k, v in mp.items()):
                out.append(dict(mp))
            return
        n = order[i]
        for c in order:
            if c in used or keys[c] != keys[n] or len(bonds[c]) != len(bonds[n]):
                continue
            ok = True
            for m, d in mp.items():
                qb = bonds[n].get(m)
                ob = bonds[c].get(d)
                if (qb is None) != (ob is None) or (qb is not None and not (qb == ob)):
                    ok = False
                    break
            if ok:
                mp[n] = c
                used.add(c)
                rec(i + 1)
                del mp[n]
                used.discard(c)

    rec(0)
    return out
