"""Root-cause families of the recorded C01 / C02 defects of the library, decided by independent predicates on the *input molecule*
(orbits from oracles/iso.py, blocks / cycles from networkx) - never by "it failed".  A failing input is keyed by a family only if its
predicate holds (and the kind of difference is the one the family explains); any other failing input keeps a per-input key, so new
defects and seeded changes still surface.

  alternating-ring-tie            an atom has two neighbours that lie in ONE automorphism orbit of the stereo-free graph but are bonded to it
                                  with different bond orders (cyclobutadiene, cyclooctatetraene, bridged cyclobutadienes): Morgan classes tie,
                                  no automorphism fixing the atom exchanges them, `_smiles` breaks the tie by insertion order.
  partially-labelled-twin         a labelled stereo element whose constitutionally equivalent twin is unlabelled (one of two equivalent centres /
                                  double bonds specified): the stereo-aware refinement only separates elements that are both labelled.
  odd-stereo-group                an odd number (>= 3) of labelled, constitutionally equivalent stereo elements (one orbit of the stereo-free graph)
                                  that are not all equivalent including configuration (R,S,R in three equal arms or components): `__differentiation`
                                  only looks at groups of even size, the odd group is never split and insertion order breaks the tie.
  morgan-incomplete               colour refinement (what Morgan refinement computes) leaves atoms of different automorphism orbits in one class
                                  (dispiro[2.2.2.2]decane: cyclopropane and cyclohexane CH2): ties between non-automorphic atoms.
  symmetric-spiro                 a spiro atom (cut vertex shared by two ring blocks, two neighbours in each) that the canonical traversal reaches while
                                  its second neighbour in the ring it comes from is still unwritten, and that neighbour and a neighbour in the other ring
                                  lie in one orbit and are equally far from the start atom of the canonical string: class, class size and breadth-first
                                  distance tie although own-ring / other-ring are not equivalent once the traversal has entered a ring.
  thiele-sssr-choice              a chordless six-membered ring with alternating double bonds, or a chordless pyrrole-type five-membered ring (Kekule
                                  form), that is not essential: a second ring of the same size whose symmetric
                                  difference with it is one smaller ring: only one of the two enters the SSSR, `thiele()` aromatises or not.
  diene-ring-closure-direction    two labelled, conjugated cis/trans double bonds (C=C-C=C) that lie in one ring: when one of them is written as the
                                  ring-closure bond the writer emits a wrong direction mark.
  sssr-dependent-chirality        a labelled tetrahedral centre inside a 2-connected block (cyclomatic number >= 2) whose minimum cycle basis is not
                                  unique, or lying on >= 3 rings of the basis: ring-based chirality perception (ring / ring-linker tetrahedra)
                                  depends on the SSSR picked and on the order of its rings, labels are dropped on re-reading.
"""
import itertools

import networkx as nx

from oracles import iso
from oracles.cycles import gf2_rank


def _graph(m):
    g = nx.Graph()
    g.add_nodes_from(m._atoms)
    g.add_edges_from((a, b) for a, b, _ in m.bonds())
    return g


def alternating_ring_tie(m, orb=None):
    orb = orb or iso.orbits(m)
    for x, nb in m._bonds.items():
        seen = {}
        for y, b in nb.items():
            o = seen.setdefault(orb[y], b.order)
            if o != b.order:
                return True
    return False


def symmetric_spiro(m, orb=None, start=None, order=None):
    """a spiro atom x (cut vertex of two ring blocks, two neighbours in each) with a neighbour y in one ring and z in the other that lie
    in one orbit AND are equally far (true graph distance) from the atom the canonical string starts with: class, class size and the
    breadth-first distance from the start - everything `_smiles` sorts by - tie although own-ring / other-ring are not equivalent.
    `start` (first written atom of the reference string; None = any start ties) or, tighter, `order` (the atom order of the reference
    string) is the only observation taken from the library.  With `order` the tie only counts where it is met: x is written after exactly
    one of its four ring neighbours (the traversal arrives through ring A) and the tie is between the still unwritten neighbour y of
    ring A and a neighbour z of ring B (after a trip round ring A both of its neighbours are written and only the two equivalent
    neighbours of ring B are left), and the atom written right after x is one of the tied ones; distances are taken from the first
    written atom of x's component."""
    g = _graph(m)
    blocks = [set(c) for c in nx.biconnected_components(g) if len(c) >= 3]
    if len(blocks) < 2:
        return False
    orb = orb or iso.orbits(m)
    if order is not None:
        pos = {n: i for i, n in enumerate(order)}
        comp_start = {}
        for c in nx.connected_components(g):
            s0 = min(c, key=pos.__getitem__)
            for n in c:
                comp_start[n] = s0
        dists = {}
    else:
        dist = nx.single_source_shortest_path_length(g, start) if start is not None else None
    for x in nx.articulation_points(g):
        mine = [b for b in blocks if x in b]
        for b1, b2 in itertools.combinations(mine, 2):
            n1 = [y for y in g[x] if y in b1]
            n2 = [y for y in g[x] if y in b2]
            if len(n1) != 2 or len(n2) != 2:
                continue
            if order is not None:
                s0 = comp_start[x]
                if s0 not in dists:
                    dists[s0] = nx.single_source_shortest_path_length(g, s0)
                dist = dists[s0]
                before = [y for y in n1 + n2 if pos[y] < pos[x]]
                if len(before) != 1:
                    continue
                own, other = (n1, n2) if before[0] in n1 else (n2, n1)
                y = next(v for v in own if v != before[0])
                tie = [z for z in other if orb[y] == orb[z] and dist[y] == dist[z]]
                # ... and the tie is the one that decides: the atom written right after x (first branch taken) is one of the tied atoms;
                # when a neighbour of another class sorts first, ring B is finished before y / z are looked at and their order is immaterial
                nxt = order[pos[x] + 1] if pos[x] + 1 < len(order) else None
                if tie and nxt in [y] + tie:
                    return True
                continue
            for y in n1:
                for z in n2:
                    if orb[y] == orb[z] and (dist is None or (y in dist and z in dist and dist[y] == dist[z])):
                        return True
    return False


def morgan_incomplete(m, orb=None):
    """colour refinement (1-dimensional Weisfeiler-Leman on element / isotope / charge / radical / hydrogens / in-ring flag and bond orders,
    the information Morgan refinement sees) leaves two atoms of DIFFERENT automorphism orbits in one class"""
    orb = orb or iso.orbits(m)
    g = _graph(m)
    bridges = {frozenset(e) for e in nx.bridges(g)}
    col = {n: (iso.atom_key(a), any(frozenset((n, k)) not in bridges for k in m._bonds[n])) for n, a in m.atoms()}
    while True:
        new = {n: (col[n], tuple(sorted((b.order, repr(col[k])) for k, b in m._bonds[n].items()))) for n in col}
        ids = {v: i for i, v in enumerate(sorted(set(map(repr, new.values()))))}
        new = {n: ids[repr(v)] for n, v in new.items()}
        if len(set(new.values())) == len(set(map(repr, col.values()))):
            col = new
            break
        col = new
    seen = {}
    for n, c in col.items():
        if seen.setdefault(c, orb[n]) != orb[n]:
            return True
    return False


def _cycles(g, bound):
    """simple cycles of length <= bound as (length, frozenset of edges)"""
    out = []
    for c in nx.simple_cycles(g, length_bound=bound):
        if len(c) >= 3:
            out.append((len(c), frozenset(frozenset(e) for e in zip(c, c[1:] + c[:1]))))
    return out


def _single_cycle(edges):
    deg = {}
    for e in edges:
        for v in e:
            deg[v] = deg.get(v, 0) + 1
    if not edges or any(d != 2 for d in deg.values()):
        return False
    h = nx.Graph()
    h.add_edges_from(tuple(e) for e in edges)
    return nx.is_connected(h)


def thiele_sssr_choice(m):
    k = m.copy()
    try:
        k.kekule()
    except Exception:
        return False
    g = _graph(k)
    order = {frozenset((a, b)): bd.order for a, b, bd in k.bonds()}
    for comp in nx.biconnected_components(g):
        if len(comp) < 5:
            continue
        h = g.subgraph(comp)
        if h.number_of_edges() - h.number_of_nodes() + 1 < 2:
            continue
        for size in (6, 5):
            rings = [c for n, c in _cycles(h, size) if n == size]
            for c in rings:
                atoms = {v for e in c for v in e}
                dbl = {v: sum(order[e] == 2 for e in c if v in e) for v in atoms}
                if size == 6:
                    if any(x != 1 for x in dbl.values()):
                        continue  # not an alternating ring
                else:
                    # five-membered ring thiele() can aromatise: two ring double bonds and one heteroatom without a ring double bond (pyrrole type)
                    lone = [v for v, x in dbl.items() if x == 0]
                    if sorted(dbl.values()) != [0, 1, 1, 1, 1] or k._atoms[lone[0]].atomic_number not in (7, 8, 15, 16, 34):
                        continue
                if any(frozenset((a, b)) not in c for a, b in h.subgraph(atoms).edges):
                    continue  # a ring with a chord is the sum of two shorter rings: in no minimum cycle basis, never looked at by thiele()
                for c2 in rings:
                    if c2 != c and len(c ^ c2) < size and _single_cycle(c ^ c2):
                        return True
                # general form of the same condition: the ring is not ESSENTIAL - it is a GF(2) sum of other cycles that are no longer than itself,
                # so some minimum cycle basis leaves it out (which one is perceived depends on the numbering)
                from oracles.cycles import gf2_rank
                eidx = {e: i for i, e in enumerate(sorted(h.edges, key=sorted))}

                def vec(cyc):
                    v = 0
                    for e in cyc:
                        a, b = tuple(e)
                        v |= 1 << eidx[(a, b) if (a, b) in eidx else (b, a)]
                    return v
                others = [vec(x) for n, x in _cycles(h, size) if x != c]
                if others and gf2_rank(others + [vec(c)]) == gf2_rank(others):
                    return True
    return False


def diene_ring_closure_direction(m):
    lab = [(a, b) for a, b, bd in m.bonds() if bd.stereo is not None and bd.order == 2]
    if len(lab) < 2:
        return False
    g = _graph(m)
    for (a, b), (c, d) in itertools.combinations(lab, 2):
        for p, q in ((a, b), (b, a)):
            for r, s in ((c, d), (d, c)):
                # p=q-r=s with q-r bonded; all four on one ring <=> p and s stay connected without q, r
                if g.has_edge(q, r) and len({p, q, r, s}) == 4:
                    h = g.copy()
                    h.remove_nodes_from((q, r))
                    if nx.has_path(h, p, s):
                        return True
    return False


def mcb_not_unique(h):
    """minimum cycle basis of the 2-connected graph h is not unique: for some length l more cycles of length l are independent of the
    shorter cycles than the rank grows"""
    basis = nx.minimum_cycle_basis(h)
    if len(basis) < 2:
        return False
    lmax = max(len(c) for c in basis)
    eidx = {frozenset(e): i for i, e in enumerate(h.edges)}
    cyc = sorted(((n, sum(1 << eidx[e] for e in c)) for n, c in _cycles(h, lmax)), key=lambda x: x[0])
    shorter = []
    for n, grp in itertools.groupby(cyc, key=lambda x: x[0]):
        vecs = [v for _, v in grp]
        r0 = gf2_rank(shorter)
        fresh = [v for v in vecs if gf2_rank(shorter + [v]) > r0]
        if len(fresh) > gf2_rank(shorter + vecs) - r0:
            return True
        shorter += vecs
    return False


def sssr_dependent_chirality(m):
    centres = {n for n, a in m.atoms() if a.stereo is not None and len(m._bonds[n]) >= 3}
    if not centres:
        return False
    g = _graph(m)
    for comp in nx.biconnected_components(g):
        if len(comp) >= 4 and centres & comp:
            h = g.subgraph(comp)
            if h.number_of_edges() - h.number_of_nodes() + 1 < 2:
                continue
            if mcb_not_unique(h):
                return True
            # ... or the centre lies on three or more basis rings: which pair of rings is taken for the ring-linker test depends on
            # the order of the ring list
            basis = nx.minimum_cycle_basis(h)
            if any(sum(n in c for c in basis) >= 3 for n in centres & comp):
                return True
    return False


def partially_labelled_twin(m, orb=None):
    """a labelled stereo element whose constitutional twin (image under an automorphism of the stereo-free graph) carries no label:
    `_chiral_morgan` only separates elements that are BOTH labelled, the labelled one and its twin keep one class"""
    orb = orb or iso.orbits(m)
    by_orb = {}
    for n, a in m.atoms():
        by_orb.setdefault(orb[n], []).append(a.stereo is not None)
    if any(True in v and False in v for v in by_orb.values()):
        return True
    bo = {}
    for a, b, bd in m.bonds():
        if bd.order == 2:
            bo.setdefault(frozenset((orb[a], orb[b])), []).append(bd.stereo is not None)
    return any(True in v and False in v for v in bo.values())


def odd_stereo_group(m, orb=None, limit=20000):
    """an orbit (stereo-free graph) holding an odd number >= 3 of labelled stereo elements (atoms: tetrahedral / allene centres; double
    bonds: by the orbits of their two atoms) that are not all images of each other under the configuration-keeping automorphisms
    (oracles/o01_stereo.py): `__differentiation` skips groups of odd size"""
    orb = orb or iso.orbits(m)
    ga, gb = {}, {}
    for n, a in m.atoms():
        if a.stereo is not None:
            ga.setdefault(orb[n], []).append(n)
    for a, b, bd in m.bonds():
        if bd.stereo is not None:
            gb.setdefault(frozenset((orb[a], orb[b])), []).append(frozenset((a, b)))
    ca = [v for v in ga.values() if len(v) >= 3 and len(v) % 2]
    cb = [v for v in gb.values() if len(v) >= 3 and len(v) % 2]
    if not ca and not cb:
        return False
    from oracles.o01_stereo import labels, _same_config
    lab = labels(m)
    if lab[3]:
        return False
    view = iso.graph_view(m, True)
    autos = []
    for f in iso.isomorphisms(view, view, limit=limit):
        if _same_config(m, m, f, lab):
            autos.append(f)
    for grp in ca:
        if not set(grp) <= {f[grp[0]] for f in autos}:
            return True
    for grp in cb:
        a, b = tuple(grp[0])
        if not set(grp) <= {frozenset((f[a], f[b])) for f in autos}:
            return True
    return False


def c01_family(m, relations):
    """family name for a failing C01 input (m normalised, relations = set of relations that failed) or None"""
    if thiele_sssr_choice(m):
        return 'thiele-sssr-choice'
    orb = iso.orbits(m)
    if alternating_ring_tie(m, orb):
        return 'alternating-ring-tie'
    if partially_labelled_twin(m, orb):
        return 'partially-labelled-twin'
    if odd_stereo_group(m, orb):
        return 'odd-stereo-group'
    if morgan_incomplete(m, orb):
        return 'morgan-incomplete'
    try:
        order = tuple(m.smiles_atoms_order)
    except Exception:
        order = None
    if order is not None and set(order) == set(m._atoms) and symmetric_spiro(m, orb, order=order):
        return 'symmetric-spiro'
    if set(relations) <= {'respell-chython'} and diene_ring_closure_direction(m):
        return 'diene-ring-closure-direction'  # a fault of the writer: only its own spellings are affected
    return None


def c02_family(m, differences):
    """family name for a failing C02 input; differences = descriptions returned by the round-trip comparison"""
    kinds = {'aromatic-reject' if d.startswith('reading') and 'InvalidAromaticRing' in d else d.split(' ')[0] for d in differences}
    if kinds <= {'bonds', 'atoms', 'aromatic-reject'} and thiele_sssr_choice(m):
        # either the re-read molecule is aromatised differently, or the aromatic text cannot be kekulised because the SSSR of the re-read
        # molecule does not contain the aromatic ring
        return 'thiele-sssr-choice'
    if kinds <= {'cis_trans'} and diene_ring_closure_direction(m):
        return 'diene-ring-closure-direction'
    if kinds <= {'tetrahedra'} and sssr_dependent_chirality(m):
        return 'sssr-dependent-chirality'
    return None


# smallest witnesses per family: fixed, seed-independent, run in both tiers with enough draws that the family key fires in every run
ANCHORS = {
    'alternating-ring-tie': ('C1=CC=C1', 'C1=CC=CC=CC=C1'),
    'partially-labelled-twin': ('C[C@H](Cl)C(C)Cl', 'F/C=C/C=CF', 'C[C@H]1CC(C)CNC1'),
    'odd-stereo-group': ('C[C@H](F)Cl.C[C@@H](F)Cl.C[C@H](F)Cl', 'N(C[C@H](F)Cl)(C[C@@H](F)Cl)C[C@H](F)Cl', 'B(/C=C/F)(/C=C\\F)/C=C/F'),
    'morgan-incomplete': ('C1CC12CCC1(CC2)CC1',),
    'symmetric-spiro': ('N1CCC2(CC1)CCNCC2', 'C1CC[Si]2(CC1)CCCCC2', 'C1CCCCCCC12CCCCCCC2'),
    'thiele-sssr-choice': ('C1=C2C=CC=C1C2',),
    'diene-ring-closure-direction': ('C1CCCCC/C=C/C=C/1', 'C1CCCCC/C=C\\C=C/1'),
    'sssr-dependent-chirality': ('C12=C3[C@]14C[C@]23C4', 'C12=C3[C@]14C[C@@]23C4'),
}
