"""simple-path enumerator (each path once up to reversal)"""


def simple_paths(adj, lo, hi):
    """all simple paths with lo <= #atoms <= hi as tuples, one direction per path (the lexicographically smaller)"""
    out = set()

    def rec(path, seen):
        if len(path) >= lo:
            t = tuple(path)
            r = t[::-1]
            out.add(min(t, r))
        if len(path) == hi:
            return
        for y in adj[path[-1]]:
            if y not in seen:
                seen.add(y)
                path.append(y)
                rec(path, seen)
                path.pop()
                seen.discard(y)
    for s in adj:
        rec([s], {s})
    return out
