"""C17 audit extension: reference views for CGR containers, an independent reader of the fragment SMILES written by
`linear_hash_smiles` / `morgan_hash_smiles` (tokens only: isotope, element, charge, bond symbol), breadth-first balls.
Nothing here calls chython/algorithms/fingerprints."""
import re
from collections import Counter

from . import o17_ref as R

_ATOM = re.compile(r'\[(\d*)([A-Z][a-z]?|[a-z]{1,2})(@{0,2})(H\d*)?(\+\d+|-\d+|\++|-+)?(?::\d+)?\]|Cl|Br|[BCNOPSFI]|[bcnops]')
_BOND = {'': 1, '-': 1, '=': 2, '#': 3, ':': 4, '~': 8}


class MolView:
    """what a molecule's fingerprints may depend on"""
    kind = 'mol'
    atom_key = staticmethod(R.atom_key)
    adjacency = staticmethod(R.adjacency)

    @staticmethod
    def token(a):
        return a.isotope or 0, a.atomic_symbol.lower(), a.charge


class CGRView:
    """condensed graph of reaction: identifiers may see (isotope, element, charge, product charge, radical, product radical);
    a dynamic bond is represented by hash((order or 0, product order or 0)) (DynamicBond.__int__ is outside the C17 anchors; recomputed)"""
    kind = 'cgr'

    @staticmethod
    def atom_key(a):
        return a.isotope or 0, a.atomic_number, a.charge, a.p_charge, bool(a.is_radical), bool(a.p_is_radical)

    @staticmethod
    def adjacency(m):
        adj = {n: {} for n in m._atoms}
        for a, b, bd in m.bonds():
            adj[a][b] = adj[b][a] = hash((bd.order or 0, bd.p_order or 0))
        return adj

    token = None      # dynamic SMILES syntax is not read back


def _atom_token(mt):
    if mt.group(2) is None:      # organic subset
        return 0, mt.group(0).lower(), 0
    iso = int(mt.group(1)) if mt.group(1) else 0
    c = mt.group(5)
    if not c:
        chg = 0
    elif len(c) > 1 and c[1:].isdigit():
        chg = int(c[1:]) * (1 if c[0] == '+' else -1)
    else:
        chg = len(c) * (1 if c[0] == '+' else -1)
    return iso, mt.group(2).lower(), chg


def read_linear(s):
    """'C=C-[NH3+]' -> ([(isotope, symbol.lower(), charge), ...], [bond order, ...]); None when the text is not atom (bond atom)*"""
    atoms, bonds, i = [], [], 0
    while True:
        mt = _ATOM.match(s, i)
        if not mt:
            return None
        atoms.append(_atom_token(mt))
        i = mt.end()
        if i == len(s):
            return atoms, bonds
        if s[i] in '-=#:~':
            bonds.append(_BOND[s[i]])
            i += 1
        else:
            bonds.append(1)


def composition(s):
    """Counter of (isotope, symbol.lower(), charge) over the atom tokens of a SMILES; None when other than bond / branch / ring-closure /
    component characters remain"""
    out, i = Counter(), 0
    s = s.split(' |', 1)[0]      # CXSMILES extension (radical list): not atoms
    while i < len(s):
        mt = _ATOM.match(s, i)
        if mt:
            out[_atom_token(mt)] += 1
            i = mt.end()
        elif s[i] in '-=#:~/\\()%.0123456789':
            i += 1
        else:
            return None
    return out


def ball(adj, a, d):
    """atoms within d bonds of a"""
    seen, front = {a}, {a}
    for _ in range(d):
        front = {y for x in front for y in adj[x]} - seen
        if not front:
            break
        seen |= front
    return seen
