"""Independent reference pieces for C12 (specifications, not verified): permutation parity, a reader-free *generator* of SMILES
spellings of one stereo element together with the configuration class the OpenSMILES rules assign to each spelling (computed from
the template, never by parsing), the action of constitutional automorphisms on stereo labelings (identity of stereoisomers), and
thin RDKit wrappers (RDKit = trusted external toolkit).  Nothing here imports chython's stereo code."""
import itertools


# ---- parity ---------------------------------------------------------------------------------------------------------------
def parity(seq, ref):
    """True iff seq is an odd permutation of ref (inversion count, independent of the library tables)"""
    pos = {x: i for i, x in enumerate(ref)}
    p = [pos[x] for x in seq]
    if sorted(p) != list(range(len(ref))):
        raise ValueError('not a permutation')
    inv = 0
    for i in range(len(p)):
        for j in range(i + 1, len(p)):
            if p[i] > p[j]:
                inv += 1
    return bool(inv & 1)


# ---- RDKit ----------------------------------------------------------------------------------------------------------------
_rd_ready = False


def _rd():
    global _rd_ready
    from rdkit import Chem
    if not _rd_ready:
        from rdkit import RDLogger
        RDLogger.DisableLog('rdApp.*')
        _rd_ready = True
    return Chem


def rd_can(text, legacy=True):
    """RDKit canonical isomeric SMILES of a SMILES text (atom maps dropped); None if RDKit rejects it"""
    Chem = _rd()
    old = Chem.GetUseLegacyStereoPerception()
    Chem.SetUseLegacyStereoPerception(bool(legacy))
    try:
        m = Chem.MolFromSmiles(text)
        if m is None:
            return None
        for a in m.GetAtoms():
            a.SetAtomMapNum(0)
        return Chem.MolToSmiles(m)
    finally:
        Chem.SetUseLegacyStereoPerception(old)


def rd_can_molblock(block, legacy=True):
    Chem = _rd()
    old = Chem.GetUseLegacyStereoPerception()
    Chem.SetUseLegacyStereoPerception(bool(legacy))
    try:
        m = Chem.MolFromMolBlock(block)
        if m is None:
            return None
        for a in m.GetAtoms():
            a.SetAtomMapNum(0)
        return Chem.MolToSmiles(m)
    finally:
        Chem.SetUseLegacyStereoPerception(old)


def rd_possible_centres(text):
    """indices (in written heavy+explicit atom order, hydrogens kept) of RDKit's possible tetrahedral stereocentres (new
    implementation, unassigned included)"""
    Chem = _rd()
    p = Chem.SmilesParserParams()
    p.removeHs = False
    m = Chem.MolFromSmiles(text, p)
    if m is None:
        return None
    return {i for i, _ in Chem.FindMolChiralCenters(m, includeUnassigned=True, useLegacyImplementation=False)}


# ---- spellings of ONE tetrahedral centre -----------------------------------------------------------------------------------
# each form: (template, neighbour order as the OpenSMILES rules read it).  'H' = the (implicit or explicit) hydrogen.
# a preceding atom comes first, then an implicit H, then ring-closure digits in the order written, then branches, then the tail.
_T4 = [('{a}[C{k}]({b})({c}){d}', 'abcd'),
       ('[C{k}]({a})({b})({c}){d}', 'abcd'),
       ('{a}[C{k}]({b})({c})({d})', 'abcd'),
       ('{a}([C{k}]({b})({c}){d})', 'abcd'),
       ('{a}[C{k}]1({b}){c}.{d}1', 'adbc'),
       ('[C{k}]1({a})({b}){c}.{d}1', 'dabc'),
       ('[C{k}]12({a}){b}.{c}1.{d}2', 'cdab'),
       ('[C{k}]21({a}){b}.{c}1.{d}2', 'dcab'),
       ('{d}1.{a}[C{k}]1({b}){c}', 'adbc'),
       ('{c}1.{d}2.[C{k}]12({a}){b}', 'cdab'),
       ('{a}[C{k}]%11({b}){c}.{d}%11', 'adbc')]
_T3 = [('{a}[C{k}H]({b}){c}', 'aHbc'),
       ('[C{k}H]({a})({b}){c}', 'Habc'),
       ('{a}([C{k}H]({b}){c})', 'aHbc'),
       ('{a}[C{k}]([H])({b}){c}', 'aHbc'),
       ('{a}[C{k}]({b})([H]){c}', 'abHc'),
       ('{a}[C{k}]({b})({c})[H]', 'abcH'),
       ('[H][C{k}]({a})({b}){c}', 'Habc'),
       ('[C{k}]([H])({a})({b}){c}', 'Habc'),
       ('[C{k}]({a})([H])({b}){c}', 'aHbc'),
       ('{a}[C{k}H]1{b}.{c}1', 'aHcb'),
       ('[C{k}H]1({a}){b}.{c}1', 'Hcab'),
       ('[C{k}H]12{a}.{b}1.{c}2', 'Hbca'),
       ('{c}1.{a}[C{k}H]1{b}', 'aHcb'),
       ('{b}1.{c}2.[C{k}H]12{a}', 'Hbca'),
       ('{a}[C{k}]1({b})[H].{c}1', 'acbH')]
# the centre in a later dot-separated component (water as the first component)
_T3DOT = [('O.[C{k}H]({a})({b}){c}', 'Habc'), ('O.{a}[C{k}H]({b}){c}', 'aHbc'), ('[C{k}H]({a})({b}){c}.O', 'Habc'), ('{a}[C{k}H]({b}){c}.O', 'aHbc'),
          ('O.[C{k}]({a})({b})({c})[H]', 'abcH'), ('O.[C{k}]([H])({a})({b}){c}', 'Habc')]
_T4DOT = [('O.[C{k}]({a})({b})({c}){d}', 'abcd'), ('O.{a}[C{k}]({b})({c}){d}', 'abcd'), ('[C{k}]({a})({b})({c}){d}.O', 'abcd')]
# a centre inside a real ring O1-C-C-C-[C]1 : x, y exocyclic; p = ring carbon neighbour, q = ring oxygen neighbour
_R4 = [('{x}[C{k}]1({y})CCCO1', 'xqyp'), ('{x}[C{k}]1({y})OCCC1', 'xpyq'), ('[C{k}]1({x})({y})CCCO1', 'qxyp'),
       ('[C{k}]1({x})({y})OCCC1', 'pxyq'), ('C1CCO[C{k}]1({x}){y}', 'qpxy'), ('O1CCC[C{k}]1({x}){y}', 'pqxy'),
       ('C1CC[C{k}]({x})({y})O1', 'pxyq'), ('O1CCC[C{k}]1({x})({y})', 'pqxy'), ('{x}[C{k}]2({y})CCCO2', 'xqyp')]
_R3 = [('{x}[C{k}H]1CCCO1', 'xHqp'), ('{x}[C{k}H]1OCCC1', 'xHpq'), ('[C{k}H]1({x})CCCO1', 'Hqxp'), ('[C{k}H]1({x})OCCC1', 'Hpxq'),
       ('C1CCO[C{k}H]1{x}', 'qHpx'), ('O1CCC[C{k}H]1{x}', 'pHqx'), ('C1CC[C{k}H]({x})O1', 'pHxq'), ('[C{k}]1([H])({x})CCCO1', 'qHxp'),
       ('{x}[C{k}]1([H])CCCO1', 'xqHp'), ('C1CCO[C{k}]1([H]){x}', 'qpHx'), ('[H][C{k}]1({x})OCCC1', 'Hpxq')]


def tetra_spellings():
    """yield (text, family, form, cls): within a family (same constitution) cls in {0, 1} is the configuration class:
    cls = [mark is '@'] xor parity(written neighbour order vs a fixed reference order); form = the template"""
    for k in ('@', '@@'):
        at = k == '@'
        for p in itertools.permutations(('F', 'Cl', 'Br', 'I')):
            sub = dict(zip('abcd', p))
            for tpl, order in _T4:
                yield tpl.format(k=k, **sub), 'T4', tpl, int(at ^ parity([sub[c] for c in order], ('F', 'Cl', 'Br', 'I')))
            for tpl, order in _T4DOT:
                yield tpl.format(k=k, **sub), 'T4dot', tpl, int(at ^ parity([sub[c] for c in order], ('F', 'Cl', 'Br', 'I')))
        for p in itertools.permutations(('F', 'Cl', 'Br')):
            sub = dict(zip('abc', p), H='H')
            for tpl, order in _T3:
                yield tpl.format(k=k, **sub), 'T3', tpl, int(at ^ parity([sub[c] for c in order], ('F', 'Cl', 'Br', 'H')))
            for tpl, order in _T3DOT:
                yield tpl.format(k=k, **sub), 'T3dot', tpl, int(at ^ parity([sub[c] for c in order], ('F', 'Cl', 'Br', 'H')))
        for p in itertools.permutations(('N', 'F')):
            sub = dict(zip('xy', p), p='p', q='q')
            for tpl, order in _R4:
                yield tpl.format(k=k, **sub), 'R4', tpl, int(at ^ parity([sub[c] for c in order], ('N', 'F', 'p', 'q')))
        for x in ('N',):
            sub = dict(x=x, p='p', q='q', H='H')
            for tpl, order in _R3:
                yield tpl.format(k=k, **sub), 'R3', tpl, int(at ^ parity([sub[c] for c in order], ('N', 'p', 'q', 'H')))


# ---- spellings of ONE double bond -------------------------------------------------------------------------------------------
def _side(written_before, mark):
    """position of a substituent relative to its double-bond atom: +1 above / -1 below.
    `X/C` (X written before the atom): the bond rises towards C, X is below; `C/X`: X is above."""
    up = mark == '/'
    return (-1 if up else 1) if written_before else (1 if up else -1)


def ct_spellings():
    """yield (text, family, form, cls): cls True = reference substituents (first of each end) on the same side, False = opposite,
    None = configuration not specified.  Spellings whose marks contradict each other are not generated.  Every form of one end
    (substituent before the atom, in a branch, behind a ring-closure digit opened/closed on either atom) is combined with the
    plain forms of the other end (the two ends are read independently, so the full cross product adds nothing).
    form names the ring-closure end when there is one (the plain partner end is irrelevant to how that end is read)."""
    D = ('', '/', '\\')
    for na in (1, 2):
        for nb in (1, 2):
            A = ('F', 'Cl')[:na]
            B = ('Br', 'I')[:nb]
            fam = f'CT{na}{nb}'
            lefts = []   # (form, plain?, prefix, text, suffix, {substituent: side or None})
            for d in D:
                for e in (D if na == 2 else ('',)):
                    a2 = f'({e}{A[1]})' if na == 2 else ''
                    q2 = f'(?{A[1]})' if na == 2 else ''
                    s2 = {A[1]: _side(False, e) if e else None} if na == 2 else {}
                    lefts.append((f'{A[0]}?C{q2}', True, '', f'{A[0]}{d}C{a2}', '', {A[0]: _side(True, d) if d else None, **s2}))
                    lefts.append((f'C(?{A[0]}){q2}', True, '', f'C({d}{A[0]}){a2}', '', {A[0]: _side(False, d) if d else None, **s2}))
                    # ring-closure bond as the substituent bond; mark on the double-bond atom's digit (opening) ...
                    lefts.append((f'C?1{q2} .{A[0]}1', False, '', f'C{d}1{a2}', f'.{A[0]}1', {A[0]: _side(False, d) if d else None, **s2}))
                    # ... or on the substituent's digit (closing): read as the bond  A -> C
                    lefts.append((f'C1{q2} .{A[0]}?1', False, '', f'C1{a2}', f'.{A[0]}{d}1', {A[0]: _side(True, d) if d else None, **s2}))
                    # substituent opens the ring bond before the double bond is written
                    lefts.append((f'{A[0]}?1. C1{q2}', False, f'{A[0]}{d}1.', f'C1{a2}', '', {A[0]: _side(True, d) if d else None, **s2}))
                    lefts.append((f'{A[0]}1. C?1{q2}', False, f'{A[0]}1.', f'C{d}1{a2}', '', {A[0]: _side(False, d) if d else None, **s2}))
            rights = []
            for f in D:
                for g in (D if nb == 2 else ('',)):
                    sf = _side(False, f) if f else None
                    sg = _side(False, g) if g else None
                    if nb == 2:
                        rights.append((f'C(?{B[0]})?{B[1]}', True, '', f'C({f}{B[0]}){g}{B[1]}', '', {B[0]: sf, B[1]: sg}))
                        rights.append((f'C?2?{B[1]} .{B[0]}2', False, '', f'C{f}2{g}{B[1]}', f'.{B[0]}2', {B[0]: sf, B[1]: sg}))
                        rights.append((f'C2?{B[1]} .{B[0]}?2', False, '', f'C2{g}{B[1]}', f'.{B[0]}{f}2', {B[0]: _side(True, f) if f else None, B[1]: sg}))
                    else:
                        rights.append((f'C?{B[0]}', True, '', f'C{f}{B[0]}', '', {B[0]: sf}))
                        rights.append((f'C(?{B[0]})', True, '', f'C({f}{B[0]})', '', {B[0]: sf}))
                        rights.append((f'C?2 .{B[0]}2', False, '', f'C{f}2', f'.{B[0]}2', {B[0]: sf}))
                        rights.append((f'C2 .{B[0]}?2', False, '', f'C2', f'.{B[0]}{f}2', {B[0]: _side(True, f) if f else None}))
            for lf, lplain, lp, lt, ls, lsd in lefts:
                sa = _end_side(lsd, A)
                if sa == 'bad':
                    continue
                for rf, rplain, rp, rt, rs, rsd in rights:
                    if not (lplain or rplain):
                        continue
                    sb = _end_side(rsd, B)
                    if sb == 'bad':
                        continue
                    cls = None if sa is None or sb is None else sa == sb
                    yield f'{lp}{rp}{lt}={rt}{ls}{rs}', fam, (f'{lf} =' if not lplain else f'= {rf}' if not rplain else f'{lf} = {rf}'), cls


def _end_side(sides, subs):
    """side of the reference (first) substituent of one end, None if the end carries no mark, 'bad' if contradictory"""
    first = sides[subs[0]]
    if len(subs) == 1:
        return first
    second = sides[subs[1]]
    if first is not None and second is not None:
        return 'bad' if first == second else first
    if first is not None:
        return first
    if second is not None:
        return -second
    return None


def diene_spellings():
    """conjugated dienes sharing the marks of the middle single bond: RDKit-only oracle (all marks mutually consistent)"""
    D = ('/', '\\')
    for a, b, c in itertools.product(D, repeat=3):
        o = '/' if c == '\\' else '\\'
        yield f'F{a}C=C{b}C=C{c}Cl', 'DIENE'
        yield f'F{a}C=C{b}C(C)=C{c}Cl', 'DIENE'
        yield f'C({a}F)=C{b}C=C{c}Cl', 'DIENE'
        yield f'F{a}C(C)=C{b}C=C({c}Cl){o}Br', 'DIENE'
        yield f'F{a}C=C{b}C=C{c}C=C{a}Cl', 'DIENE'
        yield f'C{a}1=C{b}C=C{c}Cl.F1', 'DIENE'


# ---- spellings of ONE allene (four heavy substituents; no toolkit oracle exists: RDKit has no allene stereo) ---------------
def allene_spellings():
    """yield (text, family, form, cls): extended tetrahedral rule - the allene is read as one tetrahedral centre whose neighbours are
    the substituents of the first-written end (in their written order) followed by those of the other end"""
    ref = ('F', 'Cl', 'Br', 'I')
    for k in ('@', '@@'):
        at = k == '@'
        for A in itertools.permutations(('F', 'Cl')):
            for B in itertools.permutations(('Br', 'I')):
                a, b = A
                c, d = B
                forms = [('{a}C({b})=[C{k}]=C({c}){d}', (a, b, c, d)),
                         ('C({a})({b})=[C{k}]=C({c}){d}', (a, b, c, d)),
                         ('{c}C({d})=[C{k}]=C({a}){b}', (c, d, a, b)),
                         ('[C{k}](=C({a}){b})=C({c}){d}', (a, b, c, d)),
                         ('{a}C({b})=[C{k}]=C1{d}.{c}1', (a, b, c, d)),
                         ('{a}C1=[C{k}]=C({c}){d}.{b}1', (a, b, c, d)),
                         ('C1({b})=[C{k}]=C({c}){d}.{a}1', (a, b, c, d)),
                         ('{a}C(=[C{k}]=C({c}){d}){b}', (a, c, d, b))]
                for tpl, order in forms:
                    yield tpl.format(a=a, b=b, c=c, d=d, k=k), 'AL4', tpl, int(at ^ parity(order, ref))


# ---- identity of stereoisomers: automorphisms acting on labelings -----------------------------------------------------------
def labeling_action(elements, autos):
    """elements: list of ('t', n, env) | ('c', (n, m), (n1, m1), subs_n, subs_m) | ('a', c, (n1, m1), subs_n, subs_m, (tn, tm))
    where env / n1 / m1 are the reference neighbours the label bit refers to (bit = sign passed to add_*_stereo for that reference).
    autos: iterable of automorphisms (dict atom -> atom) of the stereo-free graph.
    Returns a function image(labels tuple) -> set of label tuples equivalent to it (the orbit under the given automorphisms)."""
    index = {}
    for i, e in enumerate(elements):
        if e[0] == 't':
            index[('t', e[1])] = i
        elif e[0] == 'c':
            index[('c', frozenset(e[1]))] = i
        else:
            index[('a', e[1])] = i
    acts = []
    for s in autos:
        perm, flip = [None] * len(elements), [False] * len(elements)
        ok = True
        for i, e in enumerate(elements):
            if e[0] == 't':
                j = index.get(('t', s[e[1]]))
                if j is None:
                    ok = False
                    break
                img = [s[x] for x in e[2]]
                perm[i], flip[i] = j, parity(img, elements[j][2])
            elif e[0] == 'c':
                n, m = e[1]
                j = index.get(('c', frozenset((s[n], s[m]))))
                if j is None:
                    ok = False
                    break
                tn, tm = elements[j][1]
                r1, r2 = elements[j][2]
                i1, i2 = s[e[2][0]], s[e[2][1]]
                if s[n] != tn:
                    i1, i2 = i2, i1
                perm[i], flip[i] = j, (i1 != r1) ^ (i2 != r2)
            else:
                j = index.get(('a', s[e[1]]))
                if j is None:
                    ok = False
                    break
                tn, tm = elements[j][5]
                r1, r2 = elements[j][2]
                i1, i2 = s[e[2][0]], s[e[2][1]]
                if s[e[5][0]] != tn:
                    i1, i2 = i2, i1
                perm[i], flip[i] = j, (i1 != r1) ^ (i2 != r2)
        if ok:
            acts.append((perm, flip))

    def image(labels):
        out = set()
        for perm, flip in acts:
            new = [None] * len(labels)
            for i, b in enumerate(labels):
                new[perm[i]] = b ^ flip[i]
            out.add(tuple(new))
        return out
    return image


def orbits_of_labelings(labelings, image):
    """partition the given labelings (tuples of bools) into classes of identical stereoisomers"""
    labelings = list(labelings)
    cls = {}
    for L in labelings:
        if L in cls:
            continue
        rep = min(image(L) | {L})
        cls[L] = rep
    return cls
