"""C03 - family keys decided by the INPUT TEXT (tightness of the known-finding families).

A string the reference grammar rejects gets, next to the reject reason, a *context*: which known lenient reading of the pinned reader the
offending construct is (a text predicate around the error position), and a *repair*: the string of the language that lenient reading amounts to
(leading branch folded in, forgotten dot deleted, trailing '!' deleted, misplaced ring-closure digit moved to its atom, dropped reaction component
deleted, ...).  Repairs are iterated (a string may contain several such constructs).  The family key of an accepted string outside the language is

    smiles-accept:<first reason>:<context>[:rxn]/<as-repaired | not-as-repaired>      when every defect of the string has a repair
    smiles-accept:<first reason>:other[:rxn]                                           otherwise

so a string with an unrelated extra defect, or a lenient reading that builds something else than the repaired string denotes, has a different key.
`members` (strings of the domain for which the predicate holds, whatever the reader does) are counted by checks/b03.py for the tightness table.
Nothing here looks at what chython returns.
"""
import re
import unicodedata

from . import o03_refsmiles as R

_RB = r'(?:[-=#:~/\\]?(?:[0-9]|%[0-9][0-9]))'
_ATOM = r'(?:\[[^\]]*\]|Cl|Br|[BCNOPSFIbcnops])'
# a bracket that has the shape of a bracket atom (letters the reader's atom pattern knows, a valid charge spelling) around something that is no element
_LOOSE_BRACKET = re.compile(r'([1-9][0-9]{0,2})?([A-IK-PR-Zacnopsbt][a-ik-pr-vy]?)(@@|@)?(H[1-4]?)?(\+\+|--|[+-][1-4]?)?(:[0-9]{1,4})?')
_HH_BRACKET = re.compile(r'\[([0-9]*)H(@{0,2})H[1-4]?((?:\+\+|--|[+-][1-4]?)?(?::[0-9]{1,4})?)\]')
_TOK = re.compile(r'\[[^\]]*\]|%[0-9][0-9]|[0-9]|Cl|Br|.', re.S)
DROPPED = ('bracket-isotope-not-tabulated', 'duplicate-bond', 'ring-closure-self', 'bracket-symbol', 'bracket-trailing')
TRACKED = {'atom-expected:branch-misplaced', 'bad-char:!', 'bond-without-atom', 'bracket-hydrogen-hcount', 'cx-fragment-index', 'dot-without-atom',
           'reaction-empty-component', 'ring-closure-after-branch', 'ring-closure-percent', 'bad-char:non-ascii-digit'} | set(DROPPED)


def _non_ascii_digit(t):
    """a non-ASCII character Python counts as a digit, outside brackets"""
    return any(ord(c) > 127 and (c.isdecimal() or c.isdigit() or c.isnumeric()) for c in re.sub(r'\[[^\]]*\]', '', t))


def reason_family(reason, smi=''):
    """reject reason -> family reason: any non-ASCII character Python counts as a digit is one family"""
    if smi and _non_ascii_digit(smi):
        return 'bad-char:non-ascii-digit'
    if 'bad-char:' in reason:
        head, c = reason.rsplit('bad-char:', 1)
        if len(c) == 1 and ord(c) > 127 or c.startswith("'"):
            return head + 'bad-char:non-ascii-or-control'
    return reason


def _locate(t, isotope_ok, dots):
    """-> (reason, position of the parser when it gave up) or None when t is a molecule of the language"""
    p = R._P(t, isotope_ok, dots)
    try:
        p.parse()
    except R.Reject as e:
        return e.args[0], p.i
    return None


def _match_close(t, i):
    """index of the ')' closing the '(' at i (brackets skipped), or -1"""
    d, j, n = 0, i, len(t)
    while j < n:
        c = t[j]
        if c == '[':
            k = t.find(']', j)
            if k < 0:
                return -1
            j = k
        elif c == '(':
            d += 1
        elif c == ')':
            d -= 1
            if d == 0:
                return j
        j += 1
    return -1


def _match_open(t, j):
    """index of the '(' opened for the ')' at j, or -1"""
    d, i = 0, j
    while i >= 0:
        c = t[i]
        if c == ']':
            k = t.rfind('[', 0, i)
            if k < 0:
                return -1
            i = k
        elif c == ')':
            d += 1
        elif c == '(':
            d -= 1
            if d == 0:
                return i
        i -= 1
    return -1


def _repair_mol(t, reason, i):
    """one molecule / reaction component t, reference gave up with `reason` at position i -> (context, repaired text) or None"""
    n = len(t)
    if _non_ascii_digit(t):
        out = []
        for tok in _TOK.findall(t):
            if len(tok) == 1 and ord(tok) > 127 and (tok.isdecimal() or tok.isdigit() or tok.isnumeric()):
                try:
                    out.append(str(unicodedata.digit(tok)))
                except ValueError:
                    return None
            else:
                out.append(tok)
        return 'read-as-ascii-digit', ''.join(out)
    if reason == 'atom-expected:branch-misplaced' and i < n and t[i] == '(':
        j = _match_close(t, i)
        if j < 0:
            return None
        if i == 0:        # "(XY)Z": the first atom becomes the root, the rest of the branch its first branch
            m = re.match(_ATOM + _RB + '*', t[1:])
            if not m:
                return None
            k = 1 + m.end()
            q = k                     # branches of the first atom stay its branches
            while q < j and t[q] == '(':
                e = _match_close(t, q)
                if e < 0 or e >= j:
                    return None
                q = e + 1
            inner = t[q:j]
            return 'leading-branch', t[1:q] + (f'({inner})' if inner else '') + t[j + 1:]
        if t[i - 2:i] == '(.':   # "(.(X)Y)": the dot is forgotten, both parts hang on the parent
            jo = _match_close(t, i - 2)
            if jo < 0 or jo <= j:
                return None
            rest = t[j + 1:jo]
            return 'branch-after-dot-in-branch', t[:i - 2] + t[i:j + 1] + (f'({rest})' if rest else '') + t[jo + 1:]
        return None
    if reason == 'bad-char:!' and i == n - 1:
        return 'trailing', t[:-1]
    if reason == 'bond-without-atom' and 2 <= i < n and t[i - 2] == '(' and t[i - 1] in '-=#:~/\\' and (t[i].isdigit() or t[i] == '%'):
        m = re.match(_RB + '+', t[i - 1:])
        if not m:
            return None
        k = i - 1 + m.end()
        tail = t[k:]
        return 'branch-starts-with-ring-bond', t[:i - 2] + t[i - 1:k] + (tail[1:] if tail.startswith(')') else '(' + tail)
    if reason == 'bracket-hydrogen-hcount':
        b = t.rfind('[', 0, i)
        if b < 0:
            return None
        m = _HH_BRACKET.fullmatch(t[b:i])
        if not m:
            return None
        return 'hydrogen-with-hcount', t[:b] + f'[{m.group(1)}H{m.group(2)}{m.group(3)}]' + t[i:]
    if reason == 'dot-without-atom' and 0 < i < n and t[i - 1] == '.' and t[i] == '(':
        return 'dot-before-branch', t[:i - 1] + t[i:]
    if reason == 'ring-closure-after-branch' and i >= 1 and t[i - 1] == ')':
        m = re.match(_RB + '+', t[i:])
        rb = m.group() if m else None
        end = i + m.end() if m else None
        if m is None:
            m = re.fullmatch(r'([-=#:~/\\]?)%([1-9])', t[i:])     # with the one-digit %n at the very end the reader also takes
            if not m:
                return None
            rb, end = m.group(1) + m.group(2), n
        q = i - 1
        while True:
            o = _match_open(t, q)
            if o < 0:
                return None
            if o >= 1 and t[o - 1] == ')':
                q = o - 1
                continue
            break
        return 'after-branch', t[:o] + rb + t[o:i] + t[end:]
    if reason == 'ring-closure-percent':
        m = re.fullmatch(r'([-=#:~/\\]?)%([1-9])', t[i:])
        if m:
            return 'one-digit-at-end', t[:i] + m.group(1) + m.group(2)
    return None


def _strip_closure_pair(t, end):
    """t without the ring-closure token that ends at `end` and the token that opened the same number (with their bond symbols)"""
    toks, pos = [], 0
    for tok in _TOK.findall(t):
        toks.append((pos, pos + len(tok), tok))
        pos += len(tok)
    open_, close = {}, None
    for k, (a, b, tok) in enumerate(toks):
        if tok[0] == '%' and len(tok) == 3 or tok.isdigit() and len(tok) == 1:
            d = int(tok.lstrip('%'))
            if b == end:
                if d not in open_:
                    return None
                close = (open_[d], k)
                break
            if d in open_:
                del open_[d]
            else:
                open_[d] = k
    if close is None:
        return None
    kill = set()
    for k in close:
        kill.add(k)
        if k and toks[k - 1][2] in tuple('-=#:~/\\'):
            kill.add(k - 1)
    return ''.join(tok for k, (_, _, tok) in enumerate(toks) if k not in kill)


def _neutralise(comp, reason, pos):
    """the component with the construct the molecule builder refuses replaced by something harmless (to see whether anything else is wrong)"""
    if reason in ('duplicate-bond', 'ring-closure-self'):
        return _strip_closure_pair(comp, pos)
    b = comp.rfind('[', 0, pos)
    e = comp.find(']', b)
    if b < 0 or e < 0 or e + 1 != pos:
        return None
    if reason == 'bracket-isotope-not-tabulated':
        return comp[:b + 1] + comp[b + 1:e].lstrip('0123456789') + comp[e:]
    if not _LOOSE_BRACKET.fullmatch(comp[b + 1:e]):
        return None
    return comp[:b] + '[Fe]' + comp[e + 1:]


def _drop_component(roles, words, k):
    """reaction text without component k (flat index) - and without the whole f: group it belongs to; CXSMILES indices shifted"""
    flat = [(ri, c) for ri, r in enumerate(roles) for c in r]
    cx = _cx(words)
    drop = {k}
    rad, groups = [], []
    if cx is not None:
        try:
            rad, groups = R._parse_cx(cx)
        except R.Unspecified:
            return None
        for g in groups:
            if k in g:
                drop |= set(g)
        if any(x >= len(flat) for g in groups for x in g):
            return None
    sizes = [sum(1 for _ in R._atoms_of(c)) for _, c in flat]
    new_roles = [[], [], []]
    shift, ashift, off, t = {}, {}, 0, 0
    for i, (ri, c) in enumerate(flat):
        if i in drop:
            t += sizes[i]
            continue
        shift[i] = len(shift)
        for a in range(sizes[i]):
            ashift[t + a] = off + a
        off += sizes[i]
        t += sizes[i]
        new_roles[ri].append(c)
    if not any(new_roles):
        return None
    feats = []
    r2 = [ashift[x] for x in rad if x in ashift]
    if any(x >= t for x in rad):
        return None
    if r2:
        feats.append('^1:' + ','.join(map(str, r2)))
    g2 = ['.'.join(str(shift[x]) for x in g) for g in groups if not (set(g) & drop)]
    if g2:
        feats.append('f:' + ','.join(g2))
    rest = words[2:] if cx is not None else words[1:]
    return ' '.join(['>'.join('.'.join(r) for r in new_roles)] + (['|' + ','.join(feats) + '|'] if feats else []) + rest)


def _split_rxn(smi):
    parts = smi.split('>')
    if len(parts) != 3:
        return None
    return [p.split('.') if p != '' else [] for p in parts]


def _cx(words):
    return words[1] if len(words) > 1 and len(words[1]) >= 2 and words[1][0] == '|' and words[1][-1] == '|' else None


def _drop_groups(cx, bad):
    """CXSMILES text without the f: groups selected by bad(group indices); None if the cx text is not plain ^n: / f: features"""
    feats, mode = [], None
    for item in cx[1:-1].split(','):
        if re.match(r'\^[1-7]:', item):
            mode = 'r'
            feats.append(['r', item])
        elif item.startswith('f:'):
            mode = 'f'
            feats.append(['f', item[2:]])
        elif mode == 'r':
            feats[-1][1] += ',' + item
        elif mode == 'f':
            feats.append(['f', item])
        else:
            return None
    out, fs = [], []
    for k, v in feats:
        if k == 'r':
            out.append(v)
        else:
            try:
                g = [int(x) for x in v.split('.')]
            except ValueError:
                return None
            if not bad(g):
                fs.append(v)
    if fs:
        out.append('f:' + ','.join(fs))
    return '|' + ','.join(out) + '|' if out else ''


def repair_step(s, isotope_ok):
    """-> None (in the language / no verdict) | (reason, context or None, repaired string or None)"""
    try:
        R.read(s, isotope_ok)
        return None
    except R.Unspecified:
        return None
    except R.Reject as e:
        reason = e.args[0]
    words = s.split()
    if not words:
        return reason, None, None
    smi = words[0]
    cx = _cx(words)
    tail = (' ' + ' '.join(words[1:])) if len(words) > 1 else ''
    fam = reason_family(reason, smi)
    if '>' not in smi:
        if reason == 'cx-fragment-index' and cx is not None:   # f: block of a molecule string is not looked at
            new = _drop_groups(cx, lambda g: True)
            if new is None:
                return fam, None, None
            return fam, 'molecule', smi + ' ' + (new or '||') + ((' ' + ' '.join(words[2:])) if len(words) > 2 else '')
        loc = _locate(smi, isotope_ok, True)
        if loc is None:
            return fam, None, None
        r = _repair_mol(smi, loc[0], loc[1])
        return (fam, None, None) if r is None else (fam, r[0], r[1] + tail)
    roles = _split_rxn(smi)
    if roles is None:
        return fam, None, None
    if reason == 'reaction-empty-component':
        return fam, 'skipped', '>'.join('.'.join(c for c in r if c) for r in roles) + tail
    ncomp = sum(len(r) for r in roles)
    if reason == 'cx-fragment-index' and cx is not None:
        new = _drop_groups(cx, lambda g: any(x >= ncomp for x in g))
        if new is None:
            return fam, None, None
        return fam, 'group-ignored', smi + ' ' + (new or '||') + ((' ' + ' '.join(words[2:])) if len(words) > 2 else '')
    k = 0
    for ri, role in enumerate(roles):
        for ci, comp in enumerate(role):
            loc = _locate(comp, isotope_ok, False) if comp else ('reaction-empty-component', 0)
            if loc is not None:
                rs, pos = loc
                if rs in DROPPED and not _non_ascii_digit(comp):
                    # a component the molecule builder refuses is dropped from the reaction (with the whole f: group it belongs to), provided
                    # nothing else is wrong with it (then the tokenizer / parser reject the whole reaction)
                    neutral = _neutralise(comp, rs, pos)
                    if neutral is None or _locate(neutral, isotope_ok, False) is not None:
                        return fam, None, None
                    new = _drop_component(roles, words, k)
                    if new is None:
                        return fam, None, None
                    return fam, 'component-dropped', new
                r = _repair_mol(comp, rs, pos)
                if r is None:
                    return fam, None, None
                new = [list(r_) for r_ in roles]
                new[ri][ci] = r[1]
                return fam, r[0], '>'.join('.'.join(r_) for r_ in new) + tail
            k += 1
    return fam, None, None


def classify(s, isotope_ok, max_steps=8):
    """-> (family reason, context, fully repaired string) ; context 'other' / repaired None when some defect has no repair"""
    first = None
    cur = s
    for _ in range(max_steps):
        st = repair_step(cur, isotope_ok)
        if st is None:
            if first is None:
                return None
            try:
                R.read(cur, isotope_ok)
            except R.Unspecified:
                return first[0], f'{first[1]}/then-no-verdict', None
            except R.Reject:
                return first[0], 'other', None
            return first[0], first[1], cur
        fam, ctx, nxt = st
        if first is None:
            first = (fam, ctx)
        if nxt is None or nxt == cur:
            return first[0], 'other', None
        cur = nxt
    return first[0], 'other', None


def accept_key(s, reason, isotope_ok):
    """-> (key without the outcome part, repaired string or None)"""
    words = s.split()
    smi = words[0] if words else ''
    rx = ':rxn' if '>' in smi else ''
    fam = reason_family(reason, smi)
    if fam not in TRACKED:
        return f'smiles-accept:{fam}{rx}', None
    c = classify(s, isotope_ok)
    if c is None:
        return f'smiles-accept:{fam}{rx}', None
    ctx = c[1]
    if rx and c[2] is not None and c[2] != s and _cx(words) is not None and 'f:' in _cx(words) and '^' in _cx(words):
        # radical indices of the accepted text meet the fragment grouping of the accepted text (family rxn.radicals:cx-groups)
        try:
            rad, groups = R._parse_cx(_cx(words))
            roles = _split_rxn(smi)
            flat = [x for r in roles for x in r if x]
            if rad and groups and roles and all(x < len(flat) for g in groups for x in g):
                sizes = [sum(1 for _ in R._atoms_of(x)) for x in flat]
                head = {}
                for g in groups:
                    for x in sorted(g):
                        head[x] = min(g)
                order = sorted(range(len(flat)), key=lambda i: (head.get(i, i), i))
                old = [(i, a) for i in range(len(flat)) for a in range(sizes[i])]
                new = [(i, a) for i in order for a in range(sizes[i])]
                if any(x < len(old) and old[x] != new[x] for x in rad):
                    ctx += '+radical-index-displaced'
        except R.Unspecified:
            pass
    return f'smiles-accept:{c[0]}:{ctx}{rx}', c[2]


# ---- exceptions: structural context of the input ---------------------------------------------------------------------------------
_QRB = re.compile(r'[-=#:~];!?@')


def _two_marked_closures(rm):
    """a double bond with / or \\ marked substituents on both ends, one end having three further neighbours"""
    for (a, b), o in rm.bonds.items():
        if o != 2:
            continue
        na = [x for x in rm.neighbors(a) if x != b]
        nb = [x for x in rm.neighbors(b) if x != a]
        if any((a, x) in rm.dirs for x in na) and any((b, x) in rm.dirs for x in nb) and (len(na) >= 3 or len(nb) >= 3):
            return True
    return False


def _marked_cumulene_closure(rm):
    """an atom with two double bonds and directional marks on both sides of the cumulene"""
    for i in range(len(rm.atoms)):
        dbl = [k for k, o in rm.bonds.items() if o == 2 and i in k]
        if len(dbl) == 2:
            ends = [x for k in dbl for x in k if x != i]
            if all(any(p == e for (p, _x) in rm.dirs) for e in ends):
                return True
    return False


def exc_context(s, rec=None, isotope_ok=None):
    """structural class of the input for the exception families; rec: reference record of s or of its repaired reading (None: text only)"""
    words = s.split()
    smi = words[0] if words else ''
    arrows_ok = True
    if '>' in smi:
        roles = smi.split('>')
        arrows_ok = len(roles) == 3
        comps = [c for p in (roles[0:1] + roles[2:3] + roles[1:2] + roles[3:]) for c in p.split('.') if c]   # the order the reader parses them in
    else:
        comps = [smi]
    for k, c in enumerate(comps):
        if c == ';':
            # components parsed before it: in the language, or only with constructs the reader is known to accept
            first = arrows_ok and all(_locate(x, isotope_ok, '>' not in smi) is None or (classify(x, isotope_ok) or (0, 0, None))[2] is not None
                                      for x in comps[:k])
            cx = _cx(words)
            if first and '>' in smi and cx is not None and 'f:' in cx:      # grouped with another component the text is no longer ';' alone
                written = [(ri, x) for ri, p in enumerate(smi.split('>')) for x in p.split('.') if x]
                try:
                    groups = R._parse_cx(cx)[1]
                    first = not any(all(x < len(written) for x in g) and len({written[x][0] for x in g}) == 1 and any(written[x][1] == ';' for x in g)
                                    for g in groups)
                except R.Unspecified:
                    first = False
            return 'semicolon-only-component/' + ('first-defect' if first else 'after-other-defect')
    if _QRB.search(smi):
        plain = ' '.join([_QRB.sub(lambda m: m.group()[0], smi)] + words[1:])
        try:
            R.read(plain, isotope_ok)
            return 'query-ring-bond-token/otherwise-in-the-language'
        except (R.Reject, R.Unspecified):
            return 'query-ring-bond-token/with-other-defect'
    if rec is not None:
        mols = rec.mols if rec.kind == 'molecule' else rec.reactants + rec.reagents + rec.products
        if any(_marked_cumulene_closure(m) for m in mols):
            return 'directional-marks-around-cumulene'
        if any(_two_marked_closures(m) for m in mols):
            return 'double-bond-atom-with-three-substituents-and-directional-mark'
    return 'none'


# ---- CXSMILES radicals displaced by fragment grouping ------------------------------------------------------------------------------
def displaced_radicals(s, isotope_ok):
    """reaction string of the language with f: groups and ^n: radicals: does a radical index point at another atom once the grouped components
    are moved next to the first member of their group?  (text + reference reader only)"""
    words = s.split()
    if len(words) < 2 or '>' not in words[0]:
        return False
    cx = _cx(words)
    if cx is None:
        return False
    try:
        rad, groups = R._parse_cx(cx)
    except R.Unspecified:
        return False
    if not rad or not groups:
        return False
    roles = _split_rxn(words[0])
    if roles is None:
        return False
    comps = [c for r in roles for c in r]
    sizes = [sum(1 for _ in R._atoms_of(c)) for c in comps]
    head = {}
    for g in groups:
        g = sorted(g)
        if any(x >= len(comps) for x in g):
            return False
        for x in g:
            head[x] = g[0]
    order = sorted(range(len(comps)), key=lambda i: (head.get(i, i), i))
    old = [(i, a) for i in range(len(comps)) for a in range(sizes[i])]
    new = [(i, a) for i in order for a in range(sizes[i])]
    return any(x < len(old) and old[x] != new[x] for x in rad)
