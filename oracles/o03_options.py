"""C03 - what the documented keywords of `chython.smiles` change (specification side, written from the docstring of `smiles`):

    ignore=False               "Skip some checks of data or try to fix some errors" switched off: the reader raises (ValueError) where the default
                               logs a fix; nothing else changes.  Fixes of strings INSIDE the language (independent predicates on the text):
                               a ring closure whose bond symbol (not / or \\) is written on one end only, an atom class used twice in a molecule /
                               role or a reagent class also used by reactants or products, a bracket H count the default only records as
                               `chython_implicit_mismatch`
    remap=True                 "Remap atom numbers started from one": molecule -> 1..N in written order; reaction -> the default numbers pushed
                               through an order preserving bijection onto 1..K
    ignore_stereo=True         "Ignore stereo data": no stereo label at all, nothing else changes
    ignore_bad_isotopes=True   "reset invalid isotope mark to non-isotopic": the molecule of the text with those marks removed
    keep_implicit=True         "keep given in smiles implicit hydrogen count": every bracket atom has exactly the written count (and is not guessed
                               to be a radical), other atoms as in the default
    ignore_carbon_radicals=True "fill carbon radicals with hydrogen": carbons the default lists in `chython_radicalized_atoms` are no radicals and
                               carry one more hydrogen, nothing else changes
    ignore_aromatic_radicals   default True "don't treat aromatic tokens like c[c]c as radicals": the two values may differ only on aromatic
                               bracket atoms B/C/N/P written without H and charge, the radicals of True are a subset of those of False

`snapshot` is position based (atoms in written order), stereo is read through the library's own `_translate_*_sign` relative to neighbours
chosen by written position, so that renumbering does not change it.
"""


def one_sided_ring_symbol(smi):
    """a ring closure of the text carries a bond symbol other than / and \\ on exactly one of its two ends (brackets skipped)"""
    i, n = 0, len(smi)
    open_ = {}
    sym = None
    while i < n:
        c = smi[i]
        if c == '[':
            j = smi.find(']', i)
            if j < 0:
                return False
            i, sym = j + 1, None
            continue
        if c in '-=#:~/\\':
            sym = c
            i += 1
            continue
        d = None
        if c in '123456789':
            d, i = int(c), i + 1
        elif c == '%' and smi[i + 1:i + 3].isdigit() and len(smi[i + 1:i + 3]) == 2:
            d, i = int(smi[i + 1:i + 3]), i + 3
        else:
            i += 1
            sym = None
            continue
        if d in open_:
            o = open_.pop(d)
            if (o is None) != (sym is None) and (o if o is not None else sym) not in '/\\':
                return True
        else:
            open_[d] = sym
        sym = None
    return False


def duplicate_classes(rec):
    """strict mode has a mapping error to report: class twice in a molecule / role, or reagent class shared with reactants or products"""
    if rec.kind == 'molecule':
        cl = [a.amap for a in rec.mols[0].atoms if a.amap]
        return len(set(cl)) != len(cl)
    roles = []
    for r in (rec.reactants, rec.reagents, rec.products):
        cl = [a.amap for m in r for a in m.atoms if a.amap]
        if len(set(cl)) != len(cl):
            return True
        roles.append(set(cl))
    return bool(roles[1] & (roles[0] | roles[2]))


# ---- position based view of what was built --------------------------------------------------------------------------------
def _mols(obj):
    from chython.containers import ReactionContainer
    if isinstance(obj, ReactionContainer):
        return [('reactants', list(obj.reactants)), ('reagents', list(obj.reagents)), ('products', list(obj.products))]
    return [('molecule', [obj])]


def snap_mol(mol):
    nums = list(mol._atoms)
    idx = {n: i for i, n in enumerate(nums)}
    atoms = [(a.atomic_symbol, a.isotope or None, a.charge, a.implicit_hydrogens, bool(a.is_radical)) for a in mol._atoms.values()]
    bonds = {}
    for n, m, b in mol.bonds():
        i, j = idx[n], idx[m]
        bonds[(i, j) if i < j else (j, i)] = int(b)
    tet, ct, al = {}, {}, {}
    st = mol.stereogenic_tetrahedrons
    for n, a in mol._atoms.items():
        if a.stereo is None:
            continue
        if n in st:
            env = sorted(st[n], key=idx.get)
            tet[idx[n]] = mol._translate_tetrahedron_sign(n, env)
        elif n in mol.stereogenic_allenes:
            n0, n1, n2, n3 = mol.stereogenic_allenes[n]
            e1 = min((x for x in (n0, n2) if x is not None), key=idx.get)
            e2 = min((x for x in (n1, n3) if x is not None), key=idx.get)
            if idx[e1] > idx[e2]:
                e1, e2 = e2, e1
            try:
                al[idx[n]] = mol._translate_allene_sign(n, e1, e2)
            except KeyError:
                al[idx[n]] = 'unreadable'
        else:
            tet[idx[n]] = 'label-on-non-stereogenic-atom'
    for (n, m), (n0, n1, n2, n3) in mol.stereogenic_cis_trans.items():
        e1 = min((x for x in (n0, n2) if x is not None), key=idx.get)
        e2 = min((x for x in (n1, n3) if x is not None), key=idx.get)
        try:
            s = mol._translate_cis_trans_sign(n, m, e1, e2)
        except KeyError:
            continue
        ct[tuple(sorted((idx[n], idx[m])))] = s
    meta = getattr(mol, '_meta', None) or {}
    return {'nums': nums, 'atoms': atoms, 'bonds': bonds, 'tet': tet, 'ct': ct, 'allene': al,
            'radicalized': sorted(idx[n] for n in meta.get('chython_radicalized_atoms', ()) if n in idx),
            'mismatch': bool(meta.get('chython_implicit_mismatch'))}


def snapshot(obj):
    return [(role, [snap_mol(m) for m in ms]) for role, ms in _mols(obj)]


def _flat(sn):
    return [(role, j, m) for role, ms in sn for j, m in enumerate(ms)]


def shape_diff(s0, s1):
    if [(r, len(ms)) for r, ms in s0] != [(r, len(ms)) for r, ms in s1]:
        return ('shape', f'{[(r, len(ms)) for r, ms in s1]} != {[(r, len(ms)) for r, ms in s0]}')
    for (role, j, a), (_, _, b) in zip(_flat(s0), _flat(s1)):
        if len(a['atoms']) != len(b['atoms']):
            return ('atoms.count', f'{role}[{j}]: {len(b["atoms"])} != {len(a["atoms"])}')
    return None


def diff(s0, s1, fields=('nums', 'atoms', 'bonds', 'tet', 'ct', 'allene')):
    """first difference of two snapshots on the given fields -> (field, detail) or None"""
    d = shape_diff(s0, s1)
    if d:
        return d
    for (role, j, a), (_, _, b) in zip(_flat(s0), _flat(s1)):
        for f in fields:
            if a[f] != b[f]:
                return (f, f'{role}[{j}] {f}: {b[f]} != expected {a[f]}')
    return None


def remap_expected(s0, s1, reaction):
    """-> None or (aspect, detail): numbers of s1 are the documented renumbering of s0"""
    n0 = [n for _, _, m in _flat(s0) for n in m['nums']]
    n1 = [n for _, _, m in _flat(s1) for n in m['nums']]
    if not reaction:
        if n1 != list(range(1, len(n1) + 1)):
            return ('nums', f'molecule numbers {n1} != 1..{len(n1)} in written order')
        return None
    f, g = {}, {}
    for a, b in zip(n0, n1):
        if f.setdefault(a, b) != b or g.setdefault(b, a) != a:
            return ('nums', f'default numbers {n0} -> remapped {n1}: not a bijection')
    if sorted(g) != list(range(1, len(g) + 1)):
        return ('nums', f'remapped numbers {sorted(g)} are not 1..{len(g)}')
    ks = sorted(f)
    if any(f[a] >= f[b] for a, b in zip(ks, ks[1:])):
        return ('nums', f'default numbers {n0} -> remapped {n1}: order of the numbers not preserved')
    return None
