"""Independent reference for C15 (specification, not verified): the difference of two atom-mapped sides of a reaction, computed
from the plain atom / bond tables without any chython CGR code.

Reading of the statement for unbalanced atoms (documented in MoleculeContainer.compose): an atom that exists on one side only is a
spectator - it is not dynamic itself, its bonds to other one-side atoms are unchanged, its bonds to atoms present on both sides are
broken (left only) or formed (right only)."""


def side_view(mols):
    """({atom: (symbol, isotope, charge, radical)}, {frozenset pair: order}) of the union of the given molecules"""
    atoms, bonds = {}, {}
    for m in mols:
        for n, a in m.atoms():
            if n in atoms:
                raise ValueError(f'atom number {n} used twice on one side')
            atoms[n] = (a.atomic_symbol, a.isotope, a.charge, a.is_radical)
        for n, k, b in m.bonds():
            bonds[frozenset((n, k))] = b.order
    return atoms, bonds


def diff(left, right):
    """expected condensed graph: atoms {n: (charge, p_charge, radical, p_radical)}, bonds {pair: (order, p_order)}, centre set"""
    la, lb = left
    ra, rb = right
    common = la.keys() & ra.keys()
    atoms = {}
    for n in la.keys() | ra.keys():
        if n in common:
            if la[n][:2] != ra[n][:2]:
                raise ValueError('element / isotope differs between the sides')
            atoms[n] = (la[n][2], ra[n][2], la[n][3], ra[n][3])
        else:
            a = la.get(n) or ra[n]
            atoms[n] = (a[2], a[2], a[3], a[3])
    bonds = {}
    for e in lb.keys() | rb.keys():
        x, y = tuple(e)
        if x in common and y in common:
            bonds[e] = (lb.get(e), rb.get(e))
        elif x in common or y in common:
            bonds[e] = (lb[e], None) if e in lb else (None, rb[e])
        else:
            o = lb.get(e, rb.get(e))
            bonds[e] = (o, o)
    centre = {n for n, (c, pc, r, pr) in atoms.items() if c != pc or r != pr}
    for e, (o, p) in bonds.items():
        if o != p:
            centre.update(e)
    return atoms, bonds, centre


def cgr_view(cgr):
    """what the library's condensed graph says, read through its public attributes"""
    atoms = {n: (a.charge, a.p_charge, a.is_radical, a.p_is_radical) for n, a in cgr.atoms()}
    dyn_atoms = {n for n, a in cgr.atoms() if a.is_dynamic}
    bonds, dyn_bonds = {}, set()
    for n, k, b in cgr.bonds():
        bonds[frozenset((n, k))] = (b.order, b.p_order)
        if b.is_dynamic:
            dyn_bonds.add(frozenset((n, k)))
    # adjacency must be symmetric and share the bond object
    asym = [(n, k) for n, mb in cgr._bonds.items() for k, b in mb.items() if cgr._bonds.get(k, {}).get(n) is not b]
    return atoms, bonds, dyn_atoms, dyn_bonds, asym
