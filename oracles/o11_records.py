"""C11 helpers (specification side, not verified): record snapshots and comparators, the printable-text generator for titles /
metadata with the readers' documented per-line whitespace normalisation, reaction generator, record damage enumerators.

Nothing here parses or writes MDL/MRV: the library's writers produce the text, the library's readers consume it; this file only
states what has to be equal and produces the damaged variants of a written file."""
import io
import string

# ---------------------------------------------------------------------------------------------------------------- snapshots


def snap(m):
    """atom order + numbers, element, isotope, charge, radical; bonds (unordered pairs) with orders"""
    atoms = [(n, a.atomic_number, a.isotope, a.charge, bool(a.is_radical)) for n, a in m.atoms()]
    bonds = sorted((min(n, k), max(n, k), int(b.order)) for n, k, b in m.bonds())
    return atoms, bonds


def _subs(m, path, env):
    """substituents of the first / last terminal of a cumulene path"""
    n0, n1, n2, n3 = env
    return [x for x in (n0, n2) if x is not None], [x for x in (n1, n3) if x is not None]


def stereo_snap(m):
    """numbering-canonical per-centre signs: tetrahedron sign for neighbours sorted by number; allene / cis-trans sign for the
    smallest-numbered substituent of each end.  Stored signs refer to the bond insertion order, which a file round trip
    legitimately changes, hence the translation."""
    th, al, ct = {}, {}, {}
    sth = m.stereogenic_tetrahedrons
    sal = m.stereogenic_allenes
    for n, a in m.atoms():
        if a.stereo is None:
            continue
        if n in sth:
            th[n] = bool(m._translate_tetrahedron_sign(n, sorted(sth[n])))
        elif n in sal:
            f, l = _subs(m, None, sal[n])
            al[n] = bool(m._translate_allene_sign(n, min(f), min(l)))
    for key, a, b, fa, fb, bond in _ct_sites(m):
        ct[key] = bool(m._translate_cis_trans_sign(a, b, fa, fb))
    return {'th': th, 'al': al, 'ct': ct}


def explicit_h_on_stereocentre(m):
    """the recorded writer/reader asymmetry: an explicit hydrogen atom attached to a labelled stereocentre
    (tetrahedron atom, allene terminal, double-bond end)"""
    atoms, bonds = m._atoms, m._bonds
    cent = set()
    for n, a in atoms.items():
        if a.stereo is not None:
            cent.add(n)
            t = m._stereo_allenes_terminals.get(n)
            if t:
                cent.update(t)
    for n, k, b in m.bonds():
        if b.stereo is not None:
            t = m._stereo_cis_trans_terminals.get(n)
            cent.update(t or (n, k))
    return any(atoms[x].atomic_number == 1 for n in cent for x in bonds[n])


def _ct_sites(m):
    """labelled double-bond systems: (key, a, b, fa, fb, centre bond) with a < b, fa / fb the smallest-numbered substituents"""
    centers = m._stereo_cis_trans_centers
    for path, env in m.stereogenic_cumulenes.items():
        if len(path) % 2:
            continue
        i, j = centers[path[0]]
        bond = m._bonds[i][j]
        if bond.stereo is None:
            continue
        f, l = _subs(m, path, env)
        a, b, fa, fb = path[0], path[-1], min(f), min(l)
        if a > b:
            a, b, fa, fb = b, a, fb, fa
        yield f'{a}-{b}', a, b, fa, fb, bond


def cis_geom(m, a, b, fa, fb, eps=2e-3):
    """independent plane geometry on the coordinates as a file carries them (4 decimals): True when substituent fa of a and
    substituent fb of b lie on the same side of the axis a -> b (cis), False on opposite sides, None when undefined"""
    P = {n: (round(m._atoms[n].x, 4), round(m._atoms[n].y, 4)) for n in (a, b, fa, fb)}
    dx, dy = P[b][0] - P[a][0], P[b][1] - P[a][1]
    s1 = dx * (P[fa][1] - P[a][1]) - dy * (P[fa][0] - P[a][0])
    s2 = dx * (P[fb][1] - P[b][1]) - dy * (P[fb][0] - P[b][0])
    if abs(s1) < eps or abs(s2) < eps:
        return None
    return (s1 > 0) == (s2 > 0)


def make_consistent(m):
    """the file carries double-bond configuration only through coordinates, so the claimed domain is molecules whose cis/trans
    labels agree with their coordinates.  A label contradicting the layout (clean2d ignores labels) is flipped: the object then
    is the stereoisomer its depiction shows.  returns (flipped, undefined)"""
    flipped = undefined = 0
    for key, a, b, fa, fb, bond in list(_ct_sites(m)):
        g = cis_geom(m, a, b, fa, fb)
        if g is None:
            undefined += 1
        elif g != bool(m._translate_cis_trans_sign(a, b, fa, fb)):
            bond._stereo = not bond._stereo
            flipped += 1
    if flipped:
        m.flush_cache()
    return flipped, undefined


def ct_geometry_mismatch(o, src=None):
    """labels of the read molecule o that contradict the geometry (coordinates of src or of o itself)"""
    bad = {}
    for key, a, b, fa, fb, bond in _ct_sites(o):
        g = cis_geom(src or o, a, b, fa, fb)
        if g is not None and g != bool(o._translate_cis_trans_sign(a, b, fa, fb)):
            bad[key] = g
    return bad


def degenerate_depiction(m, eps=2e-3):
    """True when a wedge of the written molecule does not determine the configuration it stands for: the atoms the wedge is
    judged against are collinear on the 4-decimal coordinates (T-shaped centre with the wedge on the stem; allene substituent on
    the axis).  Such a drawing is ambiguous by any reading (the signed volume is 0 up to rounding noise), so the configuration
    is outside 'when 2D coordinates are present'.  Independent plane geometry; the wedge list is the library's _wedge_map."""
    def xy(n):
        a = m._atoms[n]
        return round(a.x, 4), round(a.y, 4)

    def cross(o, a, b):
        (ox, oy), (ax, ay), (bx, by) = xy(o), xy(a), xy(b)
        return (ax - ox) * (by - oy) - (ay - oy) * (bx - ox)
    sth = m.stereogenic_tetrahedrons
    cent = m._stereo_allenes_centers
    term = m._stereo_allenes_terminals
    for n, w, s in m._wedge_map:
        if not s:
            return True
        if n in sth:
            rest = [x for x in sth[n] if x != w]
            if len(rest) == 2:
                v = cross(n, rest[0], rest[1])
            elif len(rest) == 3:
                v = cross(rest[0], rest[1], rest[2])
            else:
                return True
            if abs(v) < eps:
                return True
        elif n in cent:
            c = cent[n]
            t1, t2 = term[c]
            other = t2 if n == t1 else t1
            subs = [x for x in m._bonds[other] if m._bonds[other][x].order != 2 and m._atoms[x].atomic_number != 1]
            if any(abs(cross(n, other, x)) < eps for x in subs) or abs(cross(other, n, w)) < eps:
                return True
    return False


def has_labels(m):
    return any(a.stereo is not None for _, a in m.atoms()) or any(b.stereo is not None for *_, b in m.bonds())


def expected_after_read(m):
    """what a reader opened with calc_cis_trans=True has to return for m: the same labels, and for stereogenic double bonds the
    molecule leaves unlabelled the label its 2D coordinates define (an MDL/MRV file has no 'unspecified' mark written by these
    writers).  The unlabelled ones are filled by the library's own calculate_cis_trans_from_2d on a copy."""
    c = m.copy()
    c.calculate_cis_trans_from_2d()
    return c


# ------------------------------------------------------------------------------------------------- text: titles and metadata

PRINTABLE = string.ascii_letters + string.digits + string.punctuation + ' '
SAFE = string.ascii_letters + string.digits + " _-.,:;()[]{}+=*/\\|~!?@#%^'`"   # no XML / MDL special characters


def norm_value(v):
    """the readers' documented normalisation of a value: every line stripped, blank lines dropped"""
    return '\n'.join(x for x in (y.strip() for y in str(v).split('\n')) if x)


def norm_meta(meta):
    out = {}
    for k, v in meta.items():
        if k.startswith('chython_'):
            continue  # parser log entries
        v = norm_value(v)
        if v:
            out[k.strip()] = v
    return out


def norm_title(t):
    return (t or '').strip()


def text(r, alphabet, lo=1, hi=12):
    return ''.join(r.choice(alphabet) for _ in range(r.randint(lo, hi)))


def word(r, alphabet, lo=1, hi=12):
    """text with a non-blank first and last character"""
    core = alphabet.replace(' ', '')
    w = r.choice(core) + text(r, alphabet, 0, hi - 1)
    return w.rstrip() or r.choice(core)


# classes of metadata cases.  'plain*' stay inside what every format can carry (no line of a value starts with a record
# delimiter or tag of the format; no XML special characters for MRV); the 'reserved:*' classes put exactly one reserved
# token into an otherwise plain case.  Violations are keyed by (writer, class), smallest witness.
META_CLASSES = ('plain', 'plain-multiline', 'plain-spaces', 'plain-many', 'punct', 'punct-multiline', 'key-spaces', 'key-punct',
                'value-leading-caps', 'long')

# first characters that start a tag / delimiter line in the MDL formats
_MDL_LINE_START = '$>M'


def _line(r, alphabet, hi=20, avoid=_MDL_LINE_START):
    while True:
        w = word(r, alphabet, 1, hi)
        if w[0] not in avoid:
            return w


def meta_case(r, cls):
    """(meta dict, title) of class cls"""
    if cls == 'plain':
        return {word(r, string.ascii_letters + string.digits + '_'): _line(r, SAFE)}, word(r, SAFE, 1, 30)
    if cls == 'plain-multiline':
        return {word(r, string.ascii_letters + '_'): '\n'.join(_line(r, SAFE) for _ in range(r.randint(2, 5)))}, word(r, SAFE)
    if cls == 'plain-spaces':
        # leading / trailing blanks on lines and blank lines inside: compared modulo the per-line strip
        ls = []
        for _ in range(r.randint(1, 4)):
            ls.append(' ' * r.randint(0, 3) + _line(r, SAFE) + ' ' * r.randint(0, 3))
            if r.random() < .3:
                ls.append(' ' * r.randint(0, 2))
        ls.append(_line(r, SAFE))
        return {word(r, string.ascii_letters): '\n'.join(ls)}, ' ' * r.randint(0, 2) + word(r, SAFE) + ' ' * r.randint(0, 2)
    if cls == 'plain-many':
        d = {}
        for i in range(r.randint(2, 6)):
            d[f'{word(r, string.ascii_letters, 1, 6)}{i}'] = '\n'.join(_line(r, SAFE) for _ in range(r.randint(1, 3)))
        return d, word(r, SAFE)
    if cls == 'punct':
        return {word(r, string.ascii_letters): _line(r, PRINTABLE)}, word(r, SAFE)
    if cls == 'punct-multiline':
        return {word(r, string.ascii_letters): '\n'.join(_line(r, PRINTABLE) for _ in range(r.randint(2, 4)))}, word(r, SAFE)
    if cls == 'key-spaces':
        return {word(r, string.ascii_letters) + ' ' + word(r, string.ascii_letters + string.digits + ' '): _line(r, SAFE)}, word(r, SAFE)
    if cls == 'key-punct':
        return {word(r, PRINTABLE.replace('$', '')): _line(r, SAFE)}, word(r, SAFE)
    if cls == 'value-leading-caps':
        # continuation lines starting with upper-case letters (e.g. names, units): plain text by any reading
        return {word(r, string.ascii_letters): '\n'.join(r.choice(string.ascii_uppercase) + text(r, string.ascii_uppercase + ' ', 2, 8).strip() + 'x'
                                                         for _ in range(r.randint(2, 3)))}, word(r, SAFE)
    if cls == 'long':
        return {word(r, string.ascii_letters, 20, 40): _line(r, SAFE, 200)}, word(r, SAFE, 60, 78)
    if cls == 'title-punct':
        return {}, word(r, PRINTABLE, 1, 40)
    raise KeyError(cls)


# ---------------------------------------------------------------------------------------------------------------- reactions

def make_reaction(mols, r, n_reactants, n_products, n_reagents, offset=0):
    """ReactionContainer from copies of the given molecules.  Atom numbers: unique inside reactants, inside products, reagents
    disjoint from both (the readers' documented requirement on mapping); products re-use the numbers of reactants when sizes
    allow (a mapped reaction), all shuffled."""
    from chython import ReactionContainer
    it = iter(mols)
    groups = []
    for cnt in (n_reactants, n_products, n_reagents):
        groups.append([next(it).copy() for _ in range(cnt)])
    top = offset
    out = []
    for gi, g in enumerate(groups):
        start = offset if gi == 1 else top          # products restart at the reactants' base: numbers are shared
        new = []
        for m in g:
            nums = list(m)
            tgt = list(range(start + 1, start + 1 + len(nums)))
            r.shuffle(tgt)
            mp = dict(zip(nums, tgt))
            c = m.copy()
            c.remap(mp)
            # remap keeps insertion order; rebuild order is not needed
            new.append(c)
            start += len(nums)
        top = max(top, start)
        out.append(new)
    return ReactionContainer(out[0], out[1], out[2])


# ------------------------------------------------------------------------------------------------------------------- damage

def split_sdf(text_):
    """records of an SDF text, each a list of lines (with '\n'), delimiter line last"""
    recs, cur = [], []
    for line in io.StringIO(text_):
        cur.append(line)
        if line.startswith('$$$$'):
            recs.append(cur)
            cur = []
    assert not cur
    return [], recs


def split_rdf(text_):
    """(header lines, records) of an RDF text; each record starts with its $RFMT / $MFMT line"""
    head, recs = [], []
    for line in io.StringIO(text_):
        if line.startswith(('$RFMT', '$MFMT')):
            recs.append([line])
        elif recs:
            recs[-1].append(line)
        else:
            head.append(line)
    return head, recs


def join(head, recs):
    return ''.join(head) + ''.join(''.join(x) for x in recs)


def damages(rec, fmt, r, columns='some', repl='X 9-'):
    """damaged variants of one record (list of lines); the record delimiter ($$$$ line of SDF, $RFMT/$MFMT line of RDF) is
    kept intact because the property is about a damaged *record*, not about a lost delimiter.
    yields (kind, detail, new_lines)"""
    if fmt == 'sdf':
        body, tail, headl = rec[:-1], rec[-1:], []
    else:
        headl, body, tail = rec[:1], rec[1:], []
    n = len(body)
    for j in range(n):                                # truncate: keep the first j lines
        yield 'truncate', j, headl + body[:j] + tail
    for j in range(1, n):                             # lose the head: drop the first j lines
        yield 'behead', j, headl + body[j:] + tail
    for j in range(n):                                # delete one line
        yield 'delete', j, headl + body[:j] + body[j + 1:] + tail
    for j in range(n - 1):                            # swap two neighbouring lines
        if body[j] != body[j + 1]:
            yield 'swap', j, headl + body[:j] + [body[j + 1], body[j]] + body[j + 2:] + tail
    for j in range(n):                                # duplicate a line
        yield 'duplicate', j, headl + body[:j + 1] + body[j:] + tail
    # one character of one line
    lines = range(n) if columns == 'all' else _fixed_lines(body, columns == 'first') if columns in ('fixed', 'first') else _interesting_lines(body, r)
    for j in lines:
        ln = body[j].rstrip('\n')
        for c in range(len(ln)):
            for ch in repl:
                if ln[c] != ch:
                    new = ln[:c] + ch + ln[c + 1:] + '\n'
                    if fmt == 'rdf' and new.startswith(('$RFMT', '$MFMT')) or fmt == 'sdf' and new.startswith('$$$$'):
                        continue
                    yield 'char', (j, c, ch), headl + body[:j] + [new] + body[j + 1:] + tail
        # a character inserted / removed (column shift)
        for c in range(0, len(ln) + 1, 3):
            yield 'insert', (j, c), headl + body[:j] + [ln[:c] + ' ' + ln[c:] + '\n'] + body[j + 1:] + tail
            if c < len(ln):
                yield 'remove', (j, c), headl + body[:j] + [ln[:c] + ln[c + 1:] + '\n'] + body[j + 1:] + tail


def _kind(line):
    if 'V2000' in line or 'V3000' in line:
        return 'counts'
    if line.startswith('M  V30 COUNTS'):
        return 'v3counts'
    if line.startswith('M  V30 '):
        p = line.split()
        if len(p) >= 7 and p[2].isdigit() and not p[3].isdigit():
            return 'v3atom'
        if len(p) >= 6 and all(x.isdigit() for x in p[2:6]):
            return 'v3bond'
        return 'v3' + ''.join(p[2:4])
    if line.startswith('M  '):
        return line[:6]
    if line.startswith('$'):
        return line.split()[0]
    if line.startswith('>'):
        return 'sdfkey'
    if len(line) > 60 and line[31:34].strip().isalpha():
        return 'atom'
    if len(line.rstrip('\n')) in (21, 12) and line[:9].replace(' ', '').isdigit():
        return 'bond'
    if len(line.rstrip('\n')) in (6, 9) and line.strip().replace(' ', '').isdigit():
        return 'rxncounts'
    return 'other'


def _fixed_lines(body, first_only=False):
    """seed-independent choice: every line of a short record; of a long one the first 8 lines (headers, counts) and the first
    line of each syntactic kind"""
    if len(body) <= 24 and not first_only:
        return list(range(len(body)))
    seen, out = set(), ([] if first_only else list(range(8)))
    for j, ln in enumerate(body):
        k = _kind(ln)
        if k not in seen:
            seen.add(k)
            out.append(j)
    return sorted(set(out))


def _interesting_lines(body, r):
    """one line of each syntactic kind (counts line, an atom line, a bond line, each property line kind, ...)"""
    by = {}
    for j, ln in enumerate(body):
        by.setdefault(_kind(ln), []).append(j)
    return sorted(r.choice(v) for v in by.values())
