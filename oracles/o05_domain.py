"""C05 domain generator: ring templates written twice (aromatic SMILES, Kekule SMILES) with substituent slots `{i}` that denote
the same ring position in both spellings, crossed with substituent patterns.  A slot is replaced by '' or '(X)'.

Templates without a second spelling have None; templates whose two spellings use a different atom order carry no slots.
"""
import itertools

SUBSTITUENTS = ('C', 'N', 'O', 'F', 'Cl')

# name, aromatic spelling, Kekule spelling
TEMPLATES = [
    # --- six-membered, neutral
    ('benzene', 'c1{0}c{1}c{2}c{3}c{4}c1{5}', 'C1{0}=C{1}C{2}=C{3}C{4}=C1{5}'),
    ('pyridine', 'n1c{0}c{1}c{2}c{3}c1{4}', 'N1=C{0}C{1}=C{2}C{3}=C1{4}'),
    ('pyridazine', 'n1nc{0}c{1}c{2}c1{3}', 'N1=NC{0}=C{1}C{2}=C1{3}'),
    ('pyrimidine', 'n1c{0}nc{1}c{2}c1{3}', 'N1=C{0}N=C{1}C{2}=C1{3}'),
    ('pyrazine', 'n1c{0}c{1}nc{2}c1{3}', 'N1=C{0}C{1}=NC{2}=C1{3}'),
    ('1,3,5-triazine', 'n1c{0}nc{1}nc1{2}', 'N1=C{0}N=C{1}N=C1{2}'),
    ('1,2,4-triazine', 'n1nc{0}nc{1}c1{2}', 'N1=NC{0}=NC{1}=C1{2}'),
    ('phosphinine', 'p1c{0}c{1}c{2}c{3}c1{4}', 'P1=C{0}C{1}=C{2}C{3}=C1{4}'),
    # --- five-membered, neutral
    ('pyrrole', '[nH]1c{0}c{1}c{2}c1{3}', 'N1C{0}=C{1}C{2}=C1{3}'),
    ('N-methylpyrrole', 'n1(C)c{0}c{1}c{2}c1{3}', 'N1(C)C{0}=C{1}C{2}=C1{3}'),
    ('furan', 'o1c{0}c{1}c{2}c1{3}', 'O1C{0}=C{1}C{2}=C1{3}'),
    ('thiophene', 's1c{0}c{1}c{2}c1{3}', 'S1C{0}=C{1}C{2}=C1{3}'),
    ('selenophene', '[se]1c{0}c{1}c{2}c1{3}', '[Se]1C{0}=C{1}C{2}=C1{3}'),
    ('phosphole', '[pH]1c{0}c{1}c{2}c1{3}', 'P1C{0}=C{1}C{2}=C1{3}'),
    ('P-methylphosphole', 'p1(C)c{0}c{1}c{2}c1{3}', 'P1(C)C{0}=C{1}C{2}=C1{3}'),
    ('borole', '[bH]1c{0}c{1}c{2}c1{3}', 'B1C{0}=C{1}C{2}=C1{3}'),
    ('B-methylborole', 'b1(C)c{0}c{1}c{2}c1{3}', 'B1(C)C{0}=C{1}C{2}=C1{3}'),
    ('imidazole', '[nH]1c{0}nc{1}c1{2}', 'N1C{0}=NC{1}=C1{2}'),
    ('pyrazole', '[nH]1nc{0}c{1}c1{2}', 'N1N=C{0}C{1}=C1{2}'),
    ('oxazole', 'o1c{0}nc{1}c1{2}', 'O1C{0}=NC{1}=C1{2}'),
    ('isoxazole', 'o1nc{0}c{1}c1{2}', 'O1N=C{0}C{1}=C1{2}'),
    ('thiazole', 's1c{0}nc{1}c1{2}', 'S1C{0}=NC{1}=C1{2}'),
    ('isothiazole', 's1nc{0}c{1}c1{2}', 'S1N=C{0}C{1}=C1{2}'),
    ('selenazole', '[se]1c{0}nc{1}c1{2}', '[Se]1C{0}=NC{1}=C1{2}'),
    ('1,3-azaphosphole', '[nH]1c{0}pc{1}c1{2}', 'N1C{0}=PC{1}=C1{2}'),
    ('1,2,4-triazole', '[nH]1c{0}nc{1}n1', 'N1C{0}=NC{1}=N1'),
    ('1,2,3-triazole', '[nH]1nnc{0}c1{1}', 'N1N=NC{0}=C1{1}'),
    ('tetrazole', '[nH]1nnnc1{0}', 'N1N=NN=C1{0}'),
    ('1,3,4-oxadiazole', 'o1c{0}nnc1{1}', 'O1C{0}=NN=C1{1}'),
    ('1,2,4-thiadiazole', 's1nc{0}nc1{1}', 'S1N=C{0}N=C1{1}'),
    ('1,2-azaborine', '[bH]1[nH]c{0}c{1}c{2}c1{3}', 'B1NC{0}=C{1}C{2}=C1{3}'),
    # --- charged rings
    ('pyridinium', '[nH+]1c{0}c{1}c{2}c{3}c1{4}', '[NH+]1=C{0}C{1}=C{2}C{3}=C1{4}'),
    ('N-methylpyridinium', '[n+]1(C)c{0}c{1}c{2}c{3}c1{4}', '[N+]1(C)=C{0}C{1}=C{2}C{3}=C1{4}'),
    ('pyridine-N-oxide', '[O-][n+]1c{0}c{1}c{2}c{3}c1{4}', '[O-][N+]1=C{0}C{1}=C{2}C{3}=C1{4}'),
    ('pyridine-N-oxide-pentavalent', 'O=n1c{0}c{1}c{2}c{3}c1{4}', '[O-][N+]1=C{0}C{1}=C{2}C{3}=C1{4}'),
    ('pyrylium', '[o+]1c{0}c{1}c{2}c{3}c1{4}', '[O+]1=C{0}C{1}=C{2}C{3}=C1{4}'),
    ('thiopyrylium', '[s+]1c{0}c{1}c{2}c{3}c1{4}', '[S+]1=C{0}C{1}=C{2}C{3}=C1{4}'),
    ('selenopyrylium', '[se+]1c{0}c{1}c{2}c{3}c1{4}', '[Se+]1=C{0}C{1}=C{2}C{3}=C1{4}'),
    ('cyclopentadienide', '[cH-]1c{0}c{1}c{2}c1{3}', '[CH-]1C{0}=C{1}C{2}=C1{3}'),
    ('tropylium', '[cH+]1c{0}c{1}c{2}c{3}c{4}c1{5}', '[CH+]1C{0}=C{1}C{2}=C{3}C{4}=C1{5}'),
    ('boratabenzene', '[bH-]1c{0}c{1}c{2}c{3}c1{4}', '[BH-]1=C{0}C{1}=C{2}C{3}=C1{4}'),
    ('imidazolium', '[nH+]1c{0}[nH]c{1}c1{2}', '[NH+]1=C{0}NC{1}=C1{2}'),
    ('N,N-dimethylimidazolium', '[n+]1(C)c{0}n(C)c{1}c1{2}', '[N+]1(C)=C{0}N(C)C{1}=C1{2}'),
    ('thiazolium', 's1c{0}[n+](C)c{1}c1{2}', 'S1C{0}=[N+](C)C{1}=C1{2}'),
    ('oxazolium', 'o1c{0}[n+](C)c{1}c1{2}', 'O1C{0}=[N+](C)C{1}=C1{2}'),
    ('pyrrolide', '[n-]1c{0}c{1}c{2}c1{3}', '[N-]1C{0}=C{1}C{2}=C1{3}'),
    ('tetrazolide', '[n-]1nnnc1{0}', '[N-]1N=NN=C1{0}'),
    ('pyrimidinium', '[nH+]1c{0}nc{1}c{2}c1{3}', '[NH+]1=C{0}N=C{1}C{2}=C1{3}'),
    ('phospholide', '[p-]1c{0}c{1}c{2}c1{3}', '[P-]1C{0}=C{1}C{2}=C1{3}'),
    # --- quinoid rings / exocyclic double bonds
    ('p-benzoquinone', 'O=c1c{0}c{1}c(=O)c{2}c1{3}', 'O=C1C{0}=C{1}C(=O)C{2}=C1{3}'),
    ('o-benzoquinone', 'O=c1c(=O)c{0}c{1}c{2}c1{3}', 'O=C1C(=O)C{0}=C{1}C{2}=C1{3}'),
    ('2-pyridone', 'O=c1c{0}c{1}c{2}c{3}[nH]1', 'O=C1C{0}=C{1}C{2}=C{3}N1'),
    ('4-pyridone', 'O=c1c{0}c{1}[nH]c{2}c1{3}', 'O=C1C{0}=C{1}NC{2}=C1{3}'),
    ('2-pyranone', 'O=c1c{0}c{1}c{2}c{3}o1', 'O=C1C{0}=C{1}C{2}=C{3}O1'),
    ('4-pyranone', 'O=c1c{0}c{1}oc{2}c1{3}', 'O=C1C{0}=C{1}OC{2}=C1{3}'),
    ('4-thiopyranone', 'O=c1c{0}c{1}sc{2}c1{3}', 'O=C1C{0}=C{1}SC{2}=C1{3}'),
    ('pyridine-2-thione', 'S=c1c{0}c{1}c{2}c{3}[nH]1', 'S=C1C{0}=C{1}C{2}=C{3}N1'),
    ('2-iminopyridine', 'N=c1c{0}c{1}c{2}c{3}[nH]1', 'N=C1C{0}=C{1}C{2}=C{3}N1'),
    ('uracil', 'O=c1[nH]c(=O)c{0}c{1}[nH]1', 'O=C1NC(=O)C{0}=C{1}N1'),
    ('cytosine', 'O=c1nc(N)c{0}c{1}[nH]1', 'O=C1N=C(N)C{0}=C{1}N1'),
    ('pyrimidin-4-one', 'O=c1c{0}c{1}nc{2}[nH]1', 'O=C1C{0}=C{1}N=C{2}N1'),
    ('tropone', 'O=c1c{0}c{1}c{2}c{3}c{4}c1{5}', 'O=C1C{0}=C{1}C{2}=C{3}C{4}=C1{5}'),
    ('fulvene', None, 'C=C1C{0}=C{1}C{2}=C1{3}'),
    ('quinomethane', None, 'C=C1C{0}=C{1}C(=O)C{2}=C1{3}'),
    ('quinone-diimine', None, 'N=C1C{0}=C{1}C(=N)C{2}=C1{3}'),
    ('cyclopentadienone', None, 'O=C1C{0}=C{1}C{2}=C1{3}'),
    ('thiophene-S-oxide', 'O=s1c{0}c{1}c{2}c1{3}', 'O=S1C{0}=C{1}C{2}=C1{3}'),
    ('thiophene-S,S-dioxide', None, 'O=S1(=O)C{0}=C{1}C{2}=C1{3}'),
    ('imidazol-2-one', 'O=c1[nH]c{0}c{1}[nH]1', 'O=C1NC{0}=C{1}N1'),
    ('thiazol-2-one', 'O=c1[nH]c{0}c{1}s1', 'O=C1NC{0}=C{1}S1'),
    ('maleimide', None, 'O=C1C{0}=C{1}C(=O)N1'),
    ('cyclooctatetraene', None, 'C1{0}=C{1}C{2}=C{3}C{4}=C{5}C{6}=C1{7}'),
    ('cyclobutadiene', None, 'C1{0}=C{1}C{2}=C1{3}'),
    # --- fused, two rings
    ('naphthalene', 'c1{0}c{1}c{2}c{3}c2c1c{4}c{5}c{6}c2{7}', 'C1{0}=C{1}C{2}=C{3}C2=C1C{4}=C{5}C{6}=C2{7}'),
    ('indole', '[nH]1c{0}c{1}c2c{2}c{3}c{4}c{5}c12', 'N1C{0}=C{1}C2=C{2}C{3}=C{4}C{5}=C12'),
    ('N-methylindole', 'n1(C)c{0}c{1}c2c{2}c{3}c{4}c{5}c12', 'N1(C)C{0}=C{1}C2=C{2}C{3}=C{4}C{5}=C12'),
    ('isoindole', 'c1{0}[nH]c{1}c2c{2}c{3}c{4}c{5}c12', 'C1{0}=C2C{5}=C{4}C{3}=C{2}C2=C{1}N1'),
    ('benzofuran', 'o1c{0}c{1}c2c{2}c{3}c{4}c{5}c12', 'O1C{0}=C{1}C2=C{2}C{3}=C{4}C{5}=C12'),
    ('benzothiophene', 's1c{0}c{1}c2c{2}c{3}c{4}c{5}c12', 'S1C{0}=C{1}C2=C{2}C{3}=C{4}C{5}=C12'),
    ('benzoselenophene', '[se]1c{0}c{1}c2c{2}c{3}c{4}c{5}c12', '[Se]1C{0}=C{1}C2=C{2}C{3}=C{4}C{5}=C12'),
    ('benzophosphole', '[pH]1c{0}c{1}c2c{2}c{3}c{4}c{5}c12', 'P1C{0}=C{1}C2=C{2}C{3}=C{4}C{5}=C12'),
    ('benzimidazole', '[nH]1c{0}nc2c{1}c{2}c{3}c{4}c12', 'N1C{0}=NC2=C{1}C{2}=C{3}C{4}=C12'),
    ('indazole', '[nH]1nc{0}c2c{1}c{2}c{3}c{4}c12', 'N1N=C{0}C2=C{1}C{2}=C{3}C{4}=C12'),
    ('benzoxazole', 'o1c{0}nc2c{1}c{2}c{3}c{4}c12', 'O1C{0}=NC2=C{1}C{2}=C{3}C{4}=C12'),
    ('benzothiazole', 's1c{0}nc2c{1}c{2}c{3}c{4}c12', 'S1C{0}=NC2=C{1}C{2}=C{3}C{4}=C12'),
    ('benzotriazole', '[nH]1nnc2c{0}c{1}c{2}c{3}c12', 'N1N=NC2=C{0}C{1}=C{2}C{3}=C12'),
    ('quinoline', 'n1c{0}c{1}c{2}c2c{3}c{4}c{5}c{6}c12', 'N1=C{0}C{1}=C{2}C2=C{3}C{4}=C{5}C{6}=C12'),
    ('isoquinoline', 'c1{0}nc{1}c{2}c2c{3}c{4}c{5}c{6}c12', 'C1{0}=NC{1}=C{2}C2=C{3}C{4}=C{5}C{6}=C12'),
    ('quinazoline', 'n1c{0}nc{1}c2c{2}c{3}c{4}c{5}c12', 'N1=C{0}N=C{1}C2=C{2}C{3}=C{4}C{5}=C12'),
    ('quinoxaline', 'n1c{0}c{1}nc2c{2}c{3}c{4}c{5}c12', 'N1=C{0}C{1}=NC2=C{2}C{3}=C{4}C{5}=C12'),
    ('1,8-naphthyridine', 'n1c{0}c{1}c{2}c2c{3}c{4}c{5}nc12', 'N1=C{0}C{1}=C{2}C2=C{3}C{4}=C{5}N=C12'),
    ('pteridine', 'n1c{0}nc{1}c2nc{2}c{3}nc12', 'N1=C{0}N=C{1}C2=NC{2}=C{3}N=C12'),
    ('purine', '[nH]1c{0}nc2c{1}nc{2}nc12', 'N1C{0}=NC2=C{1}N=C{2}N=C12'),
    ('7-azaindole', '[nH]1c{0}c{1}c2c{2}c{3}c{4}nc12', 'N1C{0}=C{1}C2=C{2}C{3}=C{4}N=C12'),
    ('5-azaindole-tautomer', None, 'N1C{0}=C{1}C2=NC{2}=C{3}C2=C1'),
    ('indolizine', 'c1{0}c{1}c{2}n2c{3}c{4}c{5}c{6}c12', 'C=1{0}C{1}=C{2}N2C{3}=C{4}C{5}=C{6}C2=1'),
    ('imidazo[1,2-a]pyridine', 'c1{0}nc2c{1}c{2}c{3}c{4}n2c1{5}', 'C=1{0}N=C2C{1}=C{2}C{3}=C{4}N2C=1{5}'),
    ('azulene', 'c1{0}c{1}c{2}c2c{3}c{4}c{5}c{6}c{7}c12', 'C1{0}=C{1}C{2}=C2C{3}=C{4}C{5}=C{6}C{7}=C12'),
    ('pentalene', None, 'C1{0}=C{1}C2=C{2}C{3}=C{4}C2=C1'),
    ('heptalene', None, 'C1{0}=C{1}C{2}=C2C{3}=C{4}C{5}=C{6}C{7}=C2C{8}=C1{9}'),
    ('indolide', '[n-]1c{0}c{1}c2c{2}c{3}c{4}c{5}c12', '[N-]1C{0}=C{1}C2=C{2}C{3}=C{4}C{5}=C12'),
    ('indenide', '[cH-]1c{0}c{1}c2c{2}c{3}c{4}c{5}c12', '[CH-]1C{0}=C{1}C2=C{2}C{3}=C{4}C{5}=C12'),
    ('quinolinium', '[nH+]1c{0}c{1}c{2}c2c{3}c{4}c{5}c{6}c12', '[NH+]1=C{0}C{1}=C{2}C2=C{3}C{4}=C{5}C{6}=C12'),
    ('chromenylium', '[o+]1c{0}c{1}c{2}c2c{3}c{4}c{5}c{6}c12', '[O+]1=C{0}C{1}=C{2}C2=C{3}C{4}=C{5}C{6}=C12'),
    ('benzothiazolium', 's1c{0}[n+](C)c2c{1}c{2}c{3}c{4}c12', 'S1C{0}=[N+](C)C2=C{1}C{2}=C{3}C{4}=C12'),
    ('1,4-naphthoquinone', 'O=C1C{0}=C{1}C(=O)c2c{2}c{3}c{4}c{5}c12', 'O=C1C{0}=C{1}C(=O)C2=C{2}C{3}=C{4}C{5}=C12'),
    ('coumarin', 'O=c1c{0}c{1}c2c{2}c{3}c{4}c{5}c2o1', 'O=C1C{0}=C{1}C2=C{2}C{3}=C{4}C{5}=C2O1'),
    ('chromone', 'O=c1c{0}c{1}oc2c{2}c{3}c{4}c{5}c12', 'O=C1C{0}=C{1}OC2=C{2}C{3}=C{4}C{5}=C12'),
    ('2-quinolone', 'O=c1c{0}c{1}c2c{2}c{3}c{4}c{5}c2[nH]1', 'O=C1C{0}=C{1}C2=C{2}C{3}=C{4}C{5}=C2N1'),
    ('quinazolin-4-one', 'O=c1[nH]c{0}nc2c{1}c{2}c{3}c{4}c12', 'O=C1NC{0}=NC2=C{1}C{2}=C{3}C{4}=C12'),
    ('isatin', None, 'O=C1NC2=C{0}C{1}=C{2}C{3}=C2C1=O'),
    ('guanine', 'O=c1[nH]c(N)nc2[nH]c{0}nc12', 'O=C1NC(N)=NC2=C1N=C{0}N2'),
    ('xanthine', 'O=c1[nH]c(=O)c2[nH]c{0}nc2[nH]1', 'O=C1NC(=O)C2=C(N1)N=C{0}N2'),
    ('thieno[2,3-b]pyridine', 's1c{0}c{1}c2c{2}c{3}c{4}nc12', 'S1C{0}=C{1}C2=C{2}C{3}=C{4}N=C12'),
    ('thieno[3,2-b]thiophene', 's1c{0}c{1}c2sc{2}c{3}c12', 'S1C{0}=C{1}C2=C1C{3}=C{2}S2'),
    ('biphenyl', 'c1{0}c{1}c{2}c{3}c{4}c1-c1c{5}c{6}c{7}c{8}c1{9}', 'C1{0}=C{1}C{2}=C{3}C{4}=C1C1=C{5}C{6}=C{7}C{8}=C1{9}'),
    ('biphenyl-aromatic-link', 'c1{0}c{1}c{2}c{3}c{4}c1c1c{5}c{6}c{7}c{8}c1{9}', 'C1{0}=C{1}C{2}=C{3}C{4}=C1C1=C{5}C{6}=C{7}C{8}=C1{9}'),
    ('2-phenylpyridine', 'n1c{0}c{1}c{2}c{3}c1-c1c{4}c{5}c{6}c{7}c1{8}', 'N1=C{0}C{1}=C{2}C{3}=C1C1=C{4}C{5}=C{6}C{7}=C1{8}'),
    ('stilbene', 'c1{0}c{1}c{2}c{3}c{4}c1C=Cc1c{5}c{6}c{7}c{8}c1{9}', 'C1{0}=C{1}C{2}=C{3}C{4}=C1C=CC1=C{5}C{6}=C{7}C{8}=C1{9}'),
    ('indane', 'C1CCc2c{0}c{1}c{2}c{3}c12', 'C1CCC2=C{0}C{1}=C{2}C{3}=C12'),
    ('indene', 'C1C=Cc2c{0}c{1}c{2}c{3}c12', 'C1C=CC2=C{0}C{1}=C{2}C{3}=C12'),
    ('tetralone', 'O=C1CCCc2c{0}c{1}c{2}c{3}c12', 'O=C1CCCC2=C{0}C{1}=C{2}C{3}=C12'),
    # --- fused, three and four rings
    ('anthracene', 'c1{0}c{1}c{2}c{3}c2c{4}c3c{5}c{6}c{7}c{8}c3c{9}c12', 'C1{0}=C{1}C{2}=C{3}C2=C{4}C3=C{5}C{6}=C{7}C{8}=C3C{9}=C12'),
    ('phenanthrene', 'c1{0}c{1}c{2}c{3}c2c1c{4}c{5}c1c{6}c{7}c{8}c{9}c21', 'C1{0}=C{1}C{2}=C{3}C2=C1C{4}=C{5}C1=C{6}C{7}=C{8}C{9}=C21'),
    ('carbazole', '[nH]1c2c{0}c{1}c{2}c{3}c2c2c{4}c{5}c{6}c{7}c12', 'N1C2=C{0}C{1}=C{2}C{3}=C2C2=C{4}C{5}=C{6}C{7}=C12'),
    ('dibenzofuran', 'o1c2c{0}c{1}c{2}c{3}c2c2c{4}c{5}c{6}c{7}c12', 'O1C2=C{0}C{1}=C{2}C{3}=C2C2=C{4}C{5}=C{6}C{7}=C12'),
    ('dibenzothiophene', 's1c2c{0}c{1}c{2}c{3}c2c2c{4}c{5}c{6}c{7}c12', 'S1C2=C{0}C{1}=C{2}C{3}=C2C2=C{4}C{5}=C{6}C{7}=C12'),
    ('dibenzoselenophene', '[se]1c2c{0}c{1}c{2}c{3}c2c2c{4}c{5}c{6}c{7}c12', '[Se]1C2=C{0}C{1}=C{2}C{3}=C2C2=C{4}C{5}=C{6}C{7}=C12'),
    ('fluorene', 'C1c2c{0}c{1}c{2}c{3}c2-c2c{4}c{5}c{6}c{7}c12', 'C1C2=C{0}C{1}=C{2}C{3}=C2C2=C{4}C{5}=C{6}C{7}=C12'),
    ('fluorenide', '[cH-]1c2c{0}c{1}c{2}c{3}c2c2c{4}c{5}c{6}c{7}c12', '[CH-]1C2=C{0}C{1}=C{2}C{3}=C2C2=C{4}C{5}=C{6}C{7}=C12'),
    ('acridine', 'n1c2c{0}c{1}c{2}c{3}c2c{4}c2c{5}c{6}c{7}c{8}c12', 'N1=C2C{0}=C{1}C{2}=C{3}C2=C{4}C2=C{5}C{6}=C{7}C{8}=C12'),
    ('phenazine', 'n1c2c{0}c{1}c{2}c{3}c2nc2c{4}c{5}c{6}c{7}c12', 'N1=C2C{0}=C{1}C{2}=C{3}C2=NC2=C{4}C{5}=C{6}C{7}=C12'),
    ('phenothiazine', 'N1c2c{0}c{1}c{2}c{3}c2Sc2c{4}c{5}c{6}c{7}c12', 'N1C2=C{0}C{1}=C{2}C{3}=C2SC2=C{4}C{5}=C{6}C{7}=C12'),
    ('beta-carboline', '[nH]1c2c{0}c{1}c{2}c{3}c2c2c{4}c{5}nc{6}c12', 'N1C2=C{0}C{1}=C{2}C{3}=C2C2=C{4}C{5}=NC{6}=C12'),
    ('anthraquinone', 'O=C1c2c{0}c{1}c{2}c{3}c2C(=O)c2c{4}c{5}c{6}c{7}c12', 'O=C1C2=C{0}C{1}=C{2}C{3}=C2C(=O)C2=C{4}C{5}=C{6}C{7}=C12'),
    ('xanthone', 'O=c1c2c{0}c{1}c{2}c{3}c2oc2c{4}c{5}c{6}c{7}c12', 'O=C1C2=C{0}C{1}=C{2}C{3}=C2OC2=C{4}C{5}=C{6}C{7}=C12'),
    ('acridone', 'O=c1c2c{0}c{1}c{2}c{3}c2[nH]c2c{4}c{5}c{6}c{7}c12', 'O=C1C2=C{0}C{1}=C{2}C{3}=C2NC2=C{4}C{5}=C{6}C{7}=C12'),
    ('acenaphthylene', 'C1=Cc2cccc3cccc1c23', 'C1=CC2=CC=CC3=CC=CC1=C23'),
    ('benz[a]azulene', 'c1ccc2cc3ccccc3c2cc1', 'C1=CC=C2C=C3C=CC=CC3=C2C=C1'),
    ('cyclohepta[b]indole', None, 'C1=CC=C2C(C=C1)=NC1=CC=CC=C21'),
    ('pyrene', 'c1cc2ccc3cccc4ccc(c1)c2c34', 'C1=CC2=C3C(=C1)C=CC1=CC=CC(C=C2)=C31'),
    ('tetracene', 'c1ccc2cc3cc4ccccc4cc3cc2c1', 'C1=CC=C2C=C3C=C4C=CC=CC4=CC3=CC2=C1'),
    ('chrysene', 'c1ccc2c(c1)ccc1c2ccc2ccccc12', 'C1=CC=C2C(=C1)C=CC1=C2C=CC2=CC=CC=C12'),
    ('triphenylene', 'c1ccc2c(c1)c1ccccc1c1ccccc21', 'C1=CC=C2C(=C1)C1=CC=CC=C1C1=CC=CC=C21'),
    ('fluoranthene', 'c1ccc2c(c1)-c1cccc3cccc2c13', 'C1=CC=C2C(=C1)C1=CC=CC3=CC=CC2=C13'),
    ('benzo[a]pyrene', 'c1ccc2c(c1)cc1ccc3cccc4ccc2c1c34', 'C1=CC=C2C(=C1)C=C1C=CC3=CC=CC4=CC=C2C1=C34'),
    ('indolo[2,3-a]carbazole', 'c1ccc2c(c1)[nH]c1c2ccc2c3ccccc3[nH]c12', 'C1=CC=C2C(=C1)NC1=C2C=CC2=C1NC1=CC=CC=C21'),
    ('porphine-fragment-dipyrromethene', None, 'C1=CC(=CC2=CC=CN2)N=C1'),
    ('benzo[c]cinnoline', 'c1ccc2c(c1)nnc1ccccc21', 'C1=CC=C2C(=C1)N=NC1=CC=CC=C21'),
    ('phenanthroline', 'c1cnc2c(c1)ccc1cccnc12', 'C1=CN=C2C(=C1)C=CC1=CC=CN=C12'),
    ('thianthrene', 'c1ccc2Sc3ccccc3Sc2c1', 'C1=CC=C2SC3=CC=CC=C3SC2=C1'),
    ('dibenzo-1,4-dioxin', 'c1ccc2Oc3ccccc3Oc2c1', 'C1=CC=C2OC3=CC=CC=C3OC2=C1'),
    ('naphtho[2,3-b]furan', 'o1ccc2cc3ccccc3cc12', 'O1C=CC2=CC3=CC=CC=C3C=C12'),
    ('benzo[1,2-b:4,5-b]dithiophene', 's1ccc2cc3sccc3cc12', 'S1C=CC2=CC3=C(C=CS3)C=C12'),
    ('azuleno-thiophene', None, 'S1C=CC2=C1C=C1C=CC=CC=C21'),
    # charged ring carbon with an explicit hydrogen next to an aromatic N written without hydrogen (one violation family: 4th field)
    ('cyclopenta[b]pyridine-anion', '[cH-]1c{0}c{1}c2nc{2}c{3}c{4}c12', '[CH-]1C{0}=C{1}C2=NC{2}=C{3}C{4}=C12', 'charged-ring-carbon+aza'),
    ('cyclopenta[c]pyridine-anion', '[cH-]1ccc2cnccc12', '[CH-]1C=CC2=CN=CC=C12', 'charged-ring-carbon+aza'),
    ('2H-pyrrol-2-ide', '[cH-]1c{0}c{1}c{2}n1', '[CH-]1C{0}=C{1}C{2}=N1', 'charged-ring-carbon+aza'),
    ('3H-pyrrol-3-ide', '[cH-]1c{0}c{1}nc1{2}', '[CH-]1C{0}=C{1}N=C1{2}', 'charged-ring-carbon+aza'),
    ('aza-benzotropylium', '[cH+]1cccc2ncccc2c1', '[CH+]1C=CC=C2N=CC=CC2=C1', 'charged-ring-carbon+aza'),
    ('benzotropylium', '[cH+]1cccc2ccccc2c1', '[CH+]1C=CC=C2C=CC=CC2=C1'),
    # --- unsaturated four-membered rings (enumeration clause is a recorded gap there)
    ('biphenylene', 'c1ccc2c(c1)c1ccccc21', 'C1=CC=C2C(=C1)C1=CC=CC=C21'),
    ('benzocyclobutadiene', None, 'C1=CC2=CC=CC=C12'),
    ('benzocyclobutene', 'C1Cc2ccccc12', 'C1CC2=CC=CC=C12'),
]


def fill(spelling, subs):
    """subs: dict slot -> substituent symbol"""
    n = n_slots(spelling)
    return spelling.format(*[f'({subs[i]})' if i in subs else '' for i in range(n)])


def n_slots(spelling):
    n = 0
    while '{%d}' % n in spelling:
        n += 1
    return n


def patterns(k, r, n_random, pairs):
    """substituent patterns for k slots: none, every single substitution, optionally every pair, n_random seeded richer ones"""
    yield {}
    for i in range(k):
        for s in SUBSTITUENTS:
            yield {i: s}
    if pairs:
        for i, j in itertools.combinations(range(k), 2):
            for s, t in itertools.product(SUBSTITUENTS, repeat=2):
                yield {i: s, j: t}
    if k >= 2:
        for _ in range(n_random):
            m = r.randint(2, min(k, 4))
            pos = r.sample(range(k), m)
            yield {p: r.choice(SUBSTITUENTS) for p in pos}
        yield {i: 'F' for i in range(k)}


def generate(r, n_random=3, pairs=False):
    """yield (name, pattern text, aromatic spelling or None, Kekule spelling or None, violation family)"""
    for name, aro, kek, *fam in TEMPLATES:
        fam = fam[0] if fam else name
        k = n_slots(aro or kek)
        if aro and kek and n_slots(aro) != n_slots(kek):
            raise ValueError(f'template {name}: slot counts differ')
        seen = set()
        for p in patterns(k, r, n_random, pairs and k <= 6):
            key = tuple(sorted(p.items()))
            if key in seen:
                continue
            seen.add(key)
            yield name, ','.join(f'{i}:{s}' for i, s in key), fill(aro, p) if aro else None, fill(kek, p) if kek else None, fam
