"""C04 reference model: implicit hydrogen count of one atom, re-derived from the *raw* element tables
(`_common_valences`, `_valences_exceptions`) following the docstring of `Element._valences_exceptions`; never calls
`_compiled_valence_rules`, `valence_rules`, `calc_implicit` or `check_implicit`.

Semantics (specification, written independently of the compiled lookup):

* an atom state is (element, charge, radical flag, multiset of (bond order, neighbour element)); S = sum of the bond orders;
* **default rule** (only neutral, non-radical atoms): the first common valence v gives h = v - S when 0 <= v - S (0 <= h <= v);
  each further common valence w gives h = 0 when S == w.  If the first common valence is 0 (elements that never carry
  implicit hydrogens, e.g. As, metals) or the element is H, every common valence w only gives h = 0 at S == w;
* **exception row** (charge, radical, implicit, env): applies to atoms with that charge and radical flag whose neighbour multiset
  contains the multiset env; E = sum of env orders.  implicit > 0: h = E + implicit - S when 0 <= h <= implicit;
  implicit == 0: h = 0 when S == E;
* candidates are ordered: default rule first, then exception rows in table order; the atom carries the h of the **first**
  candidate; no candidate = no valence state (valence error); `check_implicit(n, h)` <=> h is among the candidates;
* aromatic bonds (order 4): only a neutral non-radical carbon may have them: 2 aromatic bonds -> 1 H if no other bond,
  0 H if the other bonds sum to 1, else none; 3 aromatic bonds -> 0 H if no other bond, else none; any other count -> none.
  Every other atom with an aromatic bond has no count until `kekule()`; "any" bonds (order 8) are ignored; H has 0.
"""
from collections import Counter

ORGANIC = ('B', 'C', 'N', 'O', 'F', 'Si', 'P', 'S', 'Cl', 'Br', 'I', 'Se', 'As')
NEIGHBOURS = ('C', 'N', 'O', 'S', 'F', 'Cl', 'H')

_tables = {}


def raw_tables(sym):
    """(common valences, exception rows) of the element class of the tree under verification - raw properties only.
    Rows are pre-digested once per element: {(charge, radical): [(implicit, ((bond, count), ...), sum of env orders), ...]} in table order"""
    t = _tables.get(sym)
    if t is None:
        from chython.periodictable import Element
        a = Element.from_symbol(sym)()
        rows = {}
        for c, r, i, e in a._valences_exceptions:
            need = Counter((int(o), str(x)) for o, x in e)
            rows.setdefault((c, bool(r)), []).append((i, tuple(need.items()), sum(o for o, _ in e)))
        t = _tables[sym] = (tuple(a._common_valences), rows)
    return t


def candidates(sym, charge, radical, env):
    """ordered hydrogen-count candidates; env = iterable of (order, neighbour symbol), orders 1..3"""
    if sym == 'H':
        return [0]
    have = {}
    s = 0
    for k in env:
        s += k[0]
        have[k] = have.get(k, 0) + 1
    common, rows = raw_tables(sym)
    out = []
    if charge == 0 and not radical:
        if common and common[0]:
            v = common[0]
            if 0 <= v - s <= v:
                out.append(v - s)
            for w in common[1:]:
                if s == w:
                    out.append(0)
        else:
            for w in common:
                if s == w:
                    out.append(0)
    for implicit, need, e in rows.get((charge, bool(radical)), ()):
        if implicit:
            h = e + implicit - s
            if not 0 <= h <= implicit:
                continue
        elif s != e:
            continue
        else:
            h = 0
        if all(have.get(k, 0) >= n for k, n in need):
            out.append(h)
    return out


def expected(sym, charge, radical, env):
    c = candidates(sym, charge, radical, env)
    return c[0] if c else None


def expected_with_aromatic(sym, charge, radical, env):
    """env may contain bonds of order 4 (aromatic) and 8 (any)"""
    env = [(o, e) for o, e in env if o != 8]
    if sym == 'H':
        return 0
    aroma = sum(1 for o, _ in env if o == 4)
    if not aroma:
        return expected(sym, charge, radical, env)
    if sym != 'C' or charge or radical:
        return None
    s = sum(o for o, _ in env if o != 4)
    if aroma == 2:
        return 1 if s == 0 else 0 if s == 1 else None
    if aroma == 3:
        return 0 if s == 0 else None
    return None


# Lower-bound model ("textbook" states that must have a hydrogen count): octet valences of the period-2 elements with
# |charge| <= 1 and their neutral mono-radicals, the normal valences of the heavier organic-subset elements, simple anions.
# (element, charge, radical) -> valence v: with neighbours bonded by orders summing to S <= v the atom has v - S hydrogens.
TEXTBOOK = {
    ('B', 0, False): 3, ('B', -1, False): 4,
    ('C', 0, False): 4, ('C', 1, False): 3, ('C', -1, False): 3, ('C', 0, True): 3,
    ('N', 0, False): 3, ('N', 1, False): 4, ('N', -1, False): 2, ('N', 0, True): 2,
    ('O', 0, False): 2, ('O', 1, False): 3, ('O', -1, False): 1, ('O', -2, False): 0, ('O', 0, True): 1,
    ('F', 0, False): 1, ('F', -1, False): 0,
    ('Si', 0, False): 4,
    ('P', 0, False): 3, ('P', 1, False): 4,
    ('S', 0, False): 2, ('S', -1, False): 1, ('S', -2, False): 0,
    ('Cl', 0, False): 1, ('Cl', -1, False): 0, ('Br', 0, False): 1, ('Br', -1, False): 0, ('I', 0, False): 1, ('I', -1, False): 0,
    ('Se', 0, False): 2, ('Se', -1, False): 1,
}


def textbook(sym, charge, radical, env):
    """hydrogen count of the lower-bound model, or None when the model makes no claim"""
    v = TEXTBOOK.get((sym, charge, bool(radical)))
    if v is None:
        return None
    s = sum(o for o, _ in env)
    return v - s if s <= v else None


# ---- RDKit view of one atom state --------------------------------------------------------------------------------------
_BT = None


def rdkit_total_h(sym, charge, radical, env):
    """total hydrogens (implicit + explicit H neighbours) RDKit's valence model gives the central atom, None if RDKit rejects it"""
    global _BT
    from rdkit import Chem
    if _BT is None:
        _BT = {1: Chem.BondType.SINGLE, 2: Chem.BondType.DOUBLE, 3: Chem.BondType.TRIPLE}
    rw = Chem.RWMol()
    a = Chem.Atom(sym)
    a.SetFormalCharge(charge)
    if radical:
        a.SetNumRadicalElectrons(1)
    rw.AddAtom(a)
    for i, (o, e) in enumerate(env, 1):
        rw.AddAtom(Chem.Atom(e))
        rw.AddBond(0, i, _BT[o])
    c = rw.GetAtomWithIdx(0)
    try:
        c.UpdatePropertyCache(strict=True)
        return c.GetTotalNumHs(includeNeighbors=True)
    except Exception:
        return None


_pt = None


def rdkit_weight(z):
    global _pt
    if _pt is None:
        from rdkit import Chem
        _pt = Chem.GetPeriodicTable()
    return _pt.GetAtomicWeight(z)
