"""Additional independent reference pieces for C12 (coverage audit): spelling generators for input classes the first generator
(oracles/o12_stereo.py) does not produce - atom-mapped atoms (numbers descending / with gaps / > 999), explicit bond symbols, marks on
BOTH digits of a ring-closure bond, %nn digits on cis/trans closures, longer cumulenes, allenes with implicit / explicit hydrogens,
reaction SMILES, reader options - plus geometric readings of drawings (allene wedges, 2D cis/trans incl. cumulenes) and a minimal
V2000 writer.  Nothing here imports chython's stereo code; classes are computed from the templates by the OpenSMILES reading rules."""
import itertools
import re

from oracles.o12_stereo import parity, _T4, _T3, ct_spellings, _side, _end_side

_ATOM = re.compile(r'\[[^\]]*\]|Cl|Br|[FI]')


def mapped(text, scheme):
    """atom-map every halogen / bracket atom of a spelling (templates of one tetrahedral centre: halogens, [H], the bracket centre).
    scheme 'desc': descending numbers with gaps; 'big': numbers > 999 in no order"""
    nums = {'desc': [40, 37, 31, 22, 9, 5, 2], 'big': [1003, 7, 1000, 2048, 999, 1500, 12]}[scheme]
    it = iter(nums)

    def sub(mo):
        t = mo.group()
        n = next(it)
        if t.startswith('['):
            return f'{t[:-1]}:{n}]'
        return f'[{t}:{n}]'
    return _ATOM.sub(sub, text)


_T4B = [('{a}-[C{k}](-{b})(-{c})-{d}', 'abcd'),
        ('{a}[C{k}]-1({b}){c}.{d}-1', 'adbc'),
        ('{a}[C{k}]-1({b}){c}.{d}1', 'adbc'),
        ('{a}[C{k}]1({b}){c}.{d}-1', 'adbc'),
        ('{d}-1.{a}[C{k}]1({b}){c}', 'adbc'),
        ('[C{k}]-1(-{a})(-{b})-{c}.{d}-1', 'dabc')]
_T3B = [('{a}-[C{k}H](-{b})-{c}', 'aHbc'),
        ('[C{k}H](-{a})(-{b})-{c}', 'Habc'),
        ('{a}[C{k}H]-1{b}.{c}-1', 'aHcb'),
        ('{a}-[C{k}](-[H])(-{b})-{c}', 'aHbc')]


def _t4(forms=_T4):
    ref = ('F', 'Cl', 'Br', 'I')
    for k in ('@', '@@'):
        for p in itertools.permutations(ref):
            sub = dict(zip('abcd', p))
            for tpl, order in forms:
                yield tpl.format(k=k, **sub), tpl, int((k == '@') ^ parity([sub[c] for c in order], ref))


def _t3(forms=_T3):
    ref = ('F', 'Cl', 'Br', 'H')
    for k in ('@', '@@'):
        for p in itertools.permutations(ref[:3]):
            sub = dict(zip('abc', p), H='H')
            for tpl, order in forms:
                yield tpl.format(k=k, **sub), tpl, int((k == '@') ^ parity([sub[c] for c in order], ref))


RXN_WRAPS = [('{t}>>O', None), ('O>>{t}', None), ('O>{t}>O', None), ('O.{t}>>O', None), ('N>O>O.{t}', None), ('O.{t}>>O |f:0.1|', 'dot'),
             ('N>>{t}.O |f:1.2|', 'dot'), ('{t}.O>N>N |f:0.1|', 'dot')]


def tetra_extra():
    """yield (text, family, form, cls, reader keywords, text of the molecule for RDKit).  Families are those of
    o12_stereo.tetra_spellings ('T4', 'T3', 'T4dot', 'T3dot': one constitution each) so that the class contract joins both generators."""
    for text, tpl, cls in _t4(_T4B):
        yield text, 'T4', tpl, cls, {}, text
    for text, tpl, cls in _t3(_T3B):
        yield text, 'T3', tpl, cls, {}, text
    for scheme in ('desc', 'big'):
        for text, tpl, cls in _t4():
            yield mapped(text, scheme), 'T4', f'{tpl} maps:{scheme}', cls, {}, text
            yield mapped(text, scheme), 'T4', f'{tpl} maps:{scheme} remap', cls, {'remap': True}, text
        for text, tpl, cls in _t3():
            yield mapped(text, scheme), 'T3', f'{tpl} maps:{scheme}', cls, {}, text
            yield mapped(text, scheme), 'T3', f'{tpl} maps:{scheme} remap', cls, {'remap': True}, text
    for name, kw in (('remap', {'remap': True}), ('ignore=False', {'ignore': False}), ('keep_implicit', {'keep_implicit': True}),
                     ('ignore_carbon_radicals', {'ignore_carbon_radicals': True})):
        for text, tpl, cls in _t4():
            yield text, 'T4', f'{tpl} {name}', cls, kw, text
        for text, tpl, cls in _t3():
            yield text, 'T3', f'{tpl} {name}', cls, kw, text
    # the centre inside a reaction SMILES (every role, first molecule / later molecule, merged by a CXSMILES fragment group)
    for wrap, dot in RXN_WRAPS:
        for text, tpl, cls in _t4(_T4[:4]):
            yield wrap.format(t=text), 'T4dot' if dot else 'T4', f'{wrap} {tpl}', cls, {}, (text + '.O') if dot else text
        for text, tpl, cls in _t3(_T3[:9]):
            yield wrap.format(t=text), 'T3dot' if dot else 'T3', f'{wrap} {tpl}', cls, {}, (text + '.O') if dot else text


# ---- double bonds ------------------------------------------------------------------------------------------------------------
def _flip(d):
    return {'/': '\\', '\\': '/', '': ''}[d]


def ct_two_sided():
    """one double bond whose substituent bond is a ring-closure bond carrying a mark on BOTH digits (the two marks name the same
    direction: `C/1 ... F\\1`), combined with the plain forms of the other end"""
    D = ('/', '\\')
    for na in (1, 2):
        for nb in (1, 2):
            A = ('F', 'Cl')[:na]
            B = ('Br', 'I')[:nb]
            fam = f'CT{na}{nb}'
            lefts = []
            for d in D:
                for e in (('', '/', '\\') if na == 2 else ('',)):
                    a2 = f'({e}{A[1]})' if na == 2 else ''
                    s2 = {A[1]: _side(False, e) if e else None} if na == 2 else {}
                    lefts.append(('C?1 .F?1 (both)', '', f'C{d}1{a2}', f'.{A[0]}{_flip(d)}1', {A[0]: _side(False, d), **s2}))
                    lefts.append(('F?1. C?1 (both)', f'{A[0]}{d}1.', f'C{_flip(d)}1{a2}', '', {A[0]: _side(True, d), **s2}))
            rights = []
            for f in ('', '/', '\\'):
                for g in (('', '/', '\\') if nb == 2 else ('',)):
                    sf = _side(False, f) if f else None
                    sg = _side(False, g) if g else None
                    if nb == 2:
                        rights.append((f'C({f}{B[0]}){g}{B[1]}', '', {B[0]: sf, B[1]: sg}, True))
                    else:
                        rights.append((f'C{f}{B[0]}', '', {B[0]: sf}, True))
            for f in D:
                for g in (('', '/', '\\') if nb == 2 else ('',)):
                    sg = _side(False, g) if g else None
                    if nb == 2:
                        rights.append((f'C{f}2{g}{B[1]}', f'.{B[0]}{_flip(f)}2', {B[0]: _side(False, f), B[1]: sg}, False))
                    else:
                        rights.append((f'C{f}2', f'.{B[0]}{_flip(f)}2', {B[0]: _side(False, f)}, False))
            plain_lefts = []
            for d in ('', '/', '\\'):
                for e in (('', '/', '\\') if na == 2 else ('',)):
                    a2 = f'({e}{A[1]})' if na == 2 else ''
                    s2 = {A[1]: _side(False, e) if e else None} if na == 2 else {}
                    plain_lefts.append(('plain', '', f'{A[0]}{d}C{a2}', '', {A[0]: _side(True, d) if d else None, **s2}))
            for lf, lp, lt, ls, lsd in lefts + plain_lefts:
                sa = _end_side(lsd, A)
                if sa == 'bad':
                    continue
                for rt, rs, rsd, rplain in rights:
                    if lf == 'plain' and rplain:
                        continue
                    sb = _end_side(rsd, B)
                    if sb == 'bad':
                        continue
                    cls = None if sa is None or sb is None else sa == sb
                    yield f'{lp}{lt}={rt}{ls}{rs}', fam, f'two-sided closure: {lf if lf != "plain" else "= C?2 .Br?2 (both)"}', cls, {}, None


def ct_variants():
    """the texts of o12_stereo.ct_spellings rewritten: ring-closure digits as %nn; the double bond stretched to a cumulene of three
    double bonds (planar like a double bond: the marks keep their meaning; RDKit has no cumulene stereo, only the class oracle judges);
    a second dot-separated component before / after (marks after dots)"""
    for text, fam, form, cls in ct_spellings():
        if '1' in text or '2' in text:
            yield re.sub(r'([12])', lambda mo: '%1' + mo.group(), text), fam, f'%nn {form}', cls, {}, None
        yield text.replace('=', '=C=C='), 'CU' + fam[2:], f'cumulene {form}', cls, {}, None
        if '1' not in text and '2' not in text:
            yield 'O.' + text, fam + 'dot', f'O. {form}', cls, {}, None
            yield text + '.O', fam + 'dot', f'{form} .O', cls, {}, None
            yield text, fam, f'{form} remap', cls, {'remap': True}, None
            yield text, fam, f'{form} ignore=False', cls, {'ignore': False}, None
            yield f'O>>{text}', fam, f'O>> {form}', cls, {}, text
            yield f'{text}.O>>O |f:0.1|', fam + 'dot', f'{form} .O>>O |f:0.1|', cls, {}, text + '.O'


# ---- allenes ---------------------------------------------------------------------------------------------------------------------
def allene_extra():
    """yield (text, family, form, cls, kw, None [, h_first]).  AL5: five cumulated carbons, four heavy substituents (extended tetrahedral rule as for
    allenes).  AL3: one end carries an implicit hydrogen, always spelled `FC=` first (OpenSMILES does not say where an implicit
    hydrogen of an allene END stands, so only the order at the other end and the mark vary).  ALH3 / ALH2: explicit hydrogens at the
    ends - every neighbour is written, the extended tetrahedral rule fixes the class without any convention."""
    ref = ('F', 'Cl', 'Br', 'I')
    for k in ('@', '@@'):
        at = k == '@'
        for A in itertools.permutations(('F', 'Cl')):
            for B in itertools.permutations(('Br', 'I')):
                a, b = A
                c, d = B
                forms = [('{a}C({b})=C=[C{k}]=C=C({c}){d}', (a, b, c, d)),
                         ('C({a})({b})=C=[C{k}]=C=C({c}){d}', (a, b, c, d)),
                         ('{c}C({d})=C=[C{k}]=C=C({a}){b}', (c, d, a, b)),
                         ('[C{k}](=C=C({a}){b})=C=C({c}){d}', (a, b, c, d)),
                         ('{a}C({b})=C=[C{k}]=C=C1{d}.{c}1', (a, b, c, d)),
                         ('{a}C1=C=[C{k}]=C=C({c}){d}.{b}1', (a, b, c, d)),
                         ('{a}C(=C=[C{k}]=C=C({c}){d}){b}', (a, c, d, b)),
                         ('C(=[C{k}]=C=C({c}){d})=C({a}){b}', (a, b, c, d))]
                for tpl, order in forms:
                    yield tpl.format(a=a, b=b, c=c, d=d, k=k), 'AL5', tpl, int(at ^ parity(order, ref)), {}, None, False
        for c, d in itertools.permutations(('Cl', 'Br')):
            for tpl in ('FC=[C{k}]=C({c}){d}', 'FC=[C{k}]=C({c})({d})', 'FC=[C{k}]=C1{d}.{c}1', 'FC=[C{k}]=C%11{d}.{c}%11',
                        '{c}1.FC=[C{k}]=C1{d}'):
                yield tpl.format(c=c, d=d, k=k), 'AL3', tpl, int(at ^ parity((c, d), ('Cl', 'Br'))), {}, None, False
        # explicit hydrogens: reference order (F, H1, X, Y)
        for a, b in itertools.permutations(('F', '[H]')):
            for fam, other in (('ALH3', ('Cl', 'Br')), ('ALH2', ('Cl', '[H]'))):
                r4 = ('F', 'h1', other[0], 'h2' if other[1] == '[H]' else other[1])
                nm = lambda x, end: ('h1' if end == 1 else 'h2') if x == '[H]' else x
                for c, d in itertools.permutations(other):
                    forms = [('{a}C({b})=[C{k}]=C({c}){d}', (nm(a, 1), nm(b, 1), nm(c, 2), nm(d, 2)), a == '[H]' or c == '[H]'),
                             ('C({a})({b})=[C{k}]=C({c}){d}', (nm(a, 1), nm(b, 1), nm(c, 2), nm(d, 2)), a == '[H]' or c == '[H]'),
                             ('{c}C({d})=[C{k}]=C({a}){b}', (nm(c, 2), nm(d, 2), nm(a, 1), nm(b, 1)), a == '[H]' or c == '[H]'),
                             ('[C{k}](=C({a}){b})=C({c}){d}', (nm(a, 1), nm(b, 1), nm(c, 2), nm(d, 2)), a == '[H]' or c == '[H]'),
                             ('{a}C(=[C{k}]=C({c}){d}){b}', (nm(a, 1), nm(c, 2), nm(d, 2), nm(b, 1)), a == '[H]' or c == '[H]')]
                    for tpl, order, hfirst in forms:
                        yield tpl.format(a=a, b=b, c=c, d=d, k=k), fam, tpl, int(at ^ parity(order, r4)), {}, None, hfirst


# ---- texts judged by RDKit only (no template class) ----------------------------------------------------------------------------------
RDX = [
    # hetero double bonds
    'C/C=N/O', 'C/C=N\\O', 'C/C(F)=N/O', 'C/C(F)=N\\O', 'C/N=N/C', 'C/N=N\\C', 'O/N=C/C', 'O\\N=C/C', 'C(/C)=N/O', 'C/C=[N+](/C)[O-]',
    'C/C=[N+](\\C)[O-]', 'CC/C=[N+](/[O-])C',
    # marks behind a closed branch / nested branches / after a dot
    'CC(C)/C=C/F', 'CC(C)\\C=C/F', 'N(C)(C)/C=C/F', 'N(C)(C)/C=C\\F', 'C(C(/C=C/F)F)Cl', 'C(C(/C=C\\F)F)Cl', 'O.F/C=C/Cl', 'F/C=C\\Cl.O',
    'O.C(/F)=C/Cl', 'C(=C/Br)(/F)Cl', 'C(=C\\Br)(/F)Cl', 'C(=C/Br)(Cl)/F', 'C(=C\\Br)(Cl)/F', 'C(/F)(Cl)=C/Br', 'C(Cl)(/F)=C/Br',
    'C(\\F)(Cl)=C/Br', 'C(Cl)(\\F)=C/Br',
    # aromatic substituents
    'F/C=C/c1ccccc1', 'F/C=C\\c1ccccc1', 'c1ccccc1/C=C/F', 'c1ccccc1/C=C\\F', 'c1ccc(/C=C/F)cc1', 'c1ccc(/C=C\\F)cc1', 'c1cc(ccc1)/C=C/F',
    # polyenes, shared marks
    'F/C=C/C=C/C=C/Cl', 'F/C=C\\C=C/C=C\\Cl', 'F/C(=C/Cl)/C=C/Br', 'F/C(=C\\Cl)/C=C/Br', 'F/C=C(/Cl)\\C=C\\Br', 'F/C=C(\\Cl)/C=C\\Br',
    'C(/C=C/F)=C/Cl', 'C(/C=C\\F)=C\\Cl', 'C(=C/Cl)/C=C/F',
    # ring double bonds in large rings, marks on ring-closure digits of a real ring
    'C1CCCCCC/C=C/C1', 'C1CCCCCC/C=C\\C1', 'C/1=C/CCCCCCCC1', 'C/1=C\\CCCCCCCC1', 'C1=C/CCCCCCCC/1', 'C1=C/CCCCCCCC\\1', 'C\\1=C/CCCCCCCC/1',
    'C/1=C/CCCCCCCC\\1', 'C1CCCC/C=C/CCCCC1', 'C1CCCC/C=C\\CCCCC1',
    # ring-attached double bonds
    'C[C@H]1CCC/C(=C\\C)C1', 'C[C@H]1CCC/C(=C/C)C1', 'C[C@@H]1CCCC(=C/C)/C1', 'CC=C1CCCCC1', 'C/C=C1/CCCC(C)C1', 'C/C=C1\\CCCC(C)C1',
    # centres next to double bonds, first-atom centre followed by marks
    'C[C@H](F)/C=C/[C@@H](Cl)C', 'C[C@H](F)/C=C\\[C@@H](Cl)C', '[C@H](F)(Cl)/C=C/C', '[C@@H](F)(Cl)/C=C\\C', 'F/C=C/[C@H](Cl)Br',
    'F/C=C\\[C@@](Cl)(Br)I', '[C@H](F)(Cl)C.[C@H](F)(Cl)Br', 'F[C@H](Cl)C.[C@@H](F)(Cl)Br',
    # charges, isotopes, aromatic and ring substituents on centres
    'C[C@H]([13CH3])O', 'C[C@@H]([13CH3])O', '[13CH3]/C=C/C', '[13CH3]/C=C\\C', '[NH3+][C@@H](C)C([O-])=O', '[NH3+][C@H](C)C([O-])=O',
    'C[C@@](N)(O)C(=O)[O-]', 'C[C@H](O)c1ccccc1', 'c1ccccc1[C@@H](O)C', 'C[C@H](O)c1ccccn1', 'F[C@H]1CCCC[C@@H]1Cl', 'F[C@H]1CCCC[C@H]1Cl',
    'C[C@]12CCCC[C@@H]1CCCO2', 'C[C@]12CCCC[C@H]1CCCO2', 'C[C@@H]1CCCC[C@]12CCCO2', 'C[C@@H]1CCCC[C@@]12CCCO2', 'O[C@H]1[C@@H](F)C1', 'O[C@H]1[C@H](F)C1',
    '[C@H]1(O)[C@@H](F)C1', '[C@@]12(C)CCCC[C@@H]1CCCO2', 'N[C@@H](C)C(=O)N[C@@H](CS)C(=O)O', 'C[C@H](N)C#N', 'C[C@H](O)C#C', 'C[C@H](F)[N+](=O)[O-]',
    'C[C@H](F)S(C)(=O)=O', 'C[C@H](F)P(C)(C)=O', 'C[C@H](Cl)[Si](C)(C)C', 'C[C@H](O)B(O)O',
    # ring closures on the centre mixed with hydrogens, two-digit and reused digits
    'F[C@H]1CCCCO1', 'F[C@@H]1OCCCC1', '[C@H]1(F)CCCCO1', 'C1CCCO[C@H]1F', 'C1CCCO[C@@]1(F)Cl', 'F[C@]1(Cl)CCCC1.O1CC1', 'C1CC1[C@H]1OCCC1',
    'C1CC1[C@@]1(F)OCCC1', 'F[C@H]%10CCCCO%10', 'F[C@]%10%11CCCO%10.Cl%11', 'F[C@]%11%10CCCO%10.Cl%11',
]


# ---- geometry ---------------------------------------------------------------------------------------------------------------------
def det3(a, b, c):
    return a[0] * (b[1] * c[2] - b[2] * c[1]) - a[1] * (b[0] * c[2] - b[2] * c[0]) + a[2] * (b[0] * c[1] - b[1] * c[0])


def mark_of(P):
    """'@' / '@@' of four 3D positions in neighbour order (seen from the first the others run anticlockwise = '@'; det < 0, see
    checks/b12._geom_mark); None when the four points are coplanar"""
    a, b, c, d = P
    v = det3([b[i] - a[i] for i in range(3)], [c[i] - a[i] for i in range(3)], [d[i] - a[i] for i in range(3)])
    return '@' if v < 0 else '@@' if v > 0 else None


def mirror(p, a, b):
    """mirror image of the 2D point p in the line through a and b"""
    dx, dy = b[0] - a[0], b[1] - a[1]
    l2 = dx * dx + dy * dy
    t = ((p[0] - a[0]) * dx + (p[1] - a[1]) * dy) / l2
    fx, fy = a[0] + t * dx, a[1] + t * dy
    return 2 * fx - p[0], 2 * fy - p[1]


def allene_drawing_mark(t_w, t_o, y, v, y2=None):
    """configuration an allene drawing denotes.  t_w: 2D position of the terminal the wedge starts from, t_o: the other terminal,
    v: +1 wedge (towards the viewer) / -1 hash for the wedged substituent x; y: 2D position of a substituent of the other terminal
    (drawn in the paper plane), y2 its partner (default: the mirror image of y in the axis = where a second substituent / the
    hydrogen stands).  Real geometry: x stands above (v > 0) / below the terminal t_w, its partner x' on the other side, y and y2 in the
    plane.  Returns the mark for the neighbour order (x, x', y, y2); None if y lies on the axis."""
    if y2 is None:
        y2 = mirror(y, t_w, t_o)
    return mark_of([(t_w[0], t_w[1], v), (t_w[0], t_w[1], -v), (y[0], y[1], 0), (y2[0], y2[1], 0)])


def same_side(n, m, p, q, tol=1e-3):
    """2D: p (substituent of n) and q (substituent of m) lie on the same side of the line n-m: True (cis) / False (trans);
    None when one of them is (nearly) on the line"""
    dx, dy = m[0] - n[0], m[1] - n[1]
    ln = (dx * dx + dy * dy) ** .5
    sp = (dx * (p[1] - n[1]) - dy * (p[0] - n[0])) / ln
    sq = (dx * (q[1] - n[1]) - dy * (q[0] - n[0])) / ln
    if abs(sp) < tol or abs(sq) < tol:
        return None
    return (sp > 0) == (sq > 0)


def v2000(atoms, bonds, charges=(), isotopes=()):
    """minimal V2000 molblock.  atoms: [(symbol, x, y)], bonds: [(i, j, order, stereo flag)] 1-based, begin atom first"""
    out = ['', '  o12_more', '', f'{len(atoms):3d}{len(bonds):3d}  0  0  0  0  0  0  0  0999 V2000']
    for s, x, y in atoms:
        out.append(f'{x:10.4f}{y:10.4f}{0:10.4f} {s:<3s} 0  0  0  0  0  0  0  0  0  0  0  0')
    for i, j, o, f in bonds:
        out.append(f'{i:3d}{j:3d}{o:3d}{f:3d}')
    for i in range(0, len(charges), 8):
        part = charges[i:i + 8]
        out.append(f'M  CHG{len(part):3d}' + ''.join(f'{a:4d}{c:4d}' for a, c in part))
    for i in range(0, len(isotopes), 8):
        part = isotopes[i:i + 8]
        out.append(f'M  ISO{len(part):3d}' + ''.join(f'{a:4d}{c:4d}' for a, c in part))
    out.append('M  END')
    return '\n'.join(out) + '\n'
