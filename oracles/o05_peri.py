"""C05 input class: tautomers of aza-substituted PERI-FUSED ring systems (three rings share an atom, one of them five-membered) written as Kekule
strings under many atom orders.  thiele()'s tautomer-repair search has to backtrack through atoms of abandoned branches only on such skeletons; a
seeded defect there (C05-E) showed on 72 of 12 807 random-order inputs of this class and on nothing else.

Structures come from RDKit (trusted external generator, not an oracle of the result): frameworks -> single and double aza-substitutions -> RDKit's tautomer
enumeration -> Kekule SMILES of the same structure under seeded atom permutations.  The contract judged on them is the statement's own (the aromatic
form of one structure does not depend on atom numbering); nothing here says WHICH form is right.
"""
import random

# peri-fused frameworks with a five-membered ring (RDKit-readable); the nitrogen-free ones only enter through their aza-substituted variants
FRAMES = ('c1c[nH]c2c(c1)c1cccc3ncc2c31',          # the C05-E witness skeleton (pyrido-fused benz[cd]indole)
          'C1=Cc2cccc3cccc1c23',                   # acenaphthylene
          'c1ccc2c(c1)-c1cccc3cccc-2c13',          # fluoranthene
          'c1cc2ccn3ccc(c1)c23',                   # pyrrolo[3,2,1-ij]quinoline
          'C1=Nc2cccc3cccc(c23)N1',                # perimidine
          'c1cc2ccc3cccc4[nH]c(c1)c2c34',          # aza-cyclopenta[cd]phenalene
          'c1cc2cc[nH]c3ccc(c1)c23',               # 1H-benz[cd]indole isomer with the NH in a six-membered ring position
          'c1cc2c3c(c1)cc[nH]c3cn2')               # diaza benz[cd]indole


def _rd():
    from rdkit import Chem, RDLogger
    RDLogger.DisableLog('rdApp.*')
    from rdkit.Chem.MolStandardize import rdMolStandardize
    return Chem, rdMolStandardize


def structures(max_per_frame=40):
    """canonical SMILES (RDKit) of the tautomers of every framework and of its single and double aza-substitutions that have >= 2 ring nitrogens, one of them N-H"""
    Chem, std = _rd()
    te = std.TautomerEnumerator()
    te.SetMaxTautomers(64)
    out = []
    seen = set()
    for f in FRAMES:
        base = Chem.MolFromSmiles(f)
        if base is None:
            continue
        sites = [a.GetIdx() for a in base.GetAtoms() if a.GetIsAromatic() and a.GetSymbol() == 'C' and a.GetTotalNumHs() == 1]
        variants = [base]
        for combo in [(i,) for i in sites] + [(i, j) for x, i in enumerate(sites) for j in sites[x + 1:]]:      # one or two CH -> N
            rw = Chem.RWMol(base)
            for i in combo:
                rw.GetAtomWithIdx(i).SetAtomicNum(7)
                rw.GetAtomWithIdx(i).SetNumExplicitHs(0)
            try:
                v = rw.GetMol()
                Chem.SanitizeMol(v)
                variants.append(v)
            except Exception:
                continue
        n0 = len(out)
        for v in variants:
            ring_n = [a for a in v.GetAtoms() if a.GetSymbol() == 'N' and a.IsInRing()]
            if len(ring_n) < 2:
                continue
            try:
                tauts = list(te.Enumerate(v))
            except Exception:
                continue
            for t in tauts:
                if not any(a.GetSymbol() == 'N' and a.GetTotalNumHs() for a in t.GetAtoms()):
                    continue                      # a mobile hydrogen on nitrogen is what the repair search moves
                s = Chem.MolToSmiles(t)
                if s not in seen and len(out) - n0 < max_per_frame:
                    seen.add(s)
                    out.append(s)
    return out


def spellings(smi, k, seed):
    """k Kekule SMILES of the structure `smi`, each under a seeded permutation of the atoms (explicit bond orders, no aromatic flags)"""
    Chem, _ = _rd()
    m = Chem.MolFromSmiles(smi)
    r = random.Random(f'{seed}:{smi}')
    out = []
    for _ in range(k):
        perm = list(range(m.GetNumAtoms()))
        r.shuffle(perm)
        p = Chem.RenumberAtoms(m, perm)
        try:
            Chem.Kekulize(p, clearAromaticFlags=True)
        except Exception:
            continue
        out.append(Chem.MolToSmiles(p, canonical=False, kekuleSmiles=True))
    return out
