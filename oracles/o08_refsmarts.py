"""Reference reading of the SMARTS subset documented in the docstring of chython.smarts() + independent atom/bond attributes
and primitive predicates for property C08 (specification, not verified code).

Documented subset (docstring): D, a, h, r, !R atom primitives; x (heteroatoms), z (hybridization 1 sp3, 2 sp2, 3 sp, 4 aromatic),
M (masked) private primitives; element, element list, #n; A any element (";A" ignored), M any metal; isotope, charge, mapping,
stereo marks; ";" is mandatory between primitives except for charge, isotope and stereo marks; "&" unsupported; bond order lists
(max 2), not-bonds, [not]ring bonds only combined with explicit bond / not-bond / list; CXSMARTS radicals.

Three verdicts for a bracket / bond string: Accept(attributes) - inside the documented subset with a determined meaning;
Reject(reason) - documented as unsupported (must raise the invalid-SMARTS error); Unspecified - the docstring does not determine it.
"""
import networkx as nx

from .o03_refsmiles import SYMBOLS, ZNUM, CHARGES

_SYM = set(SYMBOLS)
_DIG = '0123456789'
# non-metals of the any-metal query as documented in the comment of the compiled matcher (algorithms/isomorphism.py:
# "except 1, 2, 5, 6, 7, 8, 9, 10, 14, 15, 16, 17, 18, 32, 33, 34, 35, 36, 51, 52, 53, 54, 85") + the noble gases Rn, Og
NON_METALS = frozenset((1, 2, 5, 6, 7, 8, 9, 10, 14, 15, 16, 17, 18, 32, 33, 34, 35, 36, 51, 52, 53, 54, 85, 86, 118))
RANGES = {'D': (0, 14), 'h': (0, 14), 'x': (0, 14), 'z': (1, 4)}
ATTR = {'D': 'neighbors', 'h': 'implicit_hydrogens', 'x': 'heteroatoms', 'z': 'hybridization', 'r': 'ring_sizes'}


class Reject(Exception):
    pass


class Unspecified(Exception):
    pass


def _charge_at(t, i):
    """charge token starting at t[i] (t[i] in '+-') -> (value, end) ; Unspecified for spellings outside the documented table"""
    j = i + 1
    if j < len(t) and t[j] == t[i]:
        j += 1
    elif j < len(t) and t[j] in _DIG:
        j += 1
    tok = t[i:j]
    if tok not in CHARGES or (j < len(t) and (t[j] in '+-' or t[j] in _DIG)):
        raise Unspecified('charge-spelling')
    return CHARGES[tok], j


def read_bracket(body):
    """body of [ ... ] -> dict(kind, elements, isotope, charge, stereo, mapping, neighbors, implicit_hydrogens, heteroatoms,
    hybridization, ring_sizes, masked) ; tuples sorted; () = unspecified"""
    if '&' in body:
        raise Reject('and-operator')
    if body == '':
        raise Unspecified('empty')   # tokenizer level: "empty [] brackets"
    if any(c in body for c in '[]() \t'):
        raise Unspecified('shape')
    out = dict(kind=None, elements=(), isotope=None, charge=0, stereo=None, mapping=0, neighbors=(), implicit_hydrogens=(),
               heteroatoms=(), hybridization=(), ring_sizes=(), masked=False)
    t = body
    # mapping at the very end
    k = t.rfind(':')
    if k >= 0:
        mp = t[k + 1:]
        if not mp or any(c not in _DIG for c in mp):
            raise Unspecified('mapping-spelling')
        if mp[0] == '0' or len(mp) > 4:
            raise Unspecified('mapping-zero-or-long')
        out['mapping'] = int(mp)
        t = t[:k]
    items = t.split(';')
    head = items[0]
    # isotope
    i = 0
    while i < len(head) and head[i] in _DIG:
        i += 1
    if i:
        if head[0] == '0' or i > 3:
            raise Unspecified('isotope-spelling')
        out['isotope'] = int(head[:i])
        head = head[i:]
    # element spec, then optional stereo / charge glued to it
    j = 0
    while j < len(head) and head[j] not in '@+-':
        j += 1
    spec, rest = head[:j], head[j:]
    if spec == '':
        if rest == '':
            raise Reject('empty-element')
        raise Unspecified('mark-before-element')
    els = []
    for e in spec.split(','):
        if e in ('A', 'M'):
            els.append(e)
        elif e in _SYM:
            els.append(e)
        elif e.startswith('#') and e[1:] and all(c in _DIG for c in e[1:]) and e[1] != '0' and 1 <= int(e[1:]) <= 118:
            els.append(SYMBOLS[int(e[1:]) - 1])
        elif e and e[0] in 'DhrxzaRXvH!$*' or e == '':
            raise Unspecified('element-spelling')   # looks like a primitive without ';' or an unsupported SMARTS atom primitive
        else:
            raise Unspecified('element-spelling')
    if len(els) == 1:
        e = els[0]
        out['kind'] = 'any' if e == 'A' else ('metal' if e == 'M' else 'element')
        if out['kind'] == 'element':
            out['elements'] = (e,)
    else:
        if 'A' in els or 'M' in els:
            raise Unspecified('list-with-A-or-M')
        if len(set(els)) != len(els):
            raise Unspecified('list-duplicates')
        out['kind'] = 'list'
        out['elements'] = tuple(els)

    def marks(r):
        i = 0
        while i < len(r):
            if r[i] == '@':
                if out['stereo'] is not None:
                    raise Unspecified('two-stereo-marks')
                if r[i:i + 3] == '@@@' or r[i:i + 2] == '@?':
                    raise Unspecified('stereo-spelling')
                if r[i:i + 2] == '@@':
                    out['stereo'], i = False, i + 2
                else:
                    out['stereo'], i = True, i + 1
            elif r[i] in '+-':
                if out['charge']:
                    raise Unspecified('two-charges')
                out['charge'], i = _charge_at(r, i)
            else:
                raise Unspecified('glued-primitive')
    marks(rest)
    seen = set()
    for it in items[1:]:
        if it == '':
            raise Unspecified('empty-item')
        if it[0] in '@+-':
            marks(it)
            continue
        if any(c in '+-@' for c in it):
            raise Unspecified('glued-mark')   # charge / stereo mark glued to a primitive without ';'
        if it == 'a':
            key, val = 'z', (4,)
        elif it == 'A':
            continue
        elif it == '!R':
            key, val = 'r', (0,)
        elif it == 'M':
            if out['masked']:
                raise Unspecified('duplicate-primitive')
            out['masked'] = True
            continue
        else:
            parts = it.split(',')
            if parts[0] == '' or parts[0][0] not in 'Dhrxz':
                if parts[0] and parts[0][0].isalpha() or parts[0][:1] in ('!', '$', '*', '#', '^', '~'):
                    raise Reject('unsupported-primitive')
                raise Unspecified('primitive-spelling')
            key = parts[0][0]
            vals = []
            for p in parts:
                if not p or p[0] != key:
                    if p and p[0] in 'Dhrxz':
                        raise Reject('or-of-different-primitives')
                    raise Unspecified('primitive-spelling')
                num = p[1:]
                if any(c in '+-@' for c in num):
                    raise Unspecified('glued-mark')   # charge / stereo mark glued to a primitive without ';'
                if not num or any(c not in _DIG for c in num):
                    if num == '':
                        raise Unspecified('primitive-without-number')
                    raise Reject('primitive-number')
                if len(num) > 1 and num[0] == '0':
                    raise Unspecified('leading-zero')
                vals.append(int(num))
            if len(set(vals)) != len(vals):
                raise Unspecified('duplicate-values')
            if key == 'r':
                if any(v < 3 for v in vals):
                    raise Unspecified('ring-size-range')
            else:
                lo, hi = RANGES[key]
                if any(v < lo or v > hi for v in vals):
                    raise Unspecified('value-range')
            val = tuple(sorted(vals))
        if key in seen:
            raise Unspecified('duplicate-primitive')
        seen.add(key)
        out[ATTR[key]] = val
    if out['kind'] == 'metal' and (out['charge'] or out['isotope'] or out['stereo'] is not None or out['implicit_hydrogens']
                                   or out['heteroatoms'] or out['ring_sizes']):
        raise Unspecified('metal-with-ignored-attributes')   # docstring of AnyMetal: "ignored"
    if out['kind'] in ('any', 'list') and out['isotope']:
        raise Unspecified('isotope-without-element')
    return out


BOND = {'-': 1, '=': 2, '#': 3, ':': 4}


def read_bond(text):
    """bond text between two atoms -> dict(order tuple, in_ring None/True/False, direction None/'/'/'\\\\')"""
    if text == '':
        raise Unspecified('implicit-bond')
    if '~' in text:
        raise Unspecified('any-bond')
    if text in ('/', '\\'):
        return dict(order=(1,), in_ring=None, direction=text)
    ring = None
    t = text
    if ';' in t:
        t, r = t.split(';', 1)
        if r == '@':
            ring = True
        elif r == '!@':
            ring = False
        else:
            raise Reject('ring-mark')
        if t == '':
            raise Reject('ring-mark-without-bond')
    if '@' in t:
        raise Reject('ring-mark-without-semicolon')
    if t.startswith('!'):
        if len(t) == 2 and t[1] in BOND:
            return dict(order=tuple(sorted({1, 2, 3, 4} - {BOND[t[1]]})), in_ring=ring, direction=None)
        raise Reject('not-bond')
    parts = t.split(',')
    if len(parts) > 2:
        raise Reject('bond-list-longer-than-2')
    if any(p not in BOND for p in parts):
        raise Reject('bond-symbol')
    return dict(order=tuple(sorted({BOND[p] for p in parts})), in_ring=ring, direction=None)


# ---- independent attributes of molecule atoms / bonds ----------------------------------------------------------------------
def environment(mol):
    """attributes determined from the graph only (bond orders, atomic numbers, stored charge / isotope / radical / implicit H):
    -> (atoms: n -> dict, bonds: frozenset(n, m) -> dict).  Ring sizes are the sizes of mol.sssr rings through the atom (ring perception
    itself is C06); ring membership of atoms and bonds is determined independently (bridges of the graph without special bonds)."""
    g = nx.Graph()
    g.add_nodes_from(mol._atoms)
    orders = {}
    for n, ms in mol._bonds.items():
        for m, b in ms.items():
            o = int(b)
            orders[frozenset((n, m))] = o
            if o != 8:
                g.add_edge(n, m)
    bridges = {frozenset(e) for e in nx.bridges(g)} if g.number_of_edges() else set()
    rs = {}
    for r in mol.sssr:
        for n in r:
            rs.setdefault(n, set()).add(len(r))
    atoms = {}
    for n, a in mol._atoms.items():
        nb = [(m, int(b)) for m, b in mol._bonds[n].items() if int(b) != 8]
        os_ = [o for _, o in nb]
        if 4 in os_:
            z = 4
        elif 3 in os_ or os_.count(2) >= 2:
            z = 3
        elif 2 in os_:
            z = 2
        else:
            z = 1
        in_ring = any(frozenset((n, m)) not in bridges for m, _ in nb)
        atoms[n] = dict(Z=a.atomic_number, charge=a.charge, isotope=a.isotope, radical=bool(a.is_radical), h=a.implicit_hydrogens,
                        D=len(nb), x=sum(1 for m, _ in nb if mol._atoms[m].atomic_number not in (1, 6)), z=z,
                        rings=frozenset(rs.get(n, ())), in_ring=in_ring)
    bonds = {k: dict(order=o, in_ring=(o != 8 and k not in bridges)) for k, o in orders.items()}
    return atoms, bonds


def env_key(e):
    return (e['Z'], e['charge'], e['isotope'], e['radical'], e['h'], e['D'], e['x'], e['z'], tuple(sorted(e['rings'])), e['in_ring'])


def failed(q, e, radical=False):
    """documented meaning of the query attributes q (read_bracket output) on an atom environment e: list of the attributes the atom fails"""
    out = []
    k = q['kind']
    if k == 'metal':
        if e['Z'] in NON_METALS:
            out.append('metal')
        if q['neighbors'] and e['D'] not in q['neighbors']:
            out.append('neighbors')
        if q['hybridization'] and e['z'] not in q['hybridization']:
            out.append('hybridization')
        return out
    if k in ('element', 'list') and e['Z'] not in [ZNUM[s] for s in q['elements']]:
        out.append('element')
    if q['isotope'] and e['isotope'] != q['isotope']:
        out.append('isotope')
    if e['charge'] != q['charge']:
        out.append('charge')
    if e['radical'] != radical:
        out.append('radical')
    if q['neighbors'] and e['D'] not in q['neighbors']:
        out.append('neighbors')
    if q['implicit_hydrogens'] and e['h'] not in q['implicit_hydrogens']:
        out.append('implicit_hydrogens')
    if q['heteroatoms'] and e['x'] not in q['heteroatoms']:
        out.append('heteroatoms')
    if q['hybridization'] and e['z'] not in q['hybridization']:
        out.append('hybridization')
    if q['ring_sizes']:
        if q['ring_sizes'] == (0,):
            if e['in_ring']:
                out.append('not-in-ring')
        elif not (e['rings'] & set(q['ring_sizes'])):
            out.append('ring_sizes')
    return out


def atom_matches(q, e, radical=False):
    return not failed(q, e, radical)


def bond_matches(q, e):
    if e['order'] not in q['order']:
        return False
    if q['in_ring'] is not None and e['in_ring'] != q['in_ring']:
        return False
    return True
