"""C08 audit extension: reference semantics for whole SMARTS strings built from templates, API-built queries, and labels of edited molecules
(specification, not verified code).

* `embeddings(...)`: all assignments query atoms -> target atoms under the documented meaning of the atom / bond primitives
  (predicates of oracles/o08_refsmarts.py) with the substructure semantics of C07 (injective; every query bond has an image bond satisfying
  it; no further target bond - of any order - joins the images of two atoms of one query component; atoms of different query components lie
  in different target components, special bonds connect).  Plain backtracking, nothing of the library's search is used.
* `fresh_environment(mol)`: independent atom / bond attributes of a molecule that may carry stale caches: the attributes are determined on a
  fresh container holding the same atoms and bonds (same insertion order), so ring sizes come from a ring perception that never saw the
  history of edits (ring perception itself is C06).
* `creation_parity(rm, i)`: parity between the written neighbour order of a stereo centre and the order in which a reader that appends
  ring-closure bonds when the closing digit is met creates the bonds (input predicate of the known family smarts-stereo:ring-closure).
"""
from . import o08_refsmarts as Q


def target_view(mol, env=None):
    """(atoms env, bonds env, adjacency incl. special bonds, component index by atom)"""
    atoms, bonds = env or Q.environment(mol)
    adj = {n: set() for n in atoms}
    for k in bonds:
        x, y = tuple(k)
        adj[x].add(y)
        adj[y].add(x)
    comp, c = {}, 0
    for s in adj:
        if s in comp:
            continue
        comp[s] = c
        todo = [s]
        while todo:
            x = todo.pop()
            for y in adj[x]:
                if y not in comp:
                    comp[y] = c
                    todo.append(y)
        c += 1
    return atoms, bonds, adj, comp


def embeddings(qatoms, qbonds, view, limit=200000):
    """qatoms: list of (reference attributes, radical flag); qbonds: {(i, j) i<j: reference bond}; view = target_view(mol)
    -> set of tuples (image of query atom 0, 1, ...)"""
    atoms, bonds, adj, comp = view
    n = len(qatoms)
    qadj = {i: {} for i in range(n)}
    for (i, j), b in qbonds.items():
        qadj[i][j] = b
        qadj[j][i] = b
    qcomp, c = {}, 0
    for s in range(n):
        if s in qcomp:
            continue
        qcomp[s] = c
        todo = [s]
        while todo:
            x = todo.pop()
            for y in qadj[x]:
                if y not in qcomp:
                    qcomp[y] = c
                    todo.append(y)
        c += 1
    cand = [[a for a, e in atoms.items() if Q.atom_matches(r, e, rad)] for r, rad in qatoms]
    out = set()
    img = [None] * n
    used = set()

    def ok(i, a):
        for j in range(i):
            b = img[j]
            if qcomp[i] == qcomp[j]:
                tb = bonds.get(frozenset((a, b)))
                qb = qadj[i].get(j)
                if qb is None:
                    if tb is not None:
                        return False
                elif tb is None or not Q.bond_matches(qb, tb):
                    return False
            elif comp[a] == comp[b]:
                return False
        return True

    def rec(i):
        if len(out) >= limit:
            return
        if i == n:
            out.add(tuple(img))
            return
        for a in cand[i]:
            if a in used or not ok(i, a):
                continue
            img[i] = a
            used.add(a)
            rec(i + 1)
            used.discard(a)
        img[i] = None
    rec(0)
    return out


def fresh_copy(mol):
    """fresh MoleculeContainer with the same atoms / bonds in the same insertion order; no caches, labels not calculated by the library"""
    new = object.__new__(type(mol))
    type(mol).__init__(new)
    atoms, bonds = {}, {}
    for n, a in mol._atoms.items():
        atoms[n] = a.copy(hydrogens=True, stereo=True)
    for n, ms in mol._bonds.items():
        bonds[n] = bn = {}
        for m, b in ms.items():
            if m in bonds and n in bonds[m]:
                bn[m] = bonds[m][n]
            else:
                bn[m] = type(b)(int(b))
    new._atoms, new._bonds = atoms, bonds
    return new


def fresh_environment(mol):
    f = fresh_copy(mol)
    return Q.environment(f)


def library_labels(mol):
    """the labels the query predicates read, as stored by the library: atoms n -> (D, x, z, ring sizes, in_ring), bonds -> in_ring"""
    la = {n: (a.neighbors, a.heteroatoms, a.hybridization, frozenset(a.ring_sizes), bool(a.in_ring)) for n, a in mol._atoms.items()}
    lb = {}
    for n, ms in mol._bonds.items():
        for m, b in ms.items():
            lb[frozenset((n, m))] = bool(b.in_ring)
    return la, lb


def expected_labels(env):
    atoms, bonds = env
    ea = {n: (e['D'], e['x'], e['z'], frozenset(e['rings']), e['in_ring']) for n, e in atoms.items()}
    eb = {k: e['in_ring'] for k, e in bonds.items()}
    return ea, eb


LABEL_NAMES = ('neighbors', 'heteroatoms', 'hybridization', 'ring_sizes', 'in_ring')


def special_chord(mol, k):
    """independent predicate of a known family: bond k has order 8 and its two atoms are members of one ring (relevant cycle) of the
    molecule without special bonds"""
    x, y = tuple(k)
    if int(mol._bonds[x][y]) != 8:
        return False
    rel, _ = relevant_cycles(mol)
    return any(x in c and y in c for c in rel)


def creation_parity(rm, i):
    """0 / 1: parity of the permutation between the written neighbour order of atom i of the reference molecule rm (closure partners at the
    position of their digit) and the order in which the bonds come to exist when chain bonds are created with the later atom and
    ring-closure bonds when the closing digit is met"""
    a = rm.atoms[i]
    written = [x for x in a.order if x != 'H' and not isinstance(x, tuple)]
    def t(x):
        k = (i, x) if i < x else (x, i)
        rc = rm.binfo[k][1]
        return max(i, x) + (.5 if rc else 0)
    created = sorted(written, key=t)   # stable: ties keep the written order
    pos = {x: p for p, x in enumerate(created)}
    p = [pos[x] for x in written]
    inv = sum(1 for u in range(len(p)) for v in range(u + 1, len(p)) if p[u] > p[v])
    return inv % 2


def _plain_graph(mol):
    import networkx as nx
    g = nx.Graph()
    g.add_nodes_from(mol._atoms)
    for n, ms in mol._bonds.items():
        for m, b in ms.items():
            if int(b) != 8:
                g.add_edge(n, m)
    return g


def relevant_cycles(mol):
    """(relevant cycles as frozensets of atoms, cyclomatic number) of the molecule without special bonds.  A cycle is relevant iff it is not
    a GF(2) sum of strictly shorter cycles = it belongs to some minimum cycle basis (Vismara).  Plain enumeration of the simple cycles up
    to the longest ring of one minimum basis; only for small molecules."""
    import networkx as nx
    g = _plain_graph(mol)
    mu = g.number_of_edges() - g.number_of_nodes() + nx.number_connected_components(g)
    if mu == 0:
        return [], 0
    bound = max(len(c) for c in nx.minimum_cycle_basis(g))
    eid = {frozenset(e): i for i, e in enumerate(g.edges)}
    by_len = {}
    for c in nx.simple_cycles(g, length_bound=bound):
        v = 0
        for a, b in zip(c, c[1:] + c[:1]):
            v |= 1 << eid[frozenset((a, b))]
        by_len.setdefault(len(c), []).append((v, frozenset(c)))
    basis = {}   # highest bit -> vector

    def reduce(v):
        while v:
            h = v.bit_length() - 1
            if h not in basis:
                return v
            v ^= basis[h]
        return 0
    rel = []
    for ln in sorted(by_len):
        vs = by_len[ln]
        rel += [c for v, c in vs if reduce(v)]
        for v, _ in vs:
            r = reduce(v)
            if r:
                basis[r.bit_length() - 1] = r
    return rel, mu


def mcb_unique(mol):
    """True iff the molecule (without special bonds) has exactly one minimum cycle basis: the number of relevant cycles equals the
    cyclomatic number.  Only then "the ring sizes of an atom" do not depend on which minimum basis a ring perception picks (ring perception
    itself is C06); molecules where it is False stay out of ring-size comparisons between containers numbered / ordered differently."""
    rel, mu = relevant_cycles(mol)
    return len(rel) == mu
