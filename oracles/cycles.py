"""Cycle-space oracles: GF(2) rank, minimum cycle basis weight (networkx de Pina-style), simple-cycle test."""


def gf2_rank(vecs):
    rows = list(vecs)
    rank = 0
    while rows:
        p = rows.pop()
        if p:
            rank += 1
            lb = p & -p
            rows = [x ^ p if x & lb else x for x in rows]
    return rank


def nx_graph(m, skip_order=8):
    import networkx as nx
    g = nx.Graph()
    g.add_nodes_from(m._atoms)
    for a, b, bd in m.bonds():
        if bd.order != skip_order:
            g.add_edge(a, b)
    return g


def cyclomatic(g):
    import networkx as nx
    return g.number_of_edges() - g.number_of_nodes() + nx.number_connected_components(g)


def mcb_weight(g):
    import networkx as nx
    return sum(len(c) for c in nx.minimum_cycle_basis(g))


def ring_vector(ring, eidx):
    """incidence bit-vector of a ring (tuple of atoms) or None if it is not a simple cycle of existing edges"""
    if len(set(ring)) != len(ring) or len(ring) < 3:
        return None
    v = 0
    for a, b in zip(ring, ring[1:] + ring[:1]):
        k = frozenset((a, b))
        if k not in eidx:
            return None
        v |= 1 << eidx[k]
    return v
