"""Domain filter of C01 (also usable by C15 / C20): the two documented heuristic gaps, decided by the independent
constitutional-symmetry oracle (oracles.iso.orbits on the stereo-free attributed graph), never by chython's `atoms_order`.

Predicates exactly as fixed in DESIGN.md section 2, C01:

gap 1 - the molecule carries a stereo label on a centre (or double-bond end) two of whose substituents lie in one orbit.
        Reading used here (the narrowest one; a wider reading would only set more molecules aside):
        * labelled atom (tetrahedral centre, or the central atom of a labelled allene): its substituents are its neighbours;
        * double-bond end = terminal atom of a labelled cis/trans chain or of a labelled allene: its substituents are its
          neighbours other than the next atom of the double-bond chain.
gap 2 - some 2-connected block of the stereo-free graph has cyclomatic number >= 3 and two distinct ring atoms of that block lie
        in one orbit.
"""
import networkx as nx

from oracles import iso


def _labelled(m):
    """[(atom, substituents)] for every labelled centre / double-bond end; uses only stored labels and the bond table"""
    bonds = m._bonds
    out = []
    for n, a in m.atoms():
        if a.stereo is None:
            continue
        out.append((n, list(bonds[n])))
        if len(bonds[n]) == 2 and all(b.order == 2 for b in bonds[n].values()):  # allene centre: walk to both ends
            for first in bonds[n]:
                out.append(_chain_end(m, n, first))
    for n, k, b in m.bonds():
        if b.stereo is None:
            continue
        out.append(_chain_end(m, k, n))
        out.append(_chain_end(m, n, k))
    return out


def _chain_end(m, prev, cur):
    """follow consecutive double bonds from prev -> cur to the terminal atom; returns (terminal, substituents without the chain atom)"""
    bonds = m._bonds
    while True:
        nxt = [x for x, b in bonds[cur].items() if x != prev and b.order == 2]
        if len(nxt) == 1 and len(bonds[cur]) == 2:
            prev, cur = cur, nxt[0]
            continue
        return cur, [x for x in bonds[cur] if x != prev]


def blocks_c3(m):
    """atom sets of the 2-connected blocks with cyclomatic number >= 3"""
    g = nx.Graph()
    g.add_nodes_from(m._atoms)
    g.add_edges_from((n, k) for n, k, _ in m.bonds())
    out = []
    for comp in nx.biconnected_components(g):
        if len(comp) < 3:
            continue
        sub = g.subgraph(comp)
        if sub.number_of_edges() - sub.number_of_nodes() + 1 >= 3:
            out.append(set(comp))
    return out


def gaps(m, limit=20000):
    """(gap1, gap2) of a molecule; orbits are only computed when a predicate can possibly hold"""
    lab = [(n, s) for n, s in _labelled(m) if len(s) >= 2]
    blocks = blocks_c3(m)
    if not lab and not blocks:
        return False, False
    orb = iso.orbits(m, hydrogens=True, limit=limit)
    g1 = any(len({orb[x] for x in s}) < len(s) for _, s in lab)
    g2 = any(len({orb[x] for x in b}) < len(b) for b in blocks)
    return g1, g2
