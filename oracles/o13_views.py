"""C13 helpers (specification side, not verified): raw-state snapshots, normalised derived views of a molecule, and the
independent rebuild with stereo labels carried over by a permutation-parity oracle.

`VIEWS` maps a view name to a function molecule -> comparable value.  The rebuilt molecule reproduces the insertion order of the
atoms and of every neighbour dict (`rebuild_ordered`), because the library breaks ties by insertion order (ring-closure placement
in a Kekule SMILES, choice among equally small rings); views are nevertheless compared as sets where order carries no meaning.
An exception raised while computing a view is part of the value (`('EXC', class name)`): `brutto` of a molecule with an undefined
hydrogen count raises TypeError on both sides.
"""


# ---------------------------------------------------------------------------------------------------------------------------
# raw state
# ---------------------------------------------------------------------------------------------------------------------------
def atom_raw(a):
    return (a.atomic_number, a.isotope, a.charge, a.is_radical, a.implicit_hydrogens, a.stereo, a.x, a.y)


def raw_snapshot(m):
    """everything a failed transaction must restore / a copy must reproduce: atoms (in insertion order, with every stored field),
    adjacency (in insertion order, both directions), meta, name, pending-change set"""
    atoms = tuple((n,) + atom_raw(a) for n, a in m._atoms.items())
    bonds = tuple((n, tuple((k, b.order, b.stereo) for k, b in mb.items())) for n, mb in m._bonds.items())
    meta = None if m._meta is None else tuple(sorted((str(k), repr(v)) for k, v in m._meta.items()))
    changed = None if m._changed is None else frozenset(m._changed)
    return {'atoms': atoms, 'bonds': bonds, 'meta': meta, 'name': m._name, 'changed': changed}


def snapshot_diff(a, b):
    return [k for k in a if a[k] != b[k]]


def labels_snapshot(m):
    """labels written by calc_labels (stored on atoms and bonds, not in the cache)"""
    at = {n: (a.hybridization, a.in_ring, frozenset(a.ring_sizes), a.neighbors, a.heteroatoms, a.explicit_hydrogens)
          for n, a in m._atoms.items()}
    bd = {frozenset((n, k)): bool(b.in_ring) for n, k, b in m.bonds()}
    return at, bd


def object_ids(m):
    ids = {id(a) for a in m._atoms.values()}
    for mb in m._bonds.values():
        ids.add(id(mb))
        for b in mb.values():
            ids.add(id(b))
    ids.add(id(m._atoms))
    ids.add(id(m._bonds))
    if m._meta is not None:
        ids.add(id(m._meta))
    return ids


def adjacency_defects(m):
    """class invariant: same key sets, one bond object for both directions, no loops"""
    out = []
    if set(m._atoms) != set(m._bonds):
        out.append(f'atom keys {sorted(set(m._atoms) ^ set(m._bonds))} not in both _atoms and _bonds')
    for n, mb in m._bonds.items():
        for k, b in mb.items():
            if k == n:
                out.append(f'loop on {n}')
            elif k not in m._bonds or n not in m._bonds[k]:
                out.append(f'bond {n}-{k} has no back reference')
            elif m._bonds[k][n] is not b:
                out.append(f'bond {n}-{k}: two different objects for the two directions')
    return out


# ---------------------------------------------------------------------------------------------------------------------------
# derived views
# ---------------------------------------------------------------------------------------------------------------------------
def _fs(x):
    return frozenset(x)


def _ring_set(rings):
    return frozenset(frozenset(r) for r in rings)


def _pairs(ps):
    return frozenset(frozenset(p) for p in ps)


def _path(p):
    p = tuple(p)
    return min(p, p[::-1])


VIEWS = {
    'str': lambda m: str(m),
    'format_h': lambda m: format(m, 'h'),
    'hash': lambda m: hash(m) == hash(str(m)),
    'atoms_order': lambda m: dict(m.atoms_order),
    'int_adjacency': lambda m: {n: dict(v) for n, v in m.int_adjacency.items()},
    'sssr': lambda m: _ring_set(m.sssr),
    'rings_count': lambda m: m.rings_count,
    'atoms_rings': lambda m: {n: _ring_set(r) for n, r in m.atoms_rings.items()},
    'atoms_rings_sizes': lambda m: {n: _fs(s) for n, s in m.atoms_rings_sizes.items()},
    'aromatic_rings': lambda m: _ring_set(m.aromatic_rings),
    'connected_components': lambda m: _ring_set(m.connected_components),
    'connected_components_count': lambda m: m.connected_components_count,
    'not_special_connectivity': lambda m: {n: _fs(s) for n, s in m.not_special_connectivity.items()},
    'skin_graph': lambda m: {n: _fs(s) for n, s in m.skin_graph.items()},
    'brutto': lambda m: dict(m.brutto),
    'molecular_charge': lambda m: m.molecular_charge,
    'is_radical': lambda m: m.is_radical,
    'molecular_mass': lambda m: round(m.molecular_mass, 6),
    'bonds_count': lambda m: m.bonds_count,
    'atoms_count': lambda m: m.atoms_count,
    'adjacency_matrix': lambda m: int(m.adjacency_matrix(True).sum()),
    'check_valence': lambda m: sorted(m.check_valence()),
    'tetrahedrons': lambda m: _fs(m.tetrahedrons),
    'cumulenes': lambda m: _fs(_path(p) for p in m.cumulenes),
    'stereogenic_tetrahedrons': lambda m: {n: _fs(e) for n, e in m.stereogenic_tetrahedrons.items()},
    'stereogenic_cis_trans': lambda m: {_fs(k): _fs(x for x in e if x is not None) for k, e in m.stereogenic_cis_trans.items()},
    'stereogenic_allenes': lambda m: {k: _fs(x for x in e if x is not None) for k, e in m.stereogenic_allenes.items()},
    'chiral_tetrahedrons': lambda m: _fs(m.chiral_tetrahedrons),
    'chiral_cis_trans': lambda m: _pairs(m.chiral_cis_trans),
    'chiral_allenes': lambda m: _fs(m.chiral_allenes),
    'ring_tetrahedrons': lambda m: {n: _fs(e) for n, e in m.ring_tetrahedrons.items()},
    'cis_trans_count': lambda m: m._cis_trans_count,
    'morgan_hash_set': lambda m: _fs(m.morgan_hash_set()),
    'linear_hash_set': lambda m: _fs(m.linear_hash_set()),
    'smiles_atoms_order_is_permutation': lambda m: sorted(m.smiles_atoms_order) == sorted(m._atoms),
}
VIEW_NAMES = tuple(VIEWS)


def read_view(m, name):
    try:
        return VIEWS[name](m)
    except Exception as e:  # the exception class is the observable value (same on the rebuilt molecule or a difference)
        return ('EXC', type(e).__name__)


def read_views(m, names=VIEW_NAMES):
    return {k: read_view(m, k) for k in names}


# ---------------------------------------------------------------------------------------------------------------------------
# independent rebuild, stereo labels carried over by parity
# ---------------------------------------------------------------------------------------------------------------------------
def _heavy_env(m, n, skip=()):
    """neighbours in insertion order without hydrogens and special bonds - the reference order of a stereo sign"""
    return tuple(x for x, b in m._bonds[n].items() if m._atoms[x].atomic_number != 1 and b.order != 8 and x not in skip)


def _parity(p, q):
    """parity of the permutation taking sequence p to sequence q (same elements)"""
    idx = [q.index(x) for x in p]
    inv = sum(1 for i in range(len(idx)) for j in range(i + 1, len(idx)) if idx[i] > idx[j])
    return inv % 2 == 1


def _walk(m, cur, prev):
    """follow cumulated double bonds from `cur` away from `prev`: returns (terminal, inner neighbour)"""
    seen = {prev}
    while True:
        seen.add(cur)
        nxt = [x for x, b in m._bonds[cur].items() if x not in seen and b.order == 2]
        if len(m._bonds[cur]) == 2 and len(nxt) == 1:
            prev, cur = cur, nxt[0]
        else:
            return cur, prev


def _first(m, t, inner):
    e = _heavy_env(m, t, skip=(inner,))
    return e[0] if e else None


def carry_stereo(m, r):
    """write m's stereo labels on r (same atoms and bonds, other insertion order) so that they denote the same configuration"""
    for n, a in m._atoms.items():
        if a.stereo is None:
            continue
        orders = [b.order for b in m._bonds[n].values() if b.order != 8]
        if all(o == 1 for o in orders):  # tetrahedron: sign refers to the order of the heavy neighbours
            flip = _parity(_heavy_env(m, n), _heavy_env(r, n))
        else:  # allene centre: sign refers to the first heavy neighbour of each terminal
            dbl = [x for x, b in m._bonds[n].items() if b.order == 2]
            flip = False
            for x in dbl:
                t, inner = _walk(m, x, n)
                flip ^= _first(m, t, inner) != _first(r, t, inner)
        r._atoms[n]._stereo = a.stereo ^ flip
    for i, j, b in m.bonds():
        if b.stereo is None:
            continue
        flip = False
        for t, inner in (_walk(m, i, j), _walk(m, j, i)):
            flip ^= _first(m, t, inner) != _first(r, t, inner)
        r._bonds[i][j]._stereo = b.stereo ^ flip


def rebuild_ordered(m):
    """fresh container through the public add_atom/add_bond in an order that reproduces the insertion order of the atoms and of every
    neighbour dict (a linear extension of the per-atom orders; it exists because every adjacency entry was appended at some time).
    Tie-breaking inside the library (ring-closure placement in SMILES, choice among equally small rings) follows insertion order, so
    only an order-preserving rebuild reports the same spelling."""
    from chython.containers import MoleculeContainer
    from chython.containers.bonds import Bond
    new = MoleculeContainer()
    for n, a in m._atoms.items():
        new.add_atom(type(a)(a.isotope, charge=a.charge, is_radical=a.is_radical, x=a.x, y=a.y,
                             implicit_hydrogens=a.implicit_hydrogens), n, _skip_calculation=True)
    lists = {n: list(mb) for n, mb in m._bonds.items()}
    ptr = dict.fromkeys(lists, 0)
    todo = sum(len(v) for v in lists.values()) // 2
    while todo:
        progress = False
        for n, ls in lists.items():
            while ptr[n] < len(ls):
                k = ls[ptr[n]]
                lk = lists[k]
                if ptr[k] < len(lk) and lk[ptr[k]] == n:
                    new.add_bond(n, k, Bond(m._bonds[n][k].order), _skip_calculation=True)
                    ptr[n] += 1
                    ptr[k] += 1
                    todo -= 1
                    progress = True
                else:
                    break
        if not progress:
            raise AssertionError('o13_views.rebuild_ordered: neighbour orders have no linear extension (harness assumption broken)')
    new.calc_labels()
    new._changed = None
    return new


def rebuilt(m):
    """independent rebuild with the same atoms, bonds, hydrogen counts and (carried) stereo labels.
    Returns (molecule, {atom: hydrogen count the fresh molecule computes by itself})"""
    r = rebuild_ordered(m)
    calc = {}
    keep = {n: a.implicit_hydrogens for n, a in r._atoms.items()}
    for n in r._atoms:
        r.calc_implicit(n)
        calc[n] = r._atoms[n].implicit_hydrogens
    for n, h in keep.items():
        r._atoms[n]._implicit_hydrogens = h
    carry_stereo(m, r)
    r.flush_cache()
    return r, calc


def stereo_labels(m):
    return ({n: a.stereo for n, a in m._atoms.items() if a.stereo is not None},
            {frozenset((n, k)): b.stereo for n, k, b in m.bonds() if b.stereo is not None})
