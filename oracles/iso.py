"""Independent reference enumerators (specifications, not verified): attribute-aware graph isomorphism, automorphism orbits,
substructure embeddings.  Written for clarity; exponential - only for small inputs."""
import itertools


def atom_key(a, hydrogens=True, stereo=False):
    k = (a.atomic_number, a.isotope, a.charge, a.is_radical)
    if hydrogens:
        k += (a.implicit_hydrogens,)
    if stereo:
        k += (a.stereo,)
    return k


def graph_view(m, hydrogens=True):
    """(atom keys by number, bond orders by frozenset pair)"""
    atoms = {n: atom_key(a, hydrogens) for n, a in m.atoms()}
    bonds = {frozenset((n, k)): b.order for n, k, b in m.bonds()}
    return atoms, bonds


def isomorphisms(v1, v2, limit=None):
    """all bijections of view v1 onto v2 preserving atom keys and bond orders (backtracking)"""
    a1, b1 = v1
    a2, b2 = v2
    if len(a1) != len(a2) or len(b1) != len(b2):
        return
    from collections import Counter
    if Counter(a1.values()) != Counter(a2.values()):
        return
    adj1 = {n: {} for n in a1}
    for e, o in b1.items():
        x, y = tuple(e)
        adj1[x][y] = o
        adj1[y][x] = o
    adj2 = {n: {} for n in a2}
    for e, o in b2.items():
        x, y = tuple(e)
        adj2[x][y] = o
        adj2[y][x] = o
    # order: BFS so that each next atom (when possible) touches a mapped one
    order, seen = [], set()
    for s in a1:
        if s in seen:
            continue
        q = [s]
        seen.add(s)
        while q:
            x = q.pop(0)
            order.append(x)
            for y in adj1[x]:
                if y not in seen:
                    seen.add(y)
                    q.append(y)
    count = [0]

    def rec(i, mp, used):
        if limit is not None and count[0] >= limit:
            return
        if i == len(order):
            count[0] += 1
            yield dict(mp)
            return
        n = order[i]
        for c in a2:
            if c in used or a2[c] != a1[n] or len(adj2[c]) != len(adj1[n]):
                continue
            ok = True
            for y, o in adj1[n].items():
                if y in mp and adj2[c].get(mp[y]) != o:
                    ok = False
                    break
            if ok:
                mp[n] = c
                used.add(c)
                yield from rec(i + 1, mp, used)
                del mp[n]
                used.discard(c)
    yield from rec(0, {}, set())


def is_isomorphic(m1, m2, hydrogens=True):
    return next(isomorphisms(graph_view(m1, hydrogens), graph_view(m2, hydrogens), limit=1), None) is not None


def orbits(m, hydrogens=True, limit=20000):
    """automorphism orbits of the stereo-free attributed graph (constitutional symmetry oracle)"""
    v = graph_view(m, hydrogens)
    parent = {n: n for n in v[0]}

    def find(x):
        while parent[x] != x:
            parent[x] = parent[parent[x]]
            x = parent[x]
        return x
    for mp in isomorphisms(v, v, limit=limit):
        for a, b in mp.items():
            ra, rb = find(a), find(b)
            if ra != rb:
                parent[ra] = rb
    return {n: find(n) for n in v[0]}


def embeddings(p, t):
    """reference substructure semantics of C07: injective maps; atom and bond predicates through the public ==; induced inside one
    pattern component; different pattern components -> different target components"""
    pa, ta = list(p._atoms), list(t._atoms)
    pcomp = {n: i for i, c in enumerate(p.connected_components) for n in c}
    tcomp = {n: i for i, c in enumerate(t.connected_components) for n in c}
    out = set()
    for img in itertools.permutations(ta, len(pa)):
        mp = dict(zip(pa, img))
        if any(not (p._atoms[n] == t._atoms[mp[n]]) for n in pa):
            continue
        ok = True
        for n, m in itertools.combinations(pa, 2):
            pb = p._bonds[n].get(m)
            tb = t._bonds[mp[n]].get(mp[m])
            if pb is not None:
                if tb is None or not (pb == tb):
                    ok = False
                    break
            elif tb is not None and pcomp[n] == pcomp[m]:
                ok = False
                break
            if pcomp[n] != pcomp[m] and tcomp[mp[n]] == tcomp[mp[m]]:
                ok = False
                break
        if ok:
            out.add(tuple(sorted(mp.items())))
    return out
