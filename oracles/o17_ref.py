"""C17 reference semantics, written independently of chython/algorithms/fingerprints (nothing here calls it except for the per-atom
identifiers, which are handed in): fragment multisets from the shared simple-path enumerator, count-capped hashing, iterated
neighbourhood hashing, folding of a 64-bit hash into `number_active_bits` windows of log2(length) bits."""
from collections import Counter

from .paths import simple_paths


def atom_key(a):
    """the attributes an atom identifier may depend on (property: numbering-free, structure only)"""
    return a.isotope or 0, a.atomic_number, a.charge, bool(a.is_radical)


def adjacency(m):
    """{atom: {neighbour: bond order}} read from the bond table, every bond (coordinate bonds included, as the code walks them)"""
    adj = {n: {} for n in m._atoms}
    for a, b, bd in m.bonds():
        adj[a][b] = adj[b][a] = int(bd)
    return adj


def paths_by_length(adj, hi):
    """{#atoms: set of simple paths (one direction each)} for 1 <= #atoms <= hi"""
    out = {}
    for p in simple_paths(adj, 1, hi):
        out.setdefault(len(p), set()).add(p)
    return out


def descriptor(path, adj, ids):
    d = [ids[path[0]]]
    for x, y in zip(path, path[1:]):
        d.append(adj[x][y])
        d.append(ids[y])
    return tuple(d)


def klass(desc):
    """direction-free class of a descriptor: which of the two readings is stored is the implementation's choice"""
    r = desc[::-1]
    return desc if desc <= r else r


def fragment_counter(paths, adj, ids):
    """Counter {direction-free descriptor: number of simple paths with it}"""
    return Counter(klass(descriptor(p, adj, ids)) for p in paths)


def linear_hashes(keys_with_counts, cap):
    """fragment stored as `key` occurring c times contributes hash((*key, i)) for i = 0 .. min(c, cap) - 1; cap 0 / None = no cap"""
    out = set()
    for key, c in keys_with_counts:
        n = c if not cap else min(c, cap)
        for i in range(n):
            out.add(hash((*key, i)))
    return out


def morgan_levels(adj, ids, max_radius):
    """[radius 1 .. max_radius] -> {atom: identifier}; radius 1 = the atom identifiers, radius r+1 = hash of the tuple
    (own identifier of radius r, then (bond order, neighbour identifier of radius r) pairs of all neighbours in ascending order)"""
    cur = dict(ids)
    levels = [cur]
    for _ in range(max_radius - 1):
        nxt = {}
        for n, nb in adj.items():
            env = sorted((o, cur[x]) for x, o in nb.items())
            flat = [cur[n]]
            for o, i in env:
                flat.append(o)
                flat.append(i)
            nxt[n] = hash(tuple(flat))
        cur = nxt
        levels.append(cur)
    return levels


def fold(hashes, length, nab):
    """indices set by a hash: the `nab` lowest consecutive windows of log2(length) bits (arithmetic shift, two's complement)"""
    lg = length.bit_length() - 1
    assert 1 << lg == length
    out = set()
    for h in hashes:
        for i in range(nab):
            out.add((h >> (i * lg)) & (length - 1))
    return out
