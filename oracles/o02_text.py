"""Independent predicates on a written SMILES text / a write request (C02 bounded stand-in) that decide the root-cause family of a failing
reader-option or numbering case.  They look at the INPUT only (text, option values, atom numbers) - never at the outcome.

  strict-reader-asymmetric-closure   the text carries, for some ring-closure number, an explicit bond token of the plain kind (- = # : ~) on the
                                     opening digit and no bond token on the closing digit - what the writer's style `a' (asymmetric closures)
                                     produces - and the reader is asked to be strict (ignore=False).
  map-over-9999                      style `m' (atom maps) on a molecule with an atom number above 9999 (the reader's atom token has room for
                                     four digits).
"""

_PLAIN = '-=#:~'
_DIR = '/\\'


def closure_tokens(text):
    """[(number, opening bond char | None, closing bond char | None)] of the SMILES part of the text (own scanner: bracket atoms skipped,
    a bond char counts for the closure digit that directly follows it)"""
    smi = text.split()[0] if text.split() else ''
    open_, out = {}, []
    pending = None
    i, n = 0, len(smi)
    while i < n:
        c = smi[i]
        if c == '[':
            j = smi.index(']', i)
            i = j + 1
            pending = None
            continue
        if c in _PLAIN or c in _DIR:
            pending = c
            i += 1
            continue
        if c.isdigit() or c == '%':
            if c == '%':
                num = int(smi[i + 1:i + 3])
                i += 3
            else:
                num = int(c)
                i += 1
            if num in open_:
                out.append((num, open_.pop(num), pending))
            else:
                open_[num] = pending
            pending = None
            continue
        pending = None
        i += 1
    return out


def asymmetric_plain_closure(text):
    return any(o is not None and o in _PLAIN and c is None for _, o, c in closure_tokens(text))


def strict_reader_asymmetric_closure(text, reader_kwargs):
    return reader_kwargs.get('ignore', True) is False and asymmetric_plain_closure(text)


def map_over_9999(spec, atom_numbers):
    return 'm' in spec and max(atom_numbers, default=0) > 9999
