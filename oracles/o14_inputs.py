"""C14 input classes the corpus does not contain (specification side, not verified): each list is an input class that a branch of the
anchored code needs.  All are ordinary SMILES (CXSMILES radical marks) so that witnesses replay from their text."""

# fix_resonance: radical pairing (odd paths only; pairs at even distance must be left alone), lone radicals, three radicals, cross-conjugated and aromatic-bridged pairs
RADICALS = ('[CH2]C=C[CH2] |^1:0,3|', '[CH2]C=CC=C[CH2] |^1:0,5|', '[CH2][CH2] |^1:0,1|', '[O]C=C[CH2] |^1:0,3|', 'C[CH]C=C[CH]C |^1:1,4|',
            'CC1(C)CCCC(C)(C)N1[O] |^1:10|', '[CH3] |^1:0|', '[O][O] |^1:0,1|', '[CH2]C(=C)[CH2] |^1:0,3|', '[CH2]C=C[CH]C=C[CH2] |^1:0,3,6|',
            '[CH2]C[CH2] |^1:0,2|', '[CH2]C=CC[CH2] |^1:0,4|', 'C[N]C=C[CH2] |^1:1,4|', '[CH2]C1=CC=C([CH2])C=C1 |^1:0,5|', '[O]N=O |^1:0|',
            '[CH2]C#C[CH2] |^1:0,3|', '[CH2]C=CC(=O)C=C[CH2] |^1:0,7|', '[CH2]C=C[CH2].[CH2]C=C[CH2] |^1:0,3,4,7|', '[CH2]C=C[O-] |^1:0|',
            'C[S]C=C[CH2] |^1:1,4|', '[CH2]C1CC1[CH2] |^1:0,4|', '[CH2]C(C)=[CH] |^1:0,3|', '[CH2]C=[C]C |^1:0,2|', '[O]C=[C]C |^1:0,2|', '[CH2]C=CC=[CH] |^1:0,4|',
            'C[CH]C(C)=[C]C |^1:1,4|', 'C[Si]([CH2])(C)C=C[CH2] |^1:2,6|', '[CH2]C=C([O-])C=[N+](C)C |^1:0|')
# fix_resonance: X-[S+]=X ends (only a single bond may arrive), sulfonium ends (skipped), other onium ends, competing donors
ONIUM_ZWITTERIONS = ('[O-]C=CC=[S+]C', '[O-]C=C[S+]=C', 'C[S+](C)C=C[O-]', 'C[S+]=CC=CC=C[O-]', '[O-]C=CC=C[S+]=C', 'C[S+]=CC=C[N-]C', '[CH2-]C=CC=[S+]C',
                     'C[O+]=CC=C[O-]', 'C[N+](C)=CC=C[O-]', 'C[N+](C)=CC=C[CH2-]', '[O-]C=CC=[N+]=[N-]', 'C[P+](C)(C)C=C[O-]', 'C[P+](C)=CC=C[O-]',
                     '[O-]C=C[N+](C)(C)C', 'C[N+](C)(C)[B-](C)(C)C', 'CC=[N+]([O-])C', 'C[Se+]=CC=C[O-]', 'C[S+]=CC=C[S-]', '[O-]C=CC(C=C[O-])=[S+]C',
                     'C[S+]=CC=CO', 'C[N+]#CC=C[O-]', '[CH2+]C=C[O-]', '[CH2+]C=CC=CN(C)C', 'C[S+]=C1C=CC(=C[O-])C=C1', '[O-][S+](C)C=C', 'C[As+]=CC=C[O-]')
# explicify / implicify: explicit hydrogens and their isotopes in the input, partially explicit, on charged and hypervalent centres, H2 / HD / H+ / H-
EXPLICIT_H = ('[H]O[H]', '[H][H]', '[2H][H]', '[2H]C', '[H]C([H])([H])[2H]', '[H]C([H])([H])[3H]', '[H+]', '[H-]', '[2H]O[2H]', '[H]C([H])C', '[H]OC(=O)C([H])N',
              '[H][N+]([H])([H])[H]', '[H][N+]([H])([H])C.[Cl-]', '[H]c1ccccc1', '[H]c1c([H])c([H])c([H])c([H])c1[H]', '[H]n1cccc1', '[H]C#C[H]', '[H]C(=O)[O-]',
              '[H]S(=O)(=O)O', '[H]P(=O)(O)O', '[H]B([H])[H]', '[H][B-]([H])([H])[H].[Na+]', '[H]OS(=O)(=O)O[H]', '[1H]C', '[H]N=C(N[H])N([H])[H]', '[H][Si]([H])([H])C',
              '[H]C([H])([H])([H])[H]', '[H]O([H])[H]', '[H]N([H])([H])[H]', '[H]C([H])([H])([H])C', '[H][N+]([H])([H])([H])[H]', '[H]Cl', '[H]F.[H]F', '[H]C([H])([H])[N+](=O)[O-]', '[H]C1([H])CC1', '[H][C@](F)(Cl)Br', '[H][C@@](C)(N)C(=O)O', '[H]/C(C)=C(/[H])C', '[2H]C([2H])([2H])O[H]')
# hydrogen atoms with a covalent and a coordinate bond (check_valence() == [] for them): see key exc:ValenceError@hydrogen-with-coordinate-bond
H_BONDED = ('[H]O[H]~O', 'CC(=O)O[H]~N(C)C')
# heavy-atom isotope labels (the heavy-atom multiset is (element, isotope))
ISOTOPES = ('[13CH3]C(=O)O', 'C[15N+](=O)[O-]', '[13CH3][15NH3+].[Cl-]', '[18OH]c1ccccn1', 'C[14C](O)=N', '[11CH3]N(C)C=[NH2+]', 'CC(=[18O])CC(C)=O', '[13C-]#[O+]',
            '[15NH2]c1cc[nH+]cc1', 'CN(=O)=[18O]')
# standardize_charges ferrocene branch: 5-rings of aromatic atoms with exactly one anionic centre
CYCLOPENTADIENYLS = ('Cc1cc[cH-]c1', 'C[c-]1cccc1', 'C[c-]1cccc1.[Fe+2].c1cc[cH-]c1', 'CC(=O)c1ccc[cH-]1', 'c1cc[cH-]c1', 'Cc1c[cH-]cc1C', 'C[c-]1cccc1C', 'c1ccc2[cH-]ccc2c1',
                     'Cc1cc2ccccc2[cH-]1', 'C[c-]1ccc(C)c1', 'CC(C)(C)c1cc[c-](C)c1', 'c1cc[cH-]c1.[Li+]', 'c1cn[cH-]c1', 'C[c-]1ccc(c1)-c1ccccc1', 'Cc1cc[c-](c1)C(C)=O',
                     '[Fe+2].Cc1cc[cH-]c1.CC(=O)[c-]1cccc1')
# __standardize: "bad charge formed. changes omitted" (a rule would raise a metal above +4); all are valence errors by the library's rules, so only
# the every-input contracts (heavy atoms, idempotence, numbering) apply
HIGH_CHARGE_METALS = ('N#C[Ti+4]', 'N#C[Sn+4]', 'N#C[Pt+4](C#N)(C#N)C#N', 'N#C[W+4]', 'O=C[Pt+4]', 'CN[Zr+4]', 'N#C[Ti+3]', 'CC(=O)O[Ti+4]')
# the single-SMILES comments of the Morgan-ordered charge rules of _charged.py and the two named ones (imidazole, pyrazole+)
MORGAN_RULE_EXAMPLES = ('N1C=CC2=CC=[NH+]N12', 'N1C=CC2=[N+]1NC=C2', 'N1C=CN2C=C[NH+]=C12', 'N1C=C[N+]2=C1NC=C2', 'C1=C[NH+]=CN1', 'C1=CC=[NH+]N1',
                        'C1=C[NH+]=C(N1)C1=[NH+]C=CN1', 'C1=CC(=[NH+]N1)C1=C[NH+]=CN1')
# empty and single-atom inputs (the empty molecule is added by the check itself)
TINY = ('C', 'O', 'N', '[NH4+]', '[OH-]', '[Na+]', '[Cl-]', '[Na+].[Cl-]', 'Cl', '[He]', '[Fe+2]', '[CH3-]', '[CH3+]', 'S', 'P', '[O-][O-]', 'CC', 'C=O', 'N#N', '[C-]#[O+]', 'O=O')
# enumerate_tautomers: sugars (keep_sugars), cumulenes / ynols (partial, sp carbons), annular hetero-arene tautomers (donor / acceptor pairs with and
# without a Kekule form), ring enols (increase_aromaticity), acids + bases (zwitter)
TAUTOMERIC = ('OCC(O)C(O)C(O)C(O)C=O', 'OCC(=O)C(O)C(O)C(O)CO', 'OCC(O)C=O', 'OCC(=O)CO', 'CC(O)C(C)=O', 'OC=CC=C=C', 'C=C=CC(C)=O', 'OC#CC', 'CC(=O)C=C=C', 'OC=CC=CC=O',
              'c1ncc2[nH]cnc2n1', 'c1cnc2[nH]ccc2c1', 'Nc1nc2[nH]cnc2c(=O)[nH]1', 'O=c1cc[nH]c(=O)[nH]1', 'Oc1ccnc(O)n1', 'c1ccc2[nH]nnc2c1', 'c1cn2ccnc2[nH]1', 'c1nnc[nH]1',
              'Cc1cc(C)[nH]n1', 'c1nn[nH]n1', 'Oc1ccccn1', 'O=C1C=CC=CN1', 'OC1=CCC=CC1', 'O=C1CC=CC=C1', 'O=C1C=CCC=C1', 'Oc1ccc2ccccc2c1', 'NC(=O)c1ccc[nH]1', 'NCC(=O)O',
              '[NH3+]CC(=O)[O-]', 'NCCS(=O)(=O)O', 'Oc1ccncc1', 'CC(=O)CC(C)=O', 'CC(=O)CC(=O)OC', 'N=C(N)C', 'CC(C)=NO', 'CC(=N)C=C', 'O=C1CCCC(=O)C1', 'OC1=CC(=O)c2ccccc2C1=O',
              'c1cc2cc[nH]c2[nH]1', 'C[C@H](C(C)=O)c1ccccc1', 'C/C=C/C(C)=O', 'c1c[nH]c(n1)-c1ncc[nH]1', 'Sc1nccs1', 'CC(=S)N', 'OP(O)C', 'c1cc[pH]c1.c1ccncc1', 'b1cc[nH]c1')


def hydrogen_bonded_hydrogens(m):
    """hydrogen atoms that have a covalent bond and at least one coordinate (order 8) bond"""
    return [n for n, a in m.atoms() if a.atomic_number == 1 and len(m._bonds[n]) > 1
            and sum(1 for b in m._bonds[n].values() if b.order != 8) <= 1 and any(b.order == 8 for b in m._bonds[n].values())]


def charged_rule_instances(repo_path):
    """every documented `A>>B` example of _charged.py (both sides) as written and with one methyl group on every ring position that carries
    a hydrogen (N-methyl: the 'three neighbours' branches of standardize_charges; C-methyl: other Morgan order): canonical SMILES texts"""
    from chython import smiles
    from .o14_rules import charged_examples
    out, seen = [], set()
    for a, b in list(charged_examples(repo_path)) + [(x, x) for x in MORGAN_RULE_EXAMPLES]:
        for side in (a, b):
            m = smiles(side)
            m.kekule()
            variants = [m]
            for n, at in m.atoms():
                if at.implicit_hydrogens and at.atomic_number in (6, 7):
                    v = m.copy()
                    try:
                        k = v.add_atom('C')
                        v._atoms[n]._implicit_hydrogens -= 1      # the bond replaces one hydrogen (charge of the ring atom kept)
                        v.add_bond(n, k, 1, _skip_calculation=True)
                        v._atoms[k]._implicit_hydrogens = 3
                        v.calc_labels()
                        v.flush_cache()
                    except Exception:
                        continue
                    variants.append(v)
            for v in variants:
                try:
                    v = v.copy()
                    v.kekule()
                    v.thiele()
                except Exception:
                    continue
                if v.check_valence():
                    continue
                t = str(v)
                if t not in seen:
                    seen.add(t)
                    out.append(t)
    return out


# ---------------------------------------------------------------------------------------------------------------------------
# independent predicates that name recorded root-cause families (decided on the input / on the shape of the result, never by "it failed")
# ---------------------------------------------------------------------------------------------------------------------------
def bare_ring_carbanion(m):
    """a 5-membered ring of aromatic atoms whose only charged atom is a carbanion with two neighbours and NO hydrogen (the ferrocene branch
    of standardize_charges assumes that two-neighbour ring carbons carry a hydrogen)"""
    if not any(a.atomic_number == 6 and a.charge == -1 and a.implicit_hydrogens == 0 and len(m._bonds[n]) == 2 for n, a in m.atoms()):
        return False
    try:
        m = m.copy()
        m.thiele(fix_tautomers=False)  # the predicate is about the aromatic form (standardize_charges aromatises first)
        rings = m.sssr
    except Exception:
        return False
    for r in rings:
        if len(r) != 5 or not all(m._atoms[n].hybridization == 4 for n in r):
            continue
        ch = [n for n in r if m._atoms[n].charge]
        if len(ch) == 1:
            a = m._atoms[ch[0]]
            if a.atomic_number == 6 and a.charge == -1 and len(m._bonds[ch[0]]) == 2 and a.implicit_hydrogens == 0:
                return True
    return False


def isotope_breaks_symmetry(m):
    """two atoms that are constitutionally equivalent once isotope labels are removed (same Morgan class) carry different isotope labels:
    a rule whose pattern maps them symmetrically has two matches that differ only in the label"""
    if not any(a.isotope for _, a in m.atoms()):
        return False
    c = m.copy()
    for _, a in c.atoms():
        a._isotope = None
    c.flush_cache()
    try:
        order = c.atoms_order
    except Exception:
        return False
    cls = {}
    for n, a in m.atoms():
        cls.setdefault(order[n], set()).add(a.isotope)
    return any(len(v) > 1 for v in cls.values())


def radical_signature(m_in, m_out):
    """'radical-pairing-valence': an atom other than C/N/O that was a radical centre in the input is no radical in the output and has no
    valid hydrogen count there (fix_resonance pairs radicals along a path without the valence test it applies to cation ends)"""
    for n, a in m_in.atoms():
        if a.is_radical and a.atomic_number not in (6, 7, 8) and n in m_out._atoms:
            b = m_out._atoms[n]
            if not b.is_radical and b.implicit_hydrogens is None:
                return 'radical-pairing-valence'
    return None


def hypervalent_carbons(t):
    """carbon atoms whose bond orders + hydrogens exceed 4 (Kekule copy): the recorded shape of unvalidated keto-enol paths"""
    c = t.copy()
    try:
        c.kekule()
    except Exception:
        return []
    return [n for n, a in c.atoms() if a.atomic_number == 6 and
            sum(b.order for b in c._bonds[n].values() if b.order != 8) + (a.implicit_hydrogens or 0) > 4]


def neutralize_has_choice(m):
    """neutralize(keep_charge=True) has to choose: acid and base sites (the library's own stripped rule tables) are both present and differ in
    number, so only a subset of the larger side can be (de)protonated"""
    from chython.algorithms.tautomers._acid import stripped_rules as acid
    from chython.algorithms.tautomers._base import stripped_rules as base
    d = {mp[1] for q in acid for mp in q.get_mapping(m, automorphism_filter=False)}
    a = {mp[1] for q in base for mp in q.get_mapping(m, automorphism_filter=False)}
    return bool(d and a and len(d) != len(a))


def only_electrons_moved(x, y, mp=None):
    """abstracted outcome 'another resonance form': y (atom n of x is atom mp[n] of y) has the same atoms (element, isotope, hydrogen count), the
    same bonded pairs and the same net charge as x; only bond orders, formal charges and radical marks differ"""
    mp = mp or {n: n for n in x._atoms}
    if len(x._atoms) != len(y._atoms) or any(mp.get(n) not in y._atoms for n in x._atoms):
        return False
    for n, a in x.atoms():
        b = y._atoms[mp[n]]
        if (a.atomic_number, a.isotope, a.implicit_hydrogens) != (b.atomic_number, b.isotope, b.implicit_hydrogens):
            return False
        if {mp[k] for k in x._bonds[n]} != set(y._bonds[mp[n]]):
            return False
    return sum(a.charge for _, a in x.atoms()) == sum(a.charge for _, a in y.atoms())


def stereo_touched_by_keto_enol(m, limit=96, first=96, opts=None):   # first == limit: a cut-off below the enumeration limit missed a 41-tautomer input
    """a stereo-labelled atom (or an end of a stereo-labelled bond) of m changes its hybridisation in one of the keto-enol tautomers that the
    library enumerates for the LABEL-FREE copy of m (under the fixed broad keyword setting, or under the keyword setting `opts` of the call being
    judged): the input class on which a keto-enol copy can keep a stale stereo label"""
    import itertools
    lab = {n for n, a in m.atoms() if a.stereo is not None}
    for n, k, b in m.bonds():
        if b.stereo is not None:
            lab.update((n, k))
            lab.update(m._bonds[n])
            lab.update(m._bonds[k])
    if not lab:
        return False
    c = m.copy()
    try:
        c.clean_stereo()
        c.kekule()
        c.implicify_hydrogens()
        hyb = {n: a.hybridization for n, a in c.atoms()}
        # opts: the keyword setting of the call that is being judged (the set of enumerated tautomers depends on it); None: the fixed broad setting
        kw = dict(heteroarenes=False, zwitter=False, partial=True, increase_aromaticity=False, keep_sugars=False) if opts is None else \
            {k: v for k, v in opts.items() if k not in ('limit', 'prepare_molecules')}
        for t in itertools.islice(c.enumerate_tautomers(**kw, limit=limit), first):
            k = t.copy()
            k.kekule()
            if any(n in k._atoms and n in hyb and k._atoms[n].hybridization != hyb[n] for n in lab):
                return True
    except Exception:
        return False
    return False
