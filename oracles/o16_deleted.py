"""Reference for C16 (specification, not verified): which atoms a template application removes.

Property text: "matched atoms absent from the replacement are removed together with fragments that become detached, unless masked".

  del0    images of the matched, unmasked pattern atoms that are absent from the replacement (empty when delete_atoms=False)
  remain  images of all other matched atoms (named in the replacement, or masked)
  removed = del0  +  every connected component C of (structure - del0) that
                       * touched a removed atom (some atom of C is bonded to an atom of del0: it was attached through it), and
                       * contains no atom of `remain` (no path to a remaining matched atom is left).
Components of the input that were never attached to a removed atom (counter-ions, spectators) stay.
Plain flood fill; no early exits, no shared visited sets.
"""


def removed_atoms(bonds, del0, remain):
    del0 = set(del0)
    remain = set(remain)
    if not del0:
        return set()
    out = set(del0)
    seen = set()
    for s in bonds:
        if s in del0 or s in seen:
            continue
        comp = {s}
        todo = [s]
        while todo:
            x = todo.pop()
            for y in bonds[x]:
                if y not in del0 and y not in comp:
                    comp.add(y)
                    todo.append(y)
        seen |= comp
        if comp & remain:
            continue
        if any(y in del0 for x in comp for y in bonds[x]):
            out |= comp
    return out
