"""C06 oracles written for the bounded stand-in: graph views of a molecule, the two recorded gap predicates (applied exactly as the
property states them), and the bridge-based definition of "lies on a ring" (independent of any ring basis).

Everything here works on networkx graphs built from the molecule's bond table; nothing calls chython's ring code."""
import networkx as nx


def graphs(m):
    """(g0, gall, orders): g0 = graph without coordinate bonds (order 8), gall = every bond, orders[frozenset] = order"""
    g0, gall, orders = nx.Graph(), nx.Graph(), {}
    g0.add_nodes_from(m._atoms)
    gall.add_nodes_from(m._atoms)
    for a, b, bd in m.bonds():
        o = int(bd)
        orders[frozenset((a, b))] = o
        gall.add_edge(a, b)
        if o != 8:
            g0.add_edge(a, b)
    return g0, gall, orders


def cyclomatic(g):
    return g.number_of_edges() - g.number_of_nodes() + nx.number_connected_components(g)


def _theta3(block, u, v):
    """exact: are u and v joined by three internally vertex-disjoint paths that all have >= 3 bonds?
    A path has >= 3 bonds iff it is neither the bond u-v nor u-x-v through a common neighbour x.  In a valid triple a common
    neighbour x lies on at most one path and that path uses at most one of the bonds u-x, x-v; so for some choice of one bond to
    delete per common neighbour (<= 2^4 choices) the triple survives in the reduced graph; conversely in a reduced graph u and v
    are non-adjacent without common neighbours, every u-v path has >= 3 bonds, and by Menger three internally disjoint paths exist
    iff the local node connectivity is >= 3."""
    import itertools
    from networkx.algorithms.connectivity import local_node_connectivity
    common = sorted(set(block[u]) & set(block[v]))
    base = nx.Graph(block.edges)
    if base.has_edge(u, v):
        base.remove_edge(u, v)
    for choice in itertools.product((u, v), repeat=len(common)):
        h = base.copy()
        for x, end in zip(common, choice):
            h.remove_edge(x, end)
        if h.degree(u) >= 3 and h.degree(v) >= 3 and local_node_connectivity(h, u, v, cutoff=3) >= 3:
            return True
    return False


def gap_a(g0):
    """recorded gap A (reading fixed by the coordinator): the graph without coordinate bonds contains a bicyclic (theta) core whose
    three bridges all have >= 3 bonds, i.e. two atoms joined by three internally vertex-disjoint paths with >= 3 bonds each.
    Returns the pair of branch atoms of the first such core, or None.  Exact (see _theta3)."""
    import itertools
    for comp in nx.biconnected_components(g0):
        if len(comp) < 8:    # 2 branch atoms + 3 bridges with >= 2 inner atoms each
            continue
        b = g0.subgraph(comp)
        if b.number_of_edges() - len(comp) + 1 < 2:
            continue
        br = sorted(x for x in b if b.degree(x) >= 3)
        for u, v in itertools.combinations(br, 2):
            if _theta3(b, u, v):
                return u, v
    return None


def gap_a_bruteforce(g0, cutoff=None):
    """the same predicate by plain enumeration of simple paths (used to cross-check gap_a on small graphs)"""
    import itertools
    core = nx.k_core(g0, 2)
    for u, v in itertools.combinations(sorted(x for x in core if core.degree(x) >= 3), 2):
        if not nx.has_path(core, u, v):
            continue
        inner = [frozenset(p[1:-1]) for p in nx.all_simple_paths(core, u, v, cutoff=cutoff) if len(p) >= 4]
        for a, b, c in itertools.combinations(inner, 3):
            if not (a & b or a & c or b & c):
                return u, v
    return None


def gap_b(g0):
    """recorded gap B: dense cage = a connected part with <= 7 atoms and cyclomatic number > 5.  Returns (atoms, bonds) or None."""
    for comp in nx.connected_components(g0):
        if len(comp) <= 7:
            s = g0.subgraph(comp)
            if s.number_of_edges() - len(comp) + 1 > 5:
                return len(comp), s.number_of_edges()
    return None


def gap(g0):
    a = gap_a(g0)
    if a is not None:
        return 'A:theta-core=%s/%s' % a
    b = gap_b(g0)
    if b is not None:
        return 'B:dense-cage=%d-atoms/%d-bonds' % b
    return None


def ring_bonds(g0):
    """bonds that lie on some cycle = non-bridges (basis independent); returns (set of frozenset bonds, set of atoms on a cycle)"""
    br = {frozenset(e) for e in nx.bridges(g0)}
    rb = {frozenset(e) for e in g0.edges} - br
    return rb, {v for e in rb for v in e}


def mcb_sizes(g0):
    """sorted ring sizes of a minimum cycle basis (networkx, de Pina style).  The sorted size vector is the same for every minimum
    cycle basis (matroid exchange), so it is a fair comparator for a whole multiset."""
    return sorted(len(c) for c in nx.minimum_cycle_basis(g0))
