"""C06 oracles written for the bounded stand-in: graph views of a molecule, the two recorded gap predicates (applied exactly as the
property states them), and the bridge-based definition of "lies on a ring" (independent of any ring basis).

Everything here works on networkx graphs built from the molecule's bond table; nothing calls chython's ring code."""
import networkx as nx


def graphs(m):
    """(g0, gall, orders): g0 = graph without coordinate bonds (order 8), gall = every bond, orders[frozenset] = order"""
    g0, gall, orders = nx.Graph(), nx.Graph(), {}
    g0.add_nodes_from(m._atoms)
    gall.add_nodes_from(m._atoms)
    for a, b, bd in m.bonds():
        o = int(bd)
        orders[frozenset((a, b))] = o
        gall.add_edge(a, b)
        if o != 8:
            g0.add_edge(a, b)
    return g0, gall, orders


def cyclomatic(g):
    return g.number_of_edges() - g.number_of_nodes() + nx.number_connected_components(g)


def theta_bridges(block):
    """block: a 2-connected graph.  If it is a theta graph (exactly two branch atoms of degree 3 joined by three internally
    disjoint bridges, every other atom of degree 2) return the sorted bond counts of the three bridges, else None."""
    deg = dict(block.degree())
    branch = [v for v, d in deg.items() if d == 3]
    if len(branch) != 2 or any(d not in (2, 3) for d in deg.values()):
        return None
    if block.number_of_edges() - block.number_of_nodes() + 1 != 2:
        return None
    a, b = branch
    lens = []
    for s in block[a]:
        n, prev, cur = 1, a, s
        while cur != b:
            if cur == a or deg[cur] != 2:
                return None
            nxt = [x for x in block[cur] if x != prev]
            if len(nxt) != 1:
                return None
            prev, cur = cur, nxt[0]
            n += 1
        lens.append(n)
    return sorted(lens) if len(lens) == 3 else None


def gap_a(g0):
    """recorded gap A: a bicyclic (theta-graph) core - a 2-connected block made of two branch atoms joined by three internally
    disjoint bridges - whose three bridges ALL have >= 3 bonds.  Returns the bridge lengths of the first such block or None."""
    for comp in nx.biconnected_components(g0):
        if len(comp) < 8:    # 2 branch atoms + 3 bridges with >= 2 inner atoms each
            continue
        lens = theta_bridges(g0.subgraph(comp))
        if lens is not None and lens[0] >= 3:
            return lens
    return None


def gap_b(g0):
    """recorded gap B: dense cage = a connected part with <= 7 atoms and cyclomatic number > 5.  Returns (atoms, bonds) or None."""
    for comp in nx.connected_components(g0):
        if len(comp) <= 7:
            s = g0.subgraph(comp)
            if s.number_of_edges() - len(comp) + 1 > 5:
                return len(comp), s.number_of_edges()
    return None


def gap(g0):
    a = gap_a(g0)
    if a is not None:
        return 'A:theta-bridges=' + '/'.join(map(str, a))
    b = gap_b(g0)
    if b is not None:
        return 'B:dense-cage=%d-atoms/%d-bonds' % b
    return None


def ring_bonds(g0):
    """bonds that lie on some cycle = non-bridges (basis independent); returns (set of frozenset bonds, set of atoms on a cycle)"""
    br = {frozenset(e) for e in nx.bridges(g0)}
    rb = {frozenset(e) for e in g0.edges} - br
    return rb, {v for e in rb for v in e}


def mcb_sizes(g0):
    """sorted ring sizes of a minimum cycle basis (networkx, de Pina style).  The sorted size vector is the same for every minimum
    cycle basis (matroid exchange), so it is a fair comparator for a whole multiset."""
    return sorted(len(c) for c in nx.minimum_cycle_basis(g0))
