"""C05 graph-side reference functions (independent of chython's ring perception and label calculation)."""


def adjacency(m):
    return {n: {k: b.order for k, b in nb.items()} for n, nb in m._bonds.items()}


def has_unsaturated_four_ring(m):
    """a cycle of four atoms containing an atom with a double, triple or aromatic bond (biphenylene / cyclobutadiene type)"""
    adj = adjacency(m)
    sp2 = {n for n, nb in adj.items() if any(o in (2, 3, 4) for o in nb.values())}
    for a in adj:
        for b in adj[a]:
            if b <= a:
                continue
            for c in adj[b]:
                if c == a:
                    continue
                for d in adj[c]:
                    if d != a and d != b and a in adj[d]:
                        if {a, b, c, d} & sp2:
                            return True
    return False


def ring_bond_set(m):
    """bonds that lie on a cycle = non-bridges (iterative DFS lowpoint)"""
    adj = adjacency(m)
    disc, low, out = {}, {}, set()
    t = 0
    for root in adj:
        if root in disc:
            continue
        stack = [(root, None, iter(adj[root]))]
        disc[root] = low[root] = t
        t += 1
        while stack:
            v, parent, it = stack[-1]
            for w in it:
                if w == parent:
                    continue
                if w in disc:
                    low[v] = min(low[v], disc[w])
                else:
                    disc[w] = low[w] = t
                    t += 1
                    stack.append((w, v, iter(adj[w])))
                    break
            else:
                stack.pop()
                if parent is not None:
                    low[parent] = min(low[parent], low[v])
    # bond (p, v) with v child is a bridge iff low[v] > disc[p]; recompute parents from disc order is unnecessary: test both directions
    for a in adj:
        for b in adj[a]:
            if a < b:
                # bridge test symmetric: removing edge disconnects iff one endpoint's subtree cannot reach above
                x, y = (a, b) if disc[a] < disc[b] else (b, a)
                if not (low[y] > disc[x]):
                    out.add(frozenset((a, b)))
    return out


def hybridization(orders):
    """label documented on Element.hybridization from the bond orders of one atom (order 8 'any' bonds ignored)"""
    orders = [o for o in orders if o != 8]
    if any(o == 4 for o in orders):
        return 4
    if any(o == 3 for o in orders) or sum(1 for o in orders if o == 2) >= 2:
        return 3
    if any(o == 2 for o in orders):
        return 2
    return 1


def snapshot(m):
    """(atoms {n: (Z, isotope)}, bonded pairs, charges, radicals, total H per atom or None)"""
    atoms = {n: (a.atomic_number, a.isotope) for n, a in m.atoms()}
    pairs = {frozenset((n, k)) for n, k, _ in m.bonds()}
    charges = {n: a.charge for n, a in m.atoms()}
    radicals = {n: a.is_radical for n, a in m.atoms()}
    hs = {}
    for n, a in m.atoms():
        ih = a.implicit_hydrogens
        hs[n] = None if ih is None else ih + sum(1 for k in m._bonds[n] if m._atoms[k].atomic_number == 1)
    return atoms, pairs, charges, radicals, hs


def orders(m):
    return {frozenset((n, k)): b.order for n, k, b in m.bonds()}


def formula(m):
    """element counts incl. implicit hydrogens, None if some atom has no count"""
    from collections import Counter
    c = Counter()
    for _, a in m.atoms():
        if a.implicit_hydrogens is None:
            return None
        c[a.atomic_symbol] += 1
        if a.implicit_hydrogens:
            c['H'] += a.implicit_hydrogens
    return dict(c)
