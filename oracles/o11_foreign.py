"""C11 helpers (specification side, not verified): spec-equivalent RE-SPELLINGS of a record the library's own writers produced, and a
few hand-written records with features only other programs write (star atoms / ENDPTS multi-centre bonds, MRV_IMPLICIT_H S-groups).

A re-spelling changes only the text, never the record's content by the CTfile / RDfile / Marvin documents:
  V2000  deuterium/tritium as element symbol D/T is not used (only D is in the CTfile text); isotope as mass-difference column; all
         charges / isotopes / radicals as 'M  CHG|ISO|RAD' lines with up to 8 entries, charge column blank; bond type 9 for a
         coordinate bond (the library's own log line names it); 'either' marks on bonds without configuration; aamap column
  V3000  D symbol; lines broken with the '-' continuation at a token boundary / inside a token / twice; bond type 9 / 10; CFG=2;
         extra key=value properties the reader has to skip (VAL=, CFG=0 on atoms)
  SDF    last record without '$$$$'; '> <key>' data headers (the '(regno)' / field-number forms are NOT used: the reader documents by its
         pattern that it joins them into the key)
  RDF    '$RFMT $RIREG n' / '$MFMT $MIREG n' record lines; no '$RDFILE' header; a bare '$RXN' file; '$DATUM' with the value on the
         following line
  MRV    compact <atomArray atomID="..." elementType="..." .../> attribute lists; XML declaration + namespaced <cml xmlns=...>
Nothing here reads a record: the text is only rearranged; expectations are the written object itself."""
import re

# nearest-integer standard atomic weights (CTfile: 'difference from mass in periodic table'), only where beyond doubt
_STD_MASS = {'C': 12, 'N': 14, 'O': 16, 'F': 19, 'P': 31, 'S': 32}


def _v2_split(block):
    """lines of a V2000 molblock -> (header[4], atom lines, bond lines, property lines up to M  END, rest)"""
    ls = block.split('\n')
    na, nb = int(ls[3][0:3]), int(ls[3][3:6])
    atoms, bonds = ls[4:4 + na], ls[4 + na:4 + na + nb]
    rest = ls[4 + na + nb:]
    end = next(i for i, x in enumerate(rest) if x.startswith('M  END'))
    return ls[:4], atoms, bonds, rest[:end], rest[end:]


def _v2_join(head, atoms, bonds, props, tail):
    return '\n'.join(head + atoms + bonds + props + tail)


def _props(props):
    """{'CHG'|'ISO'|'RAD': {atom index: value}} of one-entry-per-line property lines (what the writer under check emits)"""
    out = {'CHG': {}, 'ISO': {}, 'RAD': {}}
    other = []
    for p in props:
        if p[:6] in ('M  CHG', 'M  ISO', 'M  RAD'):
            for i in range(int(p[6:9])):
                out[p[3:6]][int(p[10 + 8 * i:13 + 8 * i])] = int(p[14 + 8 * i:17 + 8 * i])
        else:
            other.append(p)
    return out, other


_CHG_COL = {'  0': 0, '  1': 3, '  2': 2, '  3': 1, '  5': -1, '  6': -2, '  7': -3}


def _emit(kind, d, per_line=8):
    out, items = [], sorted(d.items())
    for i in range(0, len(items), per_line):
        ch = items[i:i + per_line]
        out.append(f'M  {kind}{len(ch):3d}' + ''.join(f' {a:3d} {v:3d}' for a, v in ch))
    return out


def v2_variants(block):
    """(name, respelled block) for one V2000 molblock written by MOLWrite; only variants that apply to the record are yielded"""
    head, atoms, bonds, props, tail = _v2_split(block)
    pr, other = _props(props)
    # all charges / isotopes / radicals as property lines, 8 per line; charge column blank
    chg = dict(pr['CHG'])
    for i, a in enumerate(atoms, 1):
        c = _CHG_COL[a[36:39]]
        if c:
            chg[i] = c
    if chg or pr['ISO'] or pr['RAD']:
        at = [a[:36] + '  0' + a[39:] for a in atoms]
        yield 'v2:props-merged-8-per-line', _v2_join(head, at, bonds, _emit('ISO', pr['ISO']) + _emit('CHG', chg) + _emit('RAD', pr['RAD']) + other, tail)
        yield 'v2:props-3-per-line-reversed', _v2_join(head, at, bonds, _emit('RAD', pr['RAD'], 3)[::-1] + _emit('CHG', chg, 3)[::-1] + _emit('ISO', pr['ISO'], 3)[::-1] + other, tail)
    # deuterium as D
    d = [i for i, v in pr['ISO'].items() if v == 2 and atoms[i - 1][31:34].strip() == 'H']
    if d:
        at = list(atoms)
        for i in d:
            at[i - 1] = at[i - 1][:31] + 'D  ' + at[i - 1][34:]
        iso = {i: v for i, v in pr['ISO'].items() if i not in d}
        yield 'v2:deuterium-symbol-D', _v2_join(head, at, bonds, [p for p in props if p[:6] != 'M  ISO'] + _emit('ISO', iso, 1), tail)
    # isotope as mass-difference column
    md = {i: v - _STD_MASS[atoms[i - 1][31:34].strip()] for i, v in pr['ISO'].items() if atoms[i - 1][31:34].strip() in _STD_MASS}
    md = {i: v for i, v in md.items() if -3 <= v <= 4 and v}
    if md:
        at = list(atoms)
        for i, v in md.items():
            at[i - 1] = at[i - 1][:34] + f'{v:2d}' + at[i - 1][36:]
        iso = {i: v for i, v in pr['ISO'].items() if i not in md}
        yield 'v2:isotope-mass-difference-column', _v2_join(head, at, bonds, [p for p in props if p[:6] != 'M  ISO'] + _emit('ISO', iso, 1), tail)
    # coordinate bond as type 9
    if any(b[6:9] == '  8' for b in bonds):
        yield 'v2:coordinate-bond-type-9', _v2_join(head, atoms, [b[:6] + '  9' + b[9:] if b[6:9] == '  8' else b for b in bonds], props, tail)
    # 'either' marks where no configuration is given (single bond: 4; double bond: 3)
    if bonds and all(b[9:12] == '  0' for b in bonds):
        bs = [b[:9] + ('  4' if b[6:9] == '  1' else '  3' if b[6:9] == '  2' else '  0') + b[12:] for b in bonds]
        yield 'v2:either-marks', _v2_join(head, atoms, bs, props, tail)
    # chiral flag set, short property-less trailing columns of bond lines (some writers stop after the stereo column)
    yield 'v2:chiral-flag+short-bond-lines', _v2_join(head[:3] + [head[3][:12] + '  1' + head[3][15:]], atoms, [b[:12] for b in bonds], props, tail)


def _v3_ctab(block):
    ls = block.split('\n')
    a0 = next(i for i, x in enumerate(ls) if x.startswith('M  V30 BEGIN ATOM'))
    a1 = next(i for i, x in enumerate(ls) if x.startswith('M  V30 END ATOM'))
    b0 = next(i for i, x in enumerate(ls) if x.startswith('M  V30 BEGIN BOND'))
    b1 = next(i for i, x in enumerate(ls) if x.startswith('M  V30 END BOND'))
    return ls, a0, a1, b0, b1


def _cont(line, cut):
    """V3000 continuation: 'M  V30 <a>-' newline 'M  V30 <b>'"""
    return line[:cut] + '-\nM  V30 ' + line[cut:]


def v3_variants(block):
    """(name, respelled block) for one V3000 molblock written by EMOLWrite (one CTAB)"""
    ls, a0, a1, b0, b1 = _v3_ctab(block)
    body = list(range(a0 + 1, a1)) + list(range(b0 + 1, b1))

    def at_token(x, k):     # position just after the k-th blank following the 'M  V30 ' prefix (the blank stays on the first line)
        p = 7
        for _ in range(k):
            p = x.index(' ', p) + 1
        return p
    new = list(ls)
    for i in body:
        if ls[i].count(' ') >= 6:
            new[i] = _cont(ls[i], at_token(ls[i], 3))
    yield 'v3:continuation-at-token-boundary', '\n'.join(new)
    new = list(ls)
    for i in body:
        if len(ls[i]) > 14:
            new[i] = _cont(ls[i], len(ls[i]) - 2)          # inside the last token
    yield 'v3:continuation-inside-token', '\n'.join(new)
    new = list(ls)
    for i in body:
        if ls[i].count(' ') >= 7:
            x = ls[i]
            p, q = at_token(x, 2), at_token(x, 4)
            new[i] = x[:p] + '-\nM  V30 ' + x[p:q] + '-\nM  V30 ' + x[q:]
    yield 'v3:continuation-twice', '\n'.join(new)
    # deuterium as D
    dl = [i for i in range(a0 + 1, a1) if ls[i].split()[3] == 'H' and ls[i].endswith(' MASS=2')]
    if dl:
        new = list(ls)
        for i in dl:
            p = ls[i].split(' ')       # 'M', '', 'V30', index, symbol, ...
            p[4] = 'D'
            new[i] = ' '.join(p)[:-len(' MASS=2')]
        yield 'v3:deuterium-symbol-D', '\n'.join(new)
    # coordinate bonds as 9 / 10
    cb = [i for i in range(b0 + 1, b1) if ls[i].split()[3] == '8']
    for t in ('9', '10'):
        if cb:
            new = list(ls)
            for i in cb:
                p = ls[i].split(' ')   # 'M', '', 'V30', index, type, ...
                p[4] = t
                new[i] = ' '.join(p)
            yield f'v3:coordinate-bond-type-{t}', '\n'.join(new)
    # properties a reader has to skip; chiral flag in the counts line
    new = list(ls)
    for i in range(a0 + 1, a1):
        new[i] = ls[i] + ' CFG=0 VAL=0'
    for i in range(b0 + 1, b1):
        if 'CFG=' not in ls[i]:
            new[i] = ls[i] + ' RXCTR=0'
    c = next(i for i, x in enumerate(ls) if x.startswith('M  V30 COUNTS'))
    new[c] = ls[c][:-1] + '1'
    yield 'v3:skippable-properties+chiral-flag', '\n'.join(new)
    if all('CFG=' not in ls[i] for i in range(b0 + 1, b1)) and b1 > b0 + 1:
        new = list(ls)
        for i in range(b0 + 1, b1):
            new[i] = ls[i] + ' CFG=2'
        yield 'v3:either-marks', '\n'.join(new)


def sdf_variants(text):
    """(name, respelled file) for a multi-record SDF text"""
    assert text.endswith('$$$$\n')
    yield 'sdf:last-record-without-delimiter', text[:-5]
    yield 'sdf:data-header-one-blank', re.sub(r'(?m)^>  <', '> <', text)


def rdf_variants(text):
    """(name, respelled file) for a multi-record RDF text"""
    n = [0]

    def reg(m):
        n[0] += 1
        return f'{m.group(1)} ${"R" if m.group(1) == "$RFMT" else "M"}IREG {n[0]}'
    yield 'rdf:record-lines-with-registry-number', re.sub(r'(?m)^(\$RFMT|\$MFMT)$', reg, text)
    body = text[text.index('\n', text.index('$DATM')) + 1:]
    assert body.startswith(('$RFMT', '$MFMT'))
    yield 'rdf:no-file-header', body
    yield 'rdf:datum-value-on-next-line', re.sub(r'(?m)^\$DATUM ', '$DATUM\n', text)


def rxn_file(text):
    """the bare RXN file ('$RXN' ... last molecule) of a one-record RDF text holding a reaction; None for a molecule record"""
    if '$RXN' not in text:
        return None
    b = text[text.index('$RXN'):]
    return b[:b.index('$DTYPE')] if '$DTYPE' in b else b


_ATOM = re.compile(r'<atom ([^>]*)/>')
_ATTR = re.compile(r'(\w+)="([^"]*)"')


def mrv_compact(text):
    """every <atomArray><atom .../>...</atomArray> of an MRV text as ONE <atomArray .../> element with blank-separated attribute lists
    (hydrogenCount has no list form and is dropped: the reader recomputes it); None when an array has a single atom (no list form)"""
    ok = [True]

    def arr(m):
        atoms = [dict(_ATTR.findall(a)) for a in _ATOM.findall(m.group(1))]
        if len(atoms) < 2:
            ok[0] = False
            return m.group(0)
        out = {'atomID': ' '.join(a['id'] for a in atoms), 'elementType': ' '.join(a['elementType'] for a in atoms),
               'x2': ' '.join(a['x2'] for a in atoms), 'y2': ' '.join(a['y2'] for a in atoms)}
        for k, dflt in (('mrvMap', '0'), ('formalCharge', '0'), ('isotope', '0'), ('radical', '0')):
            if any(k in a for a in atoms):
                out[k] = ' '.join(a.get(k, dflt) for a in atoms)
        return '<atomArray ' + ' '.join(f'{k}="{v}"' for k, v in out.items()) + '/>'
    new = re.sub(r'<atomArray>(.*?)</atomArray>', arr, text)
    return new if ok[0] else None


def mrv_namespaced(text):
    assert text.startswith('<cml>\n')
    return '<?xml version="1.0" encoding="UTF-8"?>\n<cml xmlns="http://www.chemaxon.com" version="ChemAxon file format v20.20.0, generated by v21.4.0"\n' \
           ' xmlns:xsi="http://www.w3.org/2001/XMLSchema-instance" xsi:schemaLocation="http://www.chemaxon.com http://www.chemaxon.com/marvin/schema/mrvSchema_20_20_0.xsd">\n' \
           + text[6:]


# ------------------------------------------------------------------------------------------------------- hand-written records
# (text, expected atoms [(number, symbol, isotope, charge, radical)], expected bonds {(i, j, order)} by atom NUMBER, expected implicit H {number: h})

def _v3(title, atoms, bonds, sgroup=()):
    ls = [title, '  foreign 2D', '', '  0  0  0     0  0            999 V3000', 'M  V30 BEGIN CTAB', f'M  V30 COUNTS {len(atoms)} {len(bonds)} {len(sgroup) and 1} 0 0',
          'M  V30 BEGIN ATOM'] + [f'M  V30 {x}' for x in atoms] + ['M  V30 END ATOM', 'M  V30 BEGIN BOND'] + [f'M  V30 {x}' for x in bonds] + ['M  V30 END BOND']
    if sgroup:
        ls += ['M  V30 BEGIN SGROUP'] + [f'M  V30 {x}' for x in sgroup] + ['M  V30 END SGROUP']
    return '\n'.join(ls + ['M  V30 END CTAB', 'M  END', ''])


HAND = {
    # eta-2 ethylene on platinum: multi-centre bond from Pt to a star atom with ENDPTS; star atom LAST in the atom block
    'v3:star-atom-last': (_v3('zeise', ['1 C -0.77 0 0 0', '2 C 0.77 0 0 0', '3 Pt 0 -1.8 0 0 CHG=2', '4 * 0 0 0 0'],
                              ['1 2 1 2', '2 9 3 4 ENDPTS=(2 1 2) ATTACH=ALL']),
                          [(1, 'C', None, 0, False), (2, 'C', None, 0, False), (3, 'Pt', None, 2, False)], {(1, 2, 2), (1, 3, 8), (2, 3, 8)}, {}),
    # the star atom FIRST and in the middle, atom-atom mapping numbers given, the bond written star -> metal, ATTACH before ENDPTS
    'v3:star-atom-first-and-middle+aamap': (_v3('bis-ethylene', ['1 * 0 0 0 0', '2 C -0.77 0 0 7', '3 C 0.77 0 0 8', '4 * 0 -3.6 0 0', '5 Ni 0 -1.8 0 9',
                                                                '6 C -0.77 -3.6 0 10', '7 C 0.77 -3.6 0 11'],
                                                ['1 2 2 3', '2 2 6 7', '3 9 1 5 ATTACH=ALL ENDPTS=(2 2 3)', '4 9 5 4 ENDPTS=(2 6 7) ATTACH=ALL']),
                                            [(7, 'C', None, 0, False), (8, 'C', None, 0, False), (9, 'Ni', None, 0, False), (10, 'C', None, 0, False), (11, 'C', None, 0, False)],
                                            {(7, 8, 2), (10, 11, 2), (7, 9, 8), (8, 9, 8), (9, 10, 8), (9, 11, 8)}, {}),
    # five endpoints (cyclopentadienyl anion on iron), isotope and radical properties on ordinary atoms next to it
    'v3:star-atom-5-endpoints': (_v3('cp-fe', ['1 C 0 1 0 0', '2 C 0.95 0.31 0 0', '3 C 0.59 -0.81 0 0', '4 C -0.59 -0.81 0 0', '5 C -0.95 0.31 0 0 CHG=-1',
                                              '6 * 0 0 0 0', '7 Fe 3 0 0 0 CHG=1 MASS=57', '8 C 5 0 0 0 RAD=2'],
                                     ['1 2 1 2', '2 1 2 3', '3 2 3 4', '4 1 4 5', '5 1 5 1', '6 9 7 6 ENDPTS=(5 1 2 3 4 5) ATTACH=ALL', '7 1 7 8']),
                                 [(1, 'C', None, 0, False), (2, 'C', None, 0, False), (3, 'C', None, 0, False), (4, 'C', None, 0, False), (5, 'C', None, -1, False),
                                  (6, 'Fe', 57, 1, False), (7, 'C', None, 0, True)],
                                 {(1, 2, 2), (2, 3, 1), (3, 4, 2), (4, 5, 1), (1, 5, 1), (6, 7, 1), (1, 6, 8), (2, 6, 8), (3, 6, 8), (4, 6, 8), (5, 6, 8)}, {}),
    # MRV_IMPLICIT_H data S-group, V3000 (pyrrole in aromatic bonds: the hydrogen of N cannot be computed, the record states it)
    'v3:sgroup-implicit-h': (_v3('pyrrole', ['1 C 0 1 0 0', '2 C 0.95 0.31 0 0', '3 C 0.59 -0.81 0 0', '4 C -0.59 -0.81 0 0', '5 N -0.95 0.31 0 0'],
                                 ['1 4 1 2', '2 4 2 3', '3 4 3 4', '4 4 4 5', '5 4 5 1'],
                                 ['1 DAT 0 ATOMS=(1 5) FIELDNAME=MRV_IMPLICIT_H -', 'FIELDDISP="    0.0000    0.0000    DR    ALL  0       0" -', 'FIELDDATA=IMPL_H1']),
                             [(1, 'C', None, 0, False), (2, 'C', None, 0, False), (3, 'C', None, 0, False), (4, 'C', None, 0, False), (5, 'N', None, 0, False)],
                             {(1, 2, 4), (2, 3, 4), (3, 4, 4), (4, 5, 4), (1, 5, 4)}, {5: 1}),
    # the same in V2000 (two S-groups: imidazole N-H and a second one on another record atom)
    'v2:sgroup-implicit-h': ('\n'.join(['imidazole', '  foreign 2D', '', '  5  5  0  0  0  0            999 V2000',
                                        '    0.0000    1.0000    0.0000 C   0  0  0  0  0  0  0  0  0  0  0  0',
                                        '    0.9500    0.3100    0.0000 N   0  0  0  0  0  0  0  0  0  0  0  0',
                                        '    0.5900   -0.8100    0.0000 C   0  0  0  0  0  0  0  0  0  0  0  0',
                                        '   -0.5900   -0.8100    0.0000 C   0  0  0  0  0  0  0  0  0  0  0  0',
                                        '   -0.9500    0.3100    0.0000 N   0  0  0  0  0  0  0  0  0  0  0  0',
                                        '  1  2  4  0  0  0  0', '  2  3  4  0  0  0  0', '  3  4  4  0  0  0  0', '  4  5  4  0  0  0  0', '  5  1  4  0  0  0  0',
                                        'M  STY  2   1 DAT   2 DAT', 'M  SAL   1  1   5', 'M  SDT   1 MRV_IMPLICIT_H',
                                        'M  SDD   1     0.0000    0.0000    DR    ALL  0       0', 'M  SED   1 IMPL_H1',
                                        'M  SAL   2  1   2', 'M  SDT   2 MRV_IMPLICIT_H', 'M  SDD   2     0.0000    0.0000    DR    ALL  0       0', 'M  SED   2 IMPL_H0',
                                        'M  END', '']),
                             [(1, 'C', None, 0, False), (2, 'N', None, 0, False), (3, 'C', None, 0, False), (4, 'C', None, 0, False), (5, 'N', None, 0, False)],
                             {(1, 2, 4), (2, 3, 4), (3, 4, 4), (4, 5, 4), (1, 5, 4)}, {5: 1, 2: 0}),
}
