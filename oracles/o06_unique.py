"""C06 oracle: is the minimum cycle basis of a graph unique?  (number of relevant cycles == cyclomatic number, Vismara 1997: a cycle is
relevant iff it is not a GF(2) sum of strictly shorter cycles iff it belongs to some minimum cycle basis).  Plain enumeration of the simple
cycles up to the longest ring of one minimum basis (networkx); nothing calls chython's ring code.  Used only to NAME the family of a
failure ("which rings an atom lies on depends on the basis picked"), never to excuse one."""
import networkx as nx


def relevant_cycles(g0, limit=200000):
    """(number of relevant cycles or None if more than `limit` simple cycles had to be enumerated, cyclomatic number)"""
    mu = g0.number_of_edges() - g0.number_of_nodes() + nx.number_connected_components(g0)
    if mu == 0:
        return 0, 0
    bound = max(len(c) for c in nx.minimum_cycle_basis(g0))
    eid = {frozenset(e): i for i, e in enumerate(g0.edges)}
    by_len = {}
    n = 0
    for c in nx.simple_cycles(g0, length_bound=bound):
        n += 1
        if n > limit:
            return None, mu
        v = 0
        for a, b in zip(c, c[1:] + c[:1]):
            v |= 1 << eid[frozenset((a, b))]
        by_len.setdefault(len(c), []).append(v)
    basis = {}

    def reduce(v):
        while v:
            h = v.bit_length() - 1
            if h not in basis:
                return v
            v ^= basis[h]
        return 0
    rel = 0
    for ln in sorted(by_len):
        vs = by_len[ln]
        rel += sum(1 for v in vs if reduce(v))
        for v in vs:
            x = reduce(v)
            if x:
                basis[x.bit_length() - 1] = x
    return rel, mu


def mcb_unique(g0):
    """True / False, or None when undecided within the enumeration limit"""
    rel, mu = relevant_cycles(g0)
    return None if rel is None else rel == mu
